#!/bin/bash
# Build every worker once, offline, from /repo's current tree (MANIFEST.setup_cmd).
set -e
cd "$(dirname "$0")"
export CARGO_NET_OFFLINE=true
cp -f /repo/Cargo.lock harness/Cargo.lock 2>/dev/null || true
python3 - <<'PY'
import sys, os
sys.path.insert(0, os.path.join(os.getcwd(), "lib"))
import sup, glob
for pkg in ("vh-mpq", "vh-formats", "vh-ffi"):
    for src in sorted(glob.glob(f"harness/{pkg}/src/bin/*.rs")):
        b = os.path.basename(src)[:-3]
        sup.build(pkg, b, quiet=False, features={"c04_simd": "simd", "c09_async": "async"}.get(b))
# sanitizer flavor the quick tier uses (C19 runs a slice of its histories under AddressSanitizer); a failure here is not
# fatal for setup: the check reports that slice as inconclusive
try:
    sup.build("vh-ffi", "c19", flavor="asan", quiet=False)
except Exception as ex:
    print("asan pre-build failed:", str(ex)[:300])
# the overflow-checks flavor of the same worker (C19 quick)
try:
    sup.build("vh-ffi", "c19", flavor="checked", quiet=False)
except Exception as ex:
    print("checked pre-build failed:", str(ex)[:300])
PY
echo "setup done"
