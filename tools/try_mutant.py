#!/usr/bin/env python3
"""tools/try_mutant.py <patch.diff> <Cxx> [<Cyy> ...] [--tier quick|thorough] [--tests <crate> ...]

Runs registered checks against a candidate change WITHOUT touching /repo (other work uses /repo concurrently):
the patch is applied in a private worktree (/tmp/mwt, at /repo's HEAD), the harness is pointed at it through a
private copy (/tmp/mhx, own cargo target dir, incremental across mutants), the checks run, the patch is reverted.
Equivalent to `git -C /repo apply <patch>; ./check Cxx; git -C /repo checkout -- .`.
With --tests, also runs `cargo test -p <crate> --offline` in the patched worktree first.
"""
import json
import os
import subprocess
import sys

VERIF = os.path.dirname(os.path.dirname(os.path.abspath(__file__)))
WT = os.environ.get("MUT_WT", "/tmp/mwt")
HX = os.environ.get("MUT_HX", "/tmp/mhx")


def sh(cmd, **kw):
    return subprocess.run(cmd, shell=True, text=True, stdout=subprocess.PIPE, stderr=subprocess.STDOUT, **kw)


def main():
    a = sys.argv[1:]
    patch = os.path.abspath(a[0])
    props, tests, tier = [], [], "quick"
    i = 1
    mode = "props"
    while i < len(a):
        if a[i] == "--tier":
            tier = a[i + 1]
            i += 2
            continue
        if a[i] == "--tests":
            mode = "tests"
            i += 1
            continue
        (props if mode == "props" else tests).append(a[i])
        i += 1
    head = sh("git -C /repo rev-parse HEAD").stdout.strip()
    if not os.path.isdir(WT):
        r = sh(f"git -C /repo worktree add --detach {WT} {head}")
        if r.returncode:
            print(r.stdout)
            return 2
    sh(f"git -C {WT} checkout -q -- . && git -C {WT} clean -fdq -e target && git -C {WT} checkout -q --detach {head}")
    r = sh(f"git -C {WT} apply {patch}")
    if r.returncode:
        print("PATCH DOES NOT APPLY:", r.stdout)
        return 2
    out = {"patch": patch, "results": {}}
    try:
        for crate in tests:
            env = dict(os.environ, CARGO_NET_OFFLINE="true", CARGO_TARGET_DIR=f"{WT}/target")
            r = sh(f"cd {WT} && cargo test -p {crate} --offline 2>&1 | sed 's/\\x1b\\[[0-9;]*m//g' | grep -E '^test result|FAILED|^error|panicked' | sort | uniq -c", env=env)
            ok = "FAILED" not in r.stdout and "error" not in r.stdout and "test result: ok" in r.stdout
            out["results"][f"tests:{crate}"] = "pass" if ok else "FAIL: " + r.stdout[-600:]
            print(f"[tests {crate}] {'pass' if ok else 'FAIL'}")
        sh(f"{VERIF}/tools/scratch_harness.sh {WT} {HX}")
        env = dict(os.environ, VERIF_REPO=WT, VERIF_HARNESS=f"{HX}/harness", VERIF_TARGET_BASE=f"{HX}/target", VERIF_EVIDENCE_DIR=f"{HX}/evidence")
        cli = None
        for p in props:
            if p in ("C11", "C20") and cli is None:
                r = sh(f"cd {WT} && CARGO_NET_OFFLINE=true CARGO_TARGET_DIR={WT}/target cargo build -p warcraft-rs --offline 2>&1 | tail -3")
                cli = f"{WT}/target/debug/warcraft-rs"
                env["VERIF_CLI"] = cli
            r = sh(f"cd {VERIF} && ./check {p} --tier {tier}", env=env)
            sigs = [l.strip()[len("signature:"):].strip() for l in r.stdout.splitlines() if l.strip().startswith("signature:")]
            viol = [l for l in r.stdout.splitlines() if l.startswith("VIOLATION")]
            out["results"][p] = {"exit": r.returncode, "violations": len(viol), "signatures": sigs[:8]}
            print(f"[{p}] exit={r.returncode} violations={len(viol)} sigs={sigs[:4]}")
            if r.returncode not in (0, 1):
                print(r.stdout[-1500:])
    finally:
        sh(f"git -C {WT} checkout -q -- . && git -C {WT} clean -fdq -e target")
    print(json.dumps(out))
    return 0


if __name__ == "__main__":
    sys.exit(main())
