#!/usr/bin/env python3
"""tools/rerun_seeded.py <seeded-id> [<seeded-id> ...]

Re-runs the checks recorded for a seeded change (meta.json: confirmation.checks, or the property of the id) against the
change with the CURRENT machinery (tools/try_mutant.py: private worktree MUT_WT / harness copy MUT_HX) and records the
result in meta.json: the result of the first confirmation run is kept once under confirmation.before_strengthening, the
current one replaces confirmation.checks / detected_by.
"""
import json
import os
import subprocess
import sys

VERIF = os.path.dirname(os.path.dirname(os.path.abspath(__file__)))


def main():
    rc = 0
    for sid in sys.argv[1:]:
        d = os.path.join(VERIF, "seeded", sid)
        mp = os.path.join(d, "meta.json")
        m = json.load(open(mp))
        conf = m.setdefault("confirmation", {})
        props = list(conf.get("checks", {}).keys()) or [sid.split("-")[0]]
        own = sid.split("-")[0]
        if own not in props:
            props.insert(0, own)
        r = subprocess.run(["python3", os.path.join(VERIF, "tools", "try_mutant.py"), os.path.join(d, "patch.diff")] + props,
                           text=True, stdout=subprocess.PIPE, stderr=subprocess.STDOUT)
        last = [l for l in r.stdout.splitlines() if l.startswith("{")]
        if not last:
            print(f"{sid}: try_mutant produced no result\n{r.stdout[-800:]}")
            rc = 1
            continue
        res = json.loads(last[-1])["results"]
        if "before_strengthening" not in conf and conf.get("checks") and conf.get("checks") != res:
            conf["before_strengthening"] = {"checks": conf.get("checks"), "detected_by": conf.get("detected_by")}
        conf["checks"] = res
        conf["detected_by"] = [p for p, v in res.items() if isinstance(v, dict) and v.get("exit") == 1]
        conf["rerun_at_repo_head"] = subprocess.run(["git", "-C", "/repo", "rev-parse", "--short=10", "HEAD"], text=True, stdout=subprocess.PIPE).stdout.strip()
        conf["rerun_at_verif_head"] = subprocess.run(["git", "-C", VERIF, "rev-parse", "--short=10", "HEAD"], text=True, stdout=subprocess.PIPE).stdout.strip()
        json.dump(m, open(mp, "w"), indent=1)
        print(f"{sid}: detected_by={conf['detected_by']} " + " ".join(f"{p}:exit={v.get('exit')}" for p, v in res.items() if isinstance(v, dict)), flush=True)
    return rc


if __name__ == "__main__":
    sys.exit(main())
