#!/usr/bin/env python3
"""tools/merge_known.py Cxx 'substr=commit' ... : fold known_findings.d/Cxx.jsonl into known_findings.jsonl.
Entries whose signature contains a given substring become status=fixed with that commit; the rest stay known."""
import json, os, sys
HERE = os.path.dirname(os.path.dirname(os.path.abspath(__file__)))
prop = sys.argv[1]
maps = [a.split("=", 1) for a in sys.argv[2:]]
# substrings may themselves contain '=': split on the LAST '='
maps = [a.rsplit("=", 1) for a in sys.argv[2:]]
src = os.path.join(HERE, "known_findings.d", f"{prop}.jsonl")
out = open(os.path.join(HERE, "known_findings.jsonl"), "a")
n_fixed = n_known = 0
for line in open(src):
    line = line.strip()
    if not line:
        continue
    e = json.loads(line)
    commit = next((c for sub, c in maps if sub in e["signature"]), None)
    if commit:
        out.write(json.dumps({"status": "fixed", "property": prop, "commit": commit, "signature": e["signature"], "what": e["what"][:400]}) + "\n")
        n_fixed += 1
    else:
        e["status"] = "known"
        out.write(json.dumps(e) + "\n")
        n_known += 1
out.close()
os.remove(src)
print(f"{prop}: {n_fixed} fixed, {n_known} known")
