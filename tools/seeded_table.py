#!/usr/bin/env python3
"""Print the markdown table of seeded changes (DESIGN.md §9.4) from seeded/*/meta.json."""
import glob, json, os
HERE = os.path.dirname(os.path.dirname(os.path.abspath(__file__)))
print("| id | what it breaks / needs to manifest | caught by (signature examples) | not caught by | at import |")
print("|----|-------------------------------------|--------------------------------|---------------|-----------|")
for d in sorted(glob.glob(os.path.join(HERE, "seeded", "*"))):
    mp = os.path.join(d, "meta.json")
    if not os.path.exists(mp):
        continue
    m = json.load(open(mp))
    conf = m.get("confirmation", {})
    checks = conf.get("checks", {})
    caught, missed = [], []
    for p, v in checks.items():
        if not isinstance(v, dict):
            continue
        if v.get("exit") == 1:
            sig = (v.get("signatures") or ["?"])[0]
            caught.append(f"{p} (`{sig[:70]}`)")
        else:
            missed.append(f"{p} (exit {v.get('exit')})")
    title = (m.get("title") or "")[:110].replace("|", "/")
    needs = (m.get("needs_to_manifest") or "")[:160].replace("|", "/").replace("\n", " ")
    own = os.path.basename(d).split("-")[0]
    b = conf.get("before_strengthening")
    if b is not None:
        first = "own check missed it; caught after strengthening" if own not in (b.get("detected_by") or []) else "caught"
    else:
        first = "caught" if own in (conf.get("detected_by") or []) else ("caught by another check only" if conf.get("detected_by") else "missed")
    print(f"| {os.path.basename(d)} | {title} — {needs} | {'; '.join(caught) or '**none**'} | {'; '.join(missed) or '–'} | {first} |")
