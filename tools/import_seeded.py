#!/usr/bin/env python3
"""tools/import_seeded.py <mutant-dir> <seeded-id> <crate> <Cxx> [<Cyy> ...]

Confirms a seeded breaking change independently and records it under /verif/seeded/<seeded-id>/:
  1. the patch applies to /repo's HEAD (in the private worktree /tmp/mwt) and the crate builds without warnings,
  2. the crate's existing tests still pass with the change,
  3. the demonstration (demo.rs: copied into the crate's tests/ directory as seeded_demo.rs; or demo.sh / demo.py
     run with $WT pointing at the worktree) FAILS with the change and PASSES without it,
  4. the named checks are run against the change (tools/try_mutant.py) and what they report is recorded.
Writes patch.diff, the demonstration and meta.json (what it breaks, what it needs to manifest, what was run,
which checks caught it with which signatures) into /verif/seeded/<seeded-id>/.
"""
import json
import os
import shutil
import subprocess
import sys

VERIF = os.path.dirname(os.path.dirname(os.path.abspath(__file__)))
WT = os.environ.get("MUT_WT", "/tmp/mwt")
CRATE_DIRS = {"wow-mpq": "file-formats/archives/wow-mpq", "wow-m2": "file-formats/graphics/wow-m2", "wow-wmo": "file-formats/graphics/wow-wmo",
              "wow-blp": "file-formats/graphics/wow-blp", "wow-adt": "file-formats/world-data/wow-adt", "wow-wdt": "file-formats/world-data/wow-wdt",
              "wow-wdl": "file-formats/world-data/wow-wdl", "wow-cdbc": "file-formats/database/wow-cdbc", "storm-ffi": "ffi/storm-ffi", "warcraft-rs": "warcraft-rs"}


def sh(cmd, **kw):
    return subprocess.run(cmd, shell=True, text=True, stdout=subprocess.PIPE, stderr=subprocess.STDOUT, **kw)


def clean(s):
    import re
    return re.sub(r"\x1b\[[0-9;]*m", "", s)


def run_demo(mdir, crate):
    env = dict(os.environ, CARGO_NET_OFFLINE="true", CARGO_TARGET_DIR=f"{WT}/target", WT=WT)
    if os.path.exists(os.path.join(mdir, "demo.rs")):
        tdir = os.path.join(WT, CRATE_DIRS[crate], "tests")
        os.makedirs(tdir, exist_ok=True)
        shutil.copy(os.path.join(mdir, "demo.rs"), os.path.join(tdir, "seeded_demo.rs"))
        import re
        head = open(os.path.join(mdir, "demo.rs"), errors="replace").read(3000)
        m = re.search(r"--features[ =]([A-Za-z0-9_,-]+)", head)
        feat = f"--features {m.group(1)}" if m else ""
        r = sh(f"cd {WT} && cargo test -p {crate} --offline {feat} --test seeded_demo 2>&1", env=env)
        os.remove(os.path.join(tdir, "seeded_demo.rs"))
        out = clean(r.stdout)
        compiled = "test result" in out or "running " in out
        ok = r.returncode == 0 and "test result: ok" in out
        return ok, compiled, out[-700:]
    for name, runner in (("demo.sh", "bash"), ("demo.py", "python3")):
        if os.path.exists(os.path.join(mdir, name)):
            r = sh(f"cd {WT} && {runner} {os.path.join(mdir, name)} {WT}", env=env)
            return r.returncode == 0, True, clean(r.stdout)[-700:]
    return None, False, "no demonstration found"


def main():
    mdir, sid, crate = os.path.abspath(sys.argv[1]), sys.argv[2], sys.argv[3]
    props = sys.argv[4:]
    patch = os.path.join(mdir, "patch.diff")
    head = sh("git -C /repo rev-parse HEAD").stdout.strip()
    if not os.path.isdir(WT):
        sh(f"git -C /repo worktree add --detach {WT} {head}")
    reset = f"git -C {WT} checkout -q -- . && git -C {WT} clean -fdq -e target && git -C {WT} checkout -q --detach {head}"
    sh(reset)
    rec = {"repo_head": head[:10]}
    # demo without the change
    ok0, comp0, out0 = run_demo(mdir, crate)
    rec["demo_without_change"] = "passes" if ok0 else ("FAILS" if comp0 else "DOES NOT BUILD")
    r = sh(f"git -C {WT} apply {patch}")
    if r.returncode:
        print("patch does not apply:", r.stdout)
        return 2
    env = dict(os.environ, CARGO_NET_OFFLINE="true", CARGO_TARGET_DIR=f"{WT}/target")
    tcrates = [crate] + (["storm-ffi"] if crate == "wow-mpq" else [])
    t = sh("cd %s && cargo test %s --offline 2>&1 | sed 's/\\x1b\\[[0-9;]*m//g' | grep -E '^test result|FAILED|^error|^warning: unused|panicked' | sort | uniq -c" % (WT, " ".join("-p " + c for c in tcrates)), env=env)
    tests_ok = "FAILED" not in t.stdout and "error" not in t.stdout and "test result: ok" in t.stdout
    rec["existing_tests_with_change"] = ("pass: cargo test %s --offline" % " ".join("-p " + c for c in tcrates)) if tests_ok else "FAIL: " + t.stdout[-500:]
    ok1, comp1, out1 = run_demo(mdir, crate)
    rec["demo_with_change"] = "fails" if (comp1 and not ok1) else ("PASSES" if ok1 else "DOES NOT BUILD")
    sh(reset)
    print(json.dumps(rec, indent=1))
    if not (ok0 and tests_ok and comp1 and not ok1):
        print("NOT CONFIRMED — not imported")
        print("--- demo without change:\n", out0[-400:], "\n--- demo with change:\n", out1[-400:])
        return 1
    # run the checks
    r = sh(f"python3 {VERIF}/tools/try_mutant.py {patch} {' '.join(props)}")
    last = [l for l in r.stdout.splitlines() if l.startswith("{")]
    res = json.loads(last[-1])["results"] if last else {}
    rec["checks"] = res
    rec["detected_by"] = [p for p, v in res.items() if isinstance(v, dict) and v.get("exit") == 1]
    dest = os.path.join(VERIF, "seeded", sid)
    os.makedirs(dest, exist_ok=True)
    shutil.copy(patch, os.path.join(dest, "patch.diff"))
    for f in ("demo.rs", "demo.sh", "demo.py"):
        if os.path.exists(os.path.join(mdir, f)):
            shutil.copy(os.path.join(mdir, f), os.path.join(dest, f))
    meta = {}
    if os.path.exists(os.path.join(mdir, "meta.json")):
        try:
            meta = json.load(open(os.path.join(mdir, "meta.json")))
        except Exception:
            meta = {}
    meta["confirmation"] = rec
    meta["demo_crate"] = crate
    with open(os.path.join(dest, "meta.json"), "w") as f:
        json.dump(meta, f, indent=1)
    print(f"imported {sid}: detected_by={rec['detected_by']}")
    for p, v in res.items():
        print(" ", p, v)
    return 0


if __name__ == "__main__":
    sys.exit(main())
