#!/bin/bash
# usage: tools/scratch_harness.sh <repo-worktree> <dest-dir>
# Makes a private copy of the harness whose path dependencies point at <repo-worktree> instead of /repo,
# so a candidate change to the repository can be tried without touching /repo.
# Then run:  VERIF_REPO=<repo-worktree> VERIF_HARNESS=<dest-dir>/harness VERIF_TARGET_BASE=<dest-dir>/target /verif/check Cxx
set -e
WT="$1"; DEST="$2"
mkdir -p "$DEST"
rm -rf "$DEST/harness"
cp -r "$(dirname "$0")/../harness" "$DEST/harness"
rm -rf "$DEST/harness/target"*
find "$DEST/harness" -name Cargo.toml -exec sed -i "s#\"/repo/#\"$WT/#g" {} +
grep -rl '"/repo/' "$DEST/harness" --include=*.rs | xargs -r sed -i "s#\"/repo/#\"$WT/#g"
echo "scratch harness at $DEST/harness -> $WT"
