#!/usr/bin/env python3
"""Regenerate MANIFEST.json from the table below (kept in one place so it stays valid)."""
import json, os
HERE = os.path.dirname(os.path.dirname(os.path.abspath(__file__)))

CHECKS = {
 "C01": ("exploration", "pairwise/3-wise covering sweep of the builder configuration product with sector-straddling file sets, read back against an in-memory model; mixed sets (selector, encryption and way into the builder per file, incl. files from disk), 50-300-file sets, caller-supplied listfiles, names unusual on a file system", "reference-model monitor (map) at the API boundary + panic trap", "§6 C01",
         "held only on the configurations and file sets generated; ADPCM is lossy (length only); names avoid listfile syntax"),
 "C03": ("exploration", "codec sweep selector x content class x length ladder with identity/size/self-acceptance oracle; selector 0, ADPCM+PKWare selectors, threads on one shared SessionTracker", "identity + size-rule oracle over a boundary-length ladder, panic trap", "§6 C03",
         "native run only; held on the ladder (<= 2^17 quick, <= 2^21 thorough) and 10 content classes"),
 "C04": ("exploration", "exhaustive small sub-spaces (tables, all <=2-byte strings, all 3-byte UTF-8 scalars, cipher lengths 0..17 x 77 keys) plus random long inputs against an independent reference implementation; a slice built with the non-default `simd` feature compares the byte-string hash (incl. invalid UTF-8, vector thresholds, alignments) and runs under ASan in thorough", "differential oracle vs independent reference (regenerated crypt table, lookup3 transcription)", "§6 C04",
         "reference written from the published algorithms in harness/vh-mpq/src/lib.rs; a shared misreading would go unnoticed"),
 "C02": ("exploration", "differential exchange of archives in both directions with an independent MPQ implementation (lib/refmpq.py): every builder-written archive of the published-format subset is parsed and extracted by the reference, every reference-written archive is read by the library; mismatches are diagnosed against named deviation models so other changes stay visible; sector-checksum / attribute archives and on-disk sources in direction A; deferred table loading, list_all / hashes / read_file_by_indices in direction B", "differential oracle vs independent implementation, both directions", "§6 C02",
         "trusted base is an independent reading of the public MPQ format, not StormLib; subset V1/V2, classic tables, none/zlib/bzip2, no sector CRC"),
 "C05": ("exploration", "structured mutation of valid seed files of all 12 formats (every prefix, boundary values at every aligned offset of header/table/chunk-header/count regions located by an independent walker, chunk reorder/duplicate/delete/resize, seeded havoc) driven through every public open/parse/list/read entry point (~150, audited against the crates' public API), each batch in a forked child; thorough adds a coverage-guided stage (libFuzzer + AddressSanitizer over the same drivers) whose kept inputs and artifacts are replayed natively under the same monitors", "panic trap, abort / stack-overflow / allocation-abort attribution per forked batch, heap-request monitor (single request >= 256 MiB or growth >= 512 MiB for inputs <= 4 MiB), per-call time budget with hang confirmation", "§6 C05 / §3 M1-M4",
         "release profile; inputs <= 4 MiB; MPQ seeds from the builder and from the independent writer lib/refmpq.py; four known sites remain (PKWare decoder x2, DXT and JPEG output sized from announced dimensions)"),
 "C06": ("exploration", "operation histories on MutableArchive (bounded-exhaustive singles and pairs over a 98-letter alphabet on up to 16 starting archives, sampled triples, long random histories) checked against a plain map after close + reopen; LZMA / sparse / fix-key / from-disk additions", "reference-model monitor (persistent map) over operation histories; probe-loop step-counter hook for termination", "§6 C06",
         "five history-level trigger predicates are known findings (V3+ modification, compact without listfile, compact on a stale view, block-table growth past the slack, rename of an encrypted file): histories in which one of them holds are reported under it and not checked further"),
 "C07": ("exploration", "rebuild sweep source configuration x target version x overrides x verify/skip filters with independent re-read of source and target, summary arithmetic and compare_archives agreement; preserve_order / own choice of version as axes; rebuilds onto the source path", "reference re-read oracle (set/bytes comparison) + summary-count monitor", "§6 C07",
         "a rebuild returning Err is allowed and only tallied; sources without listfile list nothing"),
 "C13": ("exploration", "generated M2 models / skins / anim objects (29 sections each empty/one/many, extreme floats, long names) x 5 versions: write->parse projection equality, byte-identical rewrite, parse -> empty one list -> write -> parse, lists longer than the parsers' pre-allocation caps, same-version and cross-version conversion, independent (count,offset) walker; header versions up to 310, save / load helpers, embedded-skin accessors, explicit-format anim parsing, optimize_memory, writers into occupied cursors", "reference-model monitor (object before write) + independent offset walker", "§6 C13",
         "projection exclusions are listed in evidence; nine writer/parser behaviours are known findings reported under risk=<predicate>"),
 "C15": ("exploration", "generated WMO roots and groups (every list empty/one/many, aliasing string tables, extreme floats) x 5 versions x 25 conversion pairs: parse projections, byte-identical second write, header counts and string offsets via an independent chunk walker; WmoEditor add/remove histories judged by a tally; write_group into streams that hold data in front of / behind the writer; all 11 versions, alternative readers against the walker, editor vertex / texture / bounds operations and accessors with save -> parse of every history", "reference-model monitor + independent chunk walker", "§6 C15",
         "exclusions listed in evidence; derived/unmodelled fields are not compared"),
 "C16": ("exploration", "images x 25 targets x mipmaps x filters: encode->parse equality, mip chain to 1x1, independent mip-table walker (inside file, no overlap), exact raw3 pixels, palette-membership and alpha quantisation for raw1; Luma / 16-bit / float sources, alternative entry points, mipmap_info, full_jpeg", "reference-model monitor + independent header walker + pixel oracle", "§6 C16",
         "'quantised' admits floor, round or ceil; JPEG/DXT structure only"),
 "C17": ("exploration", "generated schemas x record sets written by an independent DBC encoder; eager, cached, lazy, mmap, parallel and rewrite paths compared with the model and with each other; written size and string de-duplication; hashed and binary-search key lookups; the lazy iterator driven through next/nth/skip/take/step_by/size_hint/count programs; ASan slice for the mmap path (thorough); WDB2 / WDB5 containers, schema-less paths, access by name, key by name, stand-alone string blocks, blocks without a leading NUL", "reference-model monitor + independent encoder; AddressSanitizer on the mmap path", "§6 C17",
         "WDBC with schemas only; valid inputs only"),
 "C08": ("exploration", "chain histories (all of length <= 3, sampled longer, all insertion orders x three construction APIs, tied parallel loads) against a priority-list model; generated COPY/BSD0 patches (independent encoder, RLE, bsdiff apply) direct and through PATCH_FILE chains, with every header field and payload region corrupted: result must be Err or carry the declared md5_after; extract_files, get_chain_info / get_archive after every operation; chains over V1-V4 archives and encrypted entries", "reference-model monitor (priority list) + independent patch oracle + panic trap + heap-request monitor; task-event hook for parallel open orders", "§6 C08",
         "archives without listfile are outside the workload; ties touched by set_priority may resolve either way"),
 "C11": ("exploration", "hostile entry/listfile names (grammar over .., separators, absolute, drive, UNC, long, unicode) planted by an independent MPQ writer, extracted by the CLI in 12 configurations, incl. names no archive holds (asked for / listed without an entry) and files already standing where a hostile name would lead; two observers of the whole neighbourhood: before/after tree snapshot and strace write-class syscall checker; benign files must still be extracted bit-identically; drive prefixes before a root-anchored rest, one change of separator kind inside continuation names", "file-system snapshot monitor + syscall trace checker (strace) at the process boundary", "§6 C11",
         "names that would leave /verif/scratch if honoured are never generated (root-anchored names are anchored inside the sandbox)"),
 "C14": ("exploration", "generated ADT builder inputs (isolated features per version, covering arrays over root and MCNK optional chunks, invalid inputs) x versions: build->bytes->parse equality, 1-4 parse->rebuild rounds stable and non-growing, both reference layouts (MCRF / MCRD+MCRW), dry water tables, independent chunk walker for framing, MHDR and MCIN entries; cross-version from_root_adt, from_parsed, parse_adt_with_metadata, *_mut accessors, AdtSet on a lone root file", "reference-model monitor (builder input) + independent chunk walker", "§6 C14",
         "exclusions listed in evidence (detected-version label, serializer-computed fields, neutral MTXF, MCIN size convention)"),
 "C19": ("exploration", "model-based single-thread histories over all 30 exported functions with stale/forged/null handles and canary buffers, scripted probes (replace / rename under an open handle, close under failing writes via RLIMIT_FSIZE, names beyond ASCII across the 259-byte find-record limit); threaded runs with call/return logs checked offline (per-handle linearisation of the cursor, no success after close, unique ids); ASan and an overflow-checks build over the same histories, TSan over threaded runs and a Miri slice (thorough); a mutating thread against readers on one handle, reissued handle values, NULL pointer arguments, encrypted and signed fixtures", "handle-table model + canaries + offline linearizability/ordering checker over call logs; AddressSanitizer, ThreadSanitizer, Miri", "§6 C19",
         "seek semantics beyond either end not compared; re-entrant callbacks not driven; calls that cannot return on this tree are probed separately on a helper thread"),
 "C20": ("exploration", "the warcraft-rs binary driven on generated inputs: create->extract byte identity over versions x compressions x listfile x extract options, list/info (filters derived from the archive's names judged against a glob model) against the library's view, and every sub-command of every format family on valid, truncated and corrupted inputs judged against the verdict of the library call it wraps (computed in-process) and against the promised output (exists, parses, equals the library writer's bytes); validate on 1000-5003-member archives with one damaged member", "process-boundary monitor: exit status / output oracle against the library's own answer; valgrind memcheck on the raw hex-dump paths (thorough)", "§6 C20",
         "a panic exit counts as non-zero but is reported as panic-exit; names avoid listfile syntax and option-like prefixes; known upstream findings (PKWare, bomb ratio) kept out of the workload"),
 "C09": ("exploration", "all nine parallel interfaces x thread counts {1,2,3,7,16,32,default} x batch sizes x request shapes (empty, duplicates incl. interleaved, 999..5200 names, missing names at every kind of position, skip-errors on/off) compared slot by slot with a sequential baseline (fresh handle, fresh thread when a used thread disagrees), each configuration repeated under seeded delays and background CPU load; task-event hook yields completion orders and thread assignments (distinct schedules counted, no-diversity reported); ThreadSanitizer slice (thorough); V2-V4 fixtures, num_threads Some(0), read_file_with_new_handle from user threads, two concurrent callers, async range / limit / read_at legs", "per-slot equality with sequential reads; task-event trace hook (schedule diversity measured); ThreadSanitizer", "§6 C09",
         "no control over the OS scheduler: diversity is induced and measured; TSan reports inside crossbeam-epoch reclamation (fences TSan does not model) are suppressed and counted"),
 "C10": ("fault_enumeration", "byte corruption at enumerated offsets of every protected region (file data, sector offset/CRC tables, attributes, V4 header and tables, signature) of archives carrying each kind of integrity metadata (single-unit files well inside / one byte short of / exactly one sector), plus paired corruptions (checksum zeroed + data flipped, attribute forged to match); verifier per kind as the statement names it; sign/verify/bit-flip sweep of the weak-signature functions; NGIS tails, bzip2 / LZMA / sparse / fix-key sectors, checksums without attributes, table codec, metadata written by MutableArchive or the C API", "fault enumeration (every k-th / every offset) with a detection oracle: error or invalid status, or content bit-identical", "§6 C10",
         "a crash while reading a corrupted archive is tallied (C05's clause) but not judged here; multi-sector sector-checksum verification is a known finding (never compared)"),
 "C12": ("fault_enumeration", "every state-changing syscall of build/compact (V1-V4, dest absent/present/symlink/.tmp-named) and of the C API's SFileCreateArchive is killed or failed (ENOSPC, EIO) with strace inject, plus two-fault sequences and RLIMIT_FSIZE short-write sweeps; a separate process judges the destination path afterwards (old | absent | complete new archive); rebuild_archive (other path / same path / verify), builds with attributes / external listfile / none / sources on disk with read faults, compact v2 / v3 / attributes, SFileCreateArchive2, OpenOptions::create", "syscall-level fault injection (strace) + post-mortem file-system oracle", "§6 C12",
         "process death and I/O errors only, not power loss; faults are confirmed to have fired inside the marker window from each run's own trace"),
 "C18": ("exploration", "generated WDT/WDL definitions x versions round trip against a plain model with an independent chunk walker, all version pairs converted, files loaded with the auto-detecting WDL parser saved as the version they report, and the coordinate pair enumerated for all 4096 tiles (corner, centre, range); all 10 WDT and 10 WDL versions, hole accessors, set_version, files behind foreign bytes, setters / accessors", "reference-model monitor + independent chunk walker; exhaustive 64x64 enumeration for the coordinate clause", "§6 C18",
         "reader's version guess is not stored in the file and is compared only through what a save under that label writes; definitions stay within what each version's format carries"),
}
NOT_YET = {}
for i in range(1, 21):
    pid = f"C{i:02d}"
    if pid not in CHECKS:
        NOT_YET[pid] = "check not built"

def main():
    checks = []
    for pid, (cat, text, tech, ref, note) in sorted(CHECKS.items()):
        checks.append({
            "property_id": pid,
            "quick_cmd": f"./check {pid} --tier quick",
            "thorough_cmd": f"./check {pid} --tier thorough",
            "evidence_file": f"evidence/{pid}.json",
            "replay_cmd_template": f"./check {pid} --replay {{path}}",
            "engine": "runtime-monitor",
            "level_claimed": {"category": cat, "text": text, "design_ref": f"DESIGN.md {ref}"},
            "level_note": note,
            "technique": tech,
        })
    m = {
        "version": 1,
        "setup_cmd": "./setup.sh",
        "hooks": {
            "guard": "--cfg warcraft_rs_verif",
            "enable": "RUSTFLAGS='--cfg warcraft_rs_verif' cargo build --release --offline (workers in /verif/harness path-depend on /repo's crates; see lib/sup.py:cargo_env)",
            "baseline_off_cmd": "cd /repo && CARGO_NET_OFFLINE=true cargo test --workspace --no-fail-fast --offline",
            "source_commits": json.load(open(os.path.join(HERE, "tools", "hook_commits.json"))) if os.path.exists(os.path.join(HERE, "tools", "hook_commits.json")) else [],
            "add_only": True,
        },
        "engines": [{"name": "runtime-monitor", "path": "check", "serves_properties": sorted(CHECKS), "kind_free_text": "python supervisor (lib/sup.py) sharding Rust worker binaries (harness/) that run the real code under generated workloads and journal observations; offline checkers and known-finding matching in the supervisor"}],
        "checks": checks,
        "not_applicable": [{"property_id": k, "reason": v} for k, v in sorted(NOT_YET.items())],
        "notes": "Technique family: runtime monitoring and sanitizers. Verdicts are three-valued; KNOWN-FINDING lines refer to known_findings.jsonl. Fix commits in /repo are recorded there as status=fixed.",
    }
    with open(os.path.join(HERE, "MANIFEST.json"), "w") as f:
        json.dump(m, f, indent=1)
        f.write("\n")

if __name__ == "__main__":
    main()
