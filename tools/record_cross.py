#!/usr/bin/env python3
"""tools/record_cross.py <seeded-id> <Cyy> [<Czz> ...]: run other properties' checks against a seeded change (tools/try_mutant.py) and
record what they report in the change's meta.json (confirmation.checks / detected_by)."""
import json, os, subprocess, sys
VERIF = os.path.dirname(os.path.dirname(os.path.abspath(__file__)))
sid, props = sys.argv[1], sys.argv[2:]
d = os.path.join(VERIF, "seeded", sid)
r = subprocess.run(["python3", os.path.join(VERIF, "tools", "try_mutant.py"), os.path.join(d, "patch.diff")] + props, text=True, stdout=subprocess.PIPE, stderr=subprocess.STDOUT)
last = [l for l in r.stdout.splitlines() if l.startswith("{")]
res = json.loads(last[-1])["results"] if last else {}
m = json.load(open(os.path.join(d, "meta.json")))
c = m.setdefault("confirmation", {})
c.setdefault("checks", {}).update(res)
c["detected_by"] = sorted(p for p, v in c["checks"].items() if isinstance(v, dict) and v.get("exit") == 1)
json.dump(m, open(os.path.join(d, "meta.json"), "w"), indent=1)
print(sid, "detected_by", c["detected_by"])
