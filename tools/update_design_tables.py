#!/usr/bin/env python3
"""Regenerates the machine-made tables of DESIGN.md §9 (between <!-- X:BEGIN --> / <!-- X:END --> markers):
FIXES (fix: commits in /repo with the property whose check reported them), KNOWN (known findings by property),
SEEDED (seeded changes and which checks catch them)."""
import json, os, subprocess, collections, io, contextlib, runpy
HERE = os.path.dirname(os.path.dirname(os.path.abspath(__file__)))

def fixes():
    kf = [json.loads(l) for l in open(os.path.join(HERE, "known_findings.jsonl")) if l.strip()]
    by_commit = collections.defaultdict(set)
    for e in kf:
        if e["status"] == "fixed":
            by_commit[e["commit"][:7]].add(e["property"])
    log = subprocess.run(["git", "-C", "/repo", "log", "--reverse", "--format=%h %s"], capture_output=True, text=True).stdout.splitlines()
    out = ["| # | commit | reported by | subject |", "|---|--------|-------------|---------|"]
    n = 0
    for l in log:
        h, subj = l.split(" ", 1)
        if not subj.startswith("fix:"):
            continue
        n += 1
        props = sorted(p for k, v in by_commit.items() if h.startswith(k) or k.startswith(h) for p in v)
        out.append(f"| {n} | `{h}` | {', '.join(props) or '–'} | {subj[4:].strip()} |")
    return "\n".join(out)

def known():
    kf = [json.loads(l) for l in open(os.path.join(HERE, "known_findings.jsonl")) if l.strip()]
    by = collections.defaultdict(list)
    for e in kf:
        if e["status"] == "known":
            by[e["property"]].append(e)
    out = ["| property | signatures | witness files |", "|----------|------------|---------------|"]
    for p in sorted(by):
        wit = sorted(set(e.get("witness", "") for e in by[p]))
        out.append(f"| {p} | {len(by[p])} | {', '.join(w for w in wit if w)} |")
    return "\n".join(out)

def seeded():
    buf = io.StringIO()
    with contextlib.redirect_stdout(buf):
        runpy.run_path(os.path.join(HERE, "tools", "seeded_table.py"), run_name="__main__")
    return buf.getvalue().strip()

NOTES = {
 "C01": "covering arrays (pairwise quick / 3-wise thorough) + random points; extra content classes `break-even` (lengths around the point where 1 + compressed = input) and `litruns` (RLE literal-count boundaries) added after seeded changes C01-m1 / C03-m2; round 4: Unicode-case variants of added non-ASCII names as never-added lookups (after C01-r4m1); rounds 6-7: the order of the builder's attribute / checksum setters is part of every generated configuration (cfggen); a special file the archive carries must be listed (after C01-r7m3)",
 "C02": "reference in Python (lib/refmpq.py); mismatches are re-extracted under named deviation models (full-path key, transformed dword tail) so that known deviations stay diagnosable and everything else stays strict; reference reader checks `compressed_size` == end of last sector (after C02-m1); direction B includes aligned, path-less, incompressible encrypted single-unit files larger than a sector (after C02-m3); quick runs the 144-configuration product once and 300 reference-written archives (since round 4); round 2: direction A archives carry break-even files (after C02-r2m1); the reference writer emits zlib streams with default / StormLib unit-sized window / varied level+window and bzip2 levels (after C02-r2m3); round 4: the reference writer emits sector checksums in the published layout and language ids in hash entries; direction A compares the hash-entry locale/platform fields (after C02-r4m1/m2); rounds 6-7: reference-written archives whose hash table has no free slot (1..16 entries in as many slots; after C02-r7m3) - exposed the unreadable zero-length entry at the archive end repaired in c21d07b",
 "C03": "added: a form that differs from the input must be strictly shorter (after C03-m1); `decompress_secure` is also called with file names ending in .mpq/.zip/.rar/.7z/.txt (after C03-m3); random (length, class) points and break-even inputs; round 2: four 0.7-2 MiB units per selector in every tier (codec block boundaries, after C03-r2m2); 560 repeated legacy `decompress` calls (>1 GiB cumulative) must keep answering identically (after C03-r2m3); stereo probes with loud onsets in left / right / both channels (after C03-r2m1); round 3: `tailz<k>` classes (sparse content ending in a non-zero byte + k zeros: the encoder's final run marker vs the decoder's clamp, after C03-r3m1); round 4: damaged streams are offered to the same selector between valid round trips on one thread (after C03-r4m2)",
 "C04": "the independent reference lives in the Rust harness (harness/vh-mpq/src/lib.rs) rather than Python — same independence, no data hand-over; Jenkins fold direction (upper/lower) accepted either way if consistent (the statement does not fix it; observed: upper); BET hashes are also read back from built V3/V4 archives; thorough additionally interprets the table case and 16 cipher-key cases (lengths 0..17, byte-wrapper tails) under Miri; round 2: byte wrappers are also run on sub-slices at every start alignment 0..7 of a larger buffer, with guard bytes (after C04-r2m3); round 3: hash widths 8..64 incl. non-multiples of 8 (after C04-r3m1); HET table images whose body is encrypted with `ArchiveBuilder::encrypt_data` are read back through `HetTable::read` for every body length mod 4 (the private table-body decryptor, after C04-r3m2); round 4: slice for the non-default `simd` feature — byte-string name hash incl. invalid UTF-8 around the vector thresholds at every alignment, CRC-32; ASan in thorough (after C04-r4m2)",
 "C05": "each batch of mutants runs in a forked child of the worker, so aborts are attributed to the exact mutant; signatures are keyed by in-repo site (not entry point); requests >= 256 MiB are refused by the counting allocator; MPQ seeds from ArchiveBuilder and from lib/refmpq.py (deleted markers, user-data prefix, PATCH_FILE entries); round 2: chunk ops with an unknown magic and sizes that are negative as i32 (after C05-r2m1); one seed per structure format followed by 1 MiB the format does not use, which exposed the WMO portal amplification repaired in c54d8a8 (after C05-r2m3); `Attributes::parse` / `parse_listfile` driven directly on independently encoded payloads (after C05-r2m4); round 4: stage F (thorough) = coverage-guided input generation with libFuzzer+ASan over the same drivers, every kept input and artifact replayed natively under the monitors; drivers call the remaining public readers of every crate (entry points 32 -> 150: embedded skins, enhanced data, lazy/parallel/mmap/discovery DBC paths, validators, writers and converters on parsed mutants, PatchChain / MutableArchive / ParallelArchive / rebuild / compare on every MPQ mutant, header/table readers, slice-level decoders as format `mpq-raw`); short declared tables are never thinned out by the offset cap (after C05-r4m3); rounds 6-7: MPQ seeds with the user-data header's size / pointer at boundary values alone and together (after C05-r7m1)",
 "C06": "read-your-writes is observed, not judged; five history-level trigger predicates carry the known findings; refused additions count towards block-table growth; opens and drops are trapped; round 2: a storm of confirmed hangs ends the run after 8 (sup.run_workers), so a non-terminating lookup (C06-r2m2) is reported in ~35 min instead of hours; round 4: additions that fail after the lookup (a selector the compressor refuses), a name that is a substring of another, archives behind a prefix with several sessions (after C06-r4m1, and two genuine defects of the unchanged tree)",
 "C07": "sources include zero-length, multi-sector, mixed-encryption and break-even files; CLI `mpq rebuild/compare` sampling moved to C20; round 2: every third source carries a `(signature)` entry and `skip_signatures` is varied; a `verify=true` error is re-checked against the same rebuild without verify + the independent comparison (`verify-rejects-faithful-rebuild`, after C07-r2m3); round 3: the bytes given to the builder are the truth for target content (the library's own reading of the source is only the fallback), every fourth source sits behind a 512-aligned prefix (after C07-r3m2); listfile layouts `not-listing-itself` (StormLib) and `encrypted` (after C07-r3m3) — these exposed the verify_rebuild count defect repaired in bd159e8; round 4: sources with a damaged member (counts must stay within what the source can deliver, dry run included), sources extended in place with rooted names (after C07-r4m2/m3)",
 "C08": "PTCH/BSD0 encoder, RLE (4 styles) and bsdiff apply written in Python inside lib/props/c08.py, self-checked against the repo's hand-made test patches; corrupted variants that can abort the process are isolated one per case; round 4: non-ASCII names, loads that fail part-way on all three load paths (membership taken from the chain's own answer), histories over chains with patch entries where archives come and go between reads (after C08-r4m1..m3)",
 "C09": "nshards=4 (each worker runs pools of up to 32 threads + 4 stress threads); interleaved-duplicate request shapes added to expose a racy memo; CLI half not built; round 2: `generations-at-one-path` cases: the archive is rebuilt in place three times between fresh parallel opens on the same pools (after C09-r2m3); round 3: a second user thread calls the same `Arc<ParallelArchive>` (failing or valid requests) while the main thread's valid calls are compared slot by slot (after C09-r3m1); round 4: batch sizes 1<<40 and usize::MAX; a long-lived ParallelArchive across transient faults (archive moved away and back, no file descriptor available) (after C09-r4m2/m3); rounds 6-7: reference answers taken with a fresh handle on a fresh thread when the used thread disagrees, the disagreement is a violation of its own (after C09-r6m1); an archive whose listfile names half of its members (after C09-r7m2)",
 "C10": "paired corruptions (checksum zeroed + data flipped; attribute forged to match) added to the single flips; probes of size-bearing regions and C-API probes run in a forked child under an address-space limit; crashes on corrupted input are tallied for C05, not judged here; round 4: SFileVerifyArchive(ALL_FILES) as a verifier of its own, user files with special-looking names, a zero-length file under attributes, signed archives followed by foreign bytes (after C10-r4m1..m3); rounds 6-7: the single-unit file is also one byte short of / exactly one sector long (after C10-r3m3)",
 "C11": "no Rust worker; names that would leave /verif/scratch if honoured are never generated; grammar extended with leading `.` components and doubled separators (after C11-m3); round 2: names that continue the directory of a benign entry written just before them and then climb out, plus a benign entry that sorts in front of them (after C11-r2m2); round 4: names that a delete-`../`-once sanitiser turns into climbing paths; the containment gate knows the sanitised forms (after C11-r4m2); rounds 6-7: names no archive holds and files already standing where a hostile name would lead (after C11-r7m3 / C11-r3m2); every eighth archive has 1100 ordinary entries (after C11-r3m1), every eighth one an entry over 4 MiB (after C11-r5m3)",
 "C12": "strace `when=` is per syscall name (see §3 M5); fault set extended with copy_file_range/sendfile/fchmod/fallocate; two-fault sequences; both tiers enumerate every k; round 2: the compact scenarios hold two multi-sector members (per-sector seeks during compaction, after C12-r2m3); round 3: `compact-v1/v2-pending` scenarios: a file is added and removed again without flush before compact, so the session is dirty when a failed compact is dropped (after C12-r3m1); round 4: destination as a symbolic link / with a name ending in .tmp, C-API creation scenarios through vh-ffi/c12_ffi (after C12-r4m1..m3)",
 "C13": "risk=<predicate> signatures for cases built to carry one known trigger; anim ids from a tiny id space / rotated index entries (after C13-m2); round 2: tracks may share timestamp / value arrays inside a section (`m2-shared` family, after C13-r2m1); `num_skin_profiles` compared across conversions whenever both versions carry it (after C13-r2m3); round 4: header revisions between the canonical versions (257-259, 261, 263, 265, 271), events with ranges but no time stamps (after C13-r4m2/m3); rounds 6-7: lists longer than the pre-allocation caps (after C13-r3m1); parse -> empty one list -> write -> parse (after C13-r3m2)",
 "C14": "three harness-encoded seed variants provide prototype objects; MCIN size convention accepted either way if consistent; round 2: edit stage parse -> modify sub-chunks -> `from_root_adt` -> serialise -> walk -> parse (after C14-r2m1); MMID/MWID entries must address the start of name i, names include multi-byte UTF-8 (after C14-r2m2); MCLQ height-range classes incl. min == max (after C14-r2m3); round 4: tiles saved with write_to_file to a fresh path and over a longer / shorter file (after C14-r4m1); rounds 6-7: water tables dry on every chunk (after C14-r7m3); MCRD / MCRW reference layout (after C14-r3m3)",
 "C15": "legacy group types are struct literals (no Default, no working parser); every case carried a known finding before the repairs, so the worker journals its own samples; round 2: one list at a time gets 4096 / 4097 / >4097 elements (after C15-r2m2); round 4: conversions through an editor session (load, convert_to_version, save_group) incl. the later file versions, compared with the direct conversion path (after C15-r4m3); rounds 6-7: WmoEditor add / remove histories judged by a tally (after C15-r6m1); shadow-batch bits across same-layout conversions (after C15-r6m2); write_group into streams holding data in front of / behind the writer (after C15-r6m3, C15-r3m3)",
 "C16": "raw1 additionally requires decoded colour == palette[stored index]; round 2: every lower mip level of raw1/raw3 chains is decoded and held to resampling-independent laws (palette membership, representable alpha, alpha within the source range for non-negative filters; after C16-r2m2); round 4: textures that need all 16 mipmap locator entries (32768x1, 1x40000) (after C16-r4m1); rounds 6-7: one rounding rule per image for stored alpha levels (after C16-r6m3)",
 "C17": "seven access paths incl. cached and mmap-lazy; four valid string-block layouts from the independent encoder; round 2: six write histories on one stream (twice, smaller-then-full, positioned inside / at end / past end, parsed-then-rewritten file handle; after C17-r2m3); round 4: every fifth table lives in a file that goes on behind the string block (after C17-r4m2); rounds 6-7: LazyRecordIterator driven through next / nth / skip / take / step_by / size_hint / count programs (after C17-r6m2)",
 "C18": "`range` clause (index <= 63 at the outermost edge) added to corner and centre; round 2: MAID relation axis (exact / partial / all-zero / ids for absent tiles) and two-step conversion chains over all version pairs (after C18-r2m1); round 4: non-ASCII model names, WDL load-edit-save stage (after C18-r4m2/m3); rounds 6-7: files loaded with the auto-detecting WDL parser are saved as the version they report and compared with the file (after C18-r3m1) - exposed the Vanilla label on WMO-era files repaired in 574b801",
 "C19": "30 exported functions; calls that cannot return on a given tree are probed on a helper thread; Miri slice of 16 short histories in thorough; round 4: the single-thread histories also run on a build with overflow checks and debug assertions (after C19-r4m3); rounds 6-7: probes replacing / renaming a file under an open handle (after C19-r6m1), SFileCloseArchive while no write can succeed (RLIMIT_FSIZE around the one call, after C19-r6m2), fixture with names beyond ASCII across the 259-byte find-record limit (after C19-r6m3)",
 "C20": "facts (counts / enumerable sets) from the library object each sub-command prints from are compared with the output; overwrite and unwritable-name slices (after C20-m1/m2); round 2: library-built archives with 1010 / 1026 (thorough: 2049, 5013) entries extracted with and without preserved paths (after C20-r2m1); `blp validate --strict` judged against a model of what strict promises, seeds with exactly one non-power-of-two dimension (after C20-r2m2); round 4: inputs whose base names coincide, loads-but-invalid M2 inputs, `blp convert` at other mipmap levels (after C20-r4m1..m3); rounds 6-7: bracket-pattern and symbolic-link inputs (after C20-r6m1, C20-r5m3); --filter against a glob model with derived filters (after C20-r6m2); list --long rows (after C20-r3m3); global options on failing commands (after C20-r3m1); every report also into /dev/full (after C20-r5m1, C20-r7m3) - exposed the swallowed table-output errors repaired in 9ba507c; validate with 0/1/256/257 unreadable members (after C20-r5m2); explicit names through a patch chain (after C20-r7m2); 5003-entry archive (after C20-r7m1)",
}


def asbuilt():
    import glob
    man = json.load(open(os.path.join(HERE, "MANIFEST.json")))
    out = ["| id | level | last quick run: cases / distinct / wall s / known findings seen | as built vs. §6 |", "|----|-------|------------------------------------------------------------------|------------------|"]
    for c in man["checks"]:
        p = c["property_id"]
        ev = {}
        try:
            ev = json.load(open(os.path.join(HERE, "evidence", f"{p}.json")))
        except Exception:
            pass
        cov = ev.get("coverage", {})
        out.append(f"| {p} | {c['level_claimed']['category']} | {cov.get('evaluations','?')} / {cov.get('distinct_nontrivial','?')} / {ev.get('wall_s','?')} / {len(cov.get('known_findings_seen', []))} ({ev.get('tier','?')}) | {NOTES.get(p,'')} |")
    return "\n".join(out)


def main():
    p = os.path.join(HERE, "DESIGN.md")
    s = open(p).read()
    for key, fn in (("FIXES", fixes), ("KNOWN", known), ("SEEDED", seeded), ("ASBUILT", asbuilt)):
        b, e = f"<!-- {key}:BEGIN -->", f"<!-- {key}:END -->"
        if b in s and e in s:
            i, j = s.index(b) + len(b), s.index(e)
            s = s[:i] + "\n" + fn() + "\n" + s[j:]
    open(p, "w").write(s)

if __name__ == "__main__":
    main()
