#!/usr/bin/env python3
"""Regenerates the machine-made tables of DESIGN.md §9 (between <!-- X:BEGIN --> / <!-- X:END --> markers):
FIXES (fix: commits in /repo with the property whose check reported them), KNOWN (known findings by property),
SEEDED (seeded changes and which checks catch them)."""
import json, os, subprocess, collections, io, contextlib, runpy
HERE = os.path.dirname(os.path.dirname(os.path.abspath(__file__)))

def fixes():
    kf = [json.loads(l) for l in open(os.path.join(HERE, "known_findings.jsonl")) if l.strip()]
    by_commit = collections.defaultdict(set)
    for e in kf:
        if e["status"] == "fixed":
            by_commit[e["commit"][:7]].add(e["property"])
    log = subprocess.run(["git", "-C", "/repo", "log", "--reverse", "--format=%h %s"], capture_output=True, text=True).stdout.splitlines()
    out = ["| # | commit | reported by | subject |", "|---|--------|-------------|---------|"]
    n = 0
    for l in log:
        h, subj = l.split(" ", 1)
        if not subj.startswith("fix:"):
            continue
        n += 1
        props = sorted(p for k, v in by_commit.items() if h.startswith(k) or k.startswith(h) for p in v)
        out.append(f"| {n} | `{h}` | {', '.join(props) or '–'} | {subj[4:].strip()} |")
    return "\n".join(out)

def known():
    kf = [json.loads(l) for l in open(os.path.join(HERE, "known_findings.jsonl")) if l.strip()]
    by = collections.defaultdict(list)
    for e in kf:
        if e["status"] == "known":
            by[e["property"]].append(e)
    out = ["| property | signatures | witness files |", "|----------|------------|---------------|"]
    for p in sorted(by):
        wit = sorted(set(e.get("witness", "") for e in by[p]))
        out.append(f"| {p} | {len(by[p])} | {', '.join(w for w in wit if w)} |")
    return "\n".join(out)

def seeded():
    buf = io.StringIO()
    with contextlib.redirect_stdout(buf):
        runpy.run_path(os.path.join(HERE, "tools", "seeded_table.py"), run_name="__main__")
    return buf.getvalue().strip()

def main():
    p = os.path.join(HERE, "DESIGN.md")
    s = open(p).read()
    for key, fn in (("FIXES", fixes), ("KNOWN", known), ("SEEDED", seeded)):
        b, e = f"<!-- {key}:BEGIN -->", f"<!-- {key}:END -->"
        if b in s and e in s:
            i, j = s.index(b) + len(b), s.index(e)
            s = s[:i] + "\n" + fn() + "\n" + s[j:]
    open(p, "w").write(s)

if __name__ == "__main__":
    main()
