//! Independent reference pieces for the MPQ workers (M6, Rust side).
//! Written from the published format description; shares no code, tables or
//! constants with /repo (the crypt table is regenerated from its seed here).

pub mod cfggen;

use std::sync::OnceLock;

/// The 0x500-entry crypt table, generated from seed 0x00100001.
pub fn ref_crypt_table() -> &'static [u32; 0x500] {
    static T: OnceLock<[u32; 0x500]> = OnceLock::new();
    T.get_or_init(|| {
        let mut t = [0u32; 0x500];
        let mut seed: u32 = 0x0010_0001;
        for index1 in 0..0x100usize {
            let mut index2 = index1;
            for _ in 0..5 {
                seed = (seed.wrapping_mul(125).wrapping_add(3)) % 0x2A_AAAB;
                let temp1 = (seed & 0xFFFF) << 0x10;
                seed = (seed.wrapping_mul(125).wrapping_add(3)) % 0x2A_AAAB;
                let temp2 = seed & 0xFFFF;
                t[index2] = temp1 | temp2;
                index2 += 0x100;
            }
        }
        t
    })
}

/// ASCII-only upper-casing + '/'→'\\' (the reference fold).
#[inline]
pub fn ref_fold_upper(b: u8) -> u8 {
    let b = if b == b'/' { b'\\' } else { b };
    if b.is_ascii_lowercase() { b - 32 } else { b }
}

#[inline]
pub fn ref_fold_lower(b: u8) -> u8 {
    let b = if b == b'/' { b'\\' } else { b };
    if b.is_ascii_uppercase() { b + 32 } else { b }
}

/// Reference MPQ HashString over raw bytes; `hash_type` is 0x000/0x100/0x200/0x300.
pub fn ref_hash(name: &[u8], hash_type: u32) -> u32 {
    let t = ref_crypt_table();
    let mut seed1: u32 = 0x7FED_7FED;
    let mut seed2: u32 = 0xEEEE_EEEE;
    for &raw in name {
        let ch = ref_fold_upper(raw) as u32;
        seed1 = t[(hash_type + ch) as usize] ^ seed1.wrapping_add(seed2);
        seed2 = ch.wrapping_add(seed1).wrapping_add(seed2).wrapping_add(seed2 << 5).wrapping_add(3);
    }
    seed1
}

/// Reference EncryptMpqBlock over whole dwords (key 0 is NOT special in the reference).
pub fn ref_encrypt(data: &mut [u32], mut key: u32) {
    let t = ref_crypt_table();
    let mut seed: u32 = 0xEEEE_EEEE;
    for v in data.iter_mut() {
        seed = seed.wrapping_add(t[0x400 + (key & 0xFF) as usize]);
        let plain = *v;
        *v = plain ^ key.wrapping_add(seed);
        key = ((!key) << 0x15).wrapping_add(0x1111_1111) | (key >> 0x0B);
        seed = plain.wrapping_add(seed).wrapping_add(seed << 5).wrapping_add(3);
    }
}

pub fn ref_decrypt(data: &mut [u32], mut key: u32) {
    let t = ref_crypt_table();
    let mut seed: u32 = 0xEEEE_EEEE;
    for v in data.iter_mut() {
        seed = seed.wrapping_add(t[0x400 + (key & 0xFF) as usize]);
        let plain = *v ^ key.wrapping_add(seed);
        *v = plain;
        key = ((!key) << 0x15).wrapping_add(0x1111_1111) | (key >> 0x0B);
        seed = plain.wrapping_add(seed).wrapping_add(seed << 5).wrapping_add(3);
    }
}

#[inline]
fn rot(x: u32, k: u32) -> u32 {
    x.rotate_left(k)
}

/// Bob Jenkins' lookup3 `hashlittle2`, transcribed from the public-domain lookup3.c
/// (byte-wise path). Returns (c, b) i.e. (*pc, *pb) after the call.
pub fn ref_hashlittle2(key: &[u8], pc: u32, pb: u32) -> (u32, u32) {
    let mut a: u32 = 0xdead_beefu32.wrapping_add(key.len() as u32).wrapping_add(pc);
    let mut b: u32 = a;
    let mut c: u32 = a.wrapping_add(pb);
    let mut k = key;
    let rd = |k: &[u8], i: usize| -> u32 { (k[i] as u32) | ((k[i + 1] as u32) << 8) | ((k[i + 2] as u32) << 16) | ((k[i + 3] as u32) << 24) };
    while k.len() > 12 {
        a = a.wrapping_add(rd(k, 0));
        b = b.wrapping_add(rd(k, 4));
        c = c.wrapping_add(rd(k, 8));
        // mix
        a = a.wrapping_sub(c); a ^= rot(c, 4); c = c.wrapping_add(b);
        b = b.wrapping_sub(a); b ^= rot(a, 6); a = a.wrapping_add(c);
        c = c.wrapping_sub(b); c ^= rot(b, 8); b = b.wrapping_add(a);
        a = a.wrapping_sub(c); a ^= rot(c, 16); c = c.wrapping_add(b);
        b = b.wrapping_sub(a); b ^= rot(a, 19); a = a.wrapping_add(c);
        c = c.wrapping_sub(b); c ^= rot(b, 4); b = b.wrapping_add(a);
        k = &k[12..];
    }
    let n = k.len();
    if n == 0 {
        return (c, b);
    }
    // fall-through switch of lookup3.c: case n adds byte n-1 and everything below
    for i in (0..n).rev() {
        let v = (k[i] as u32) << (8 * (i % 4));
        match i / 4 {
            0 => a = a.wrapping_add(v),
            1 => b = b.wrapping_add(v),
            _ => c = c.wrapping_add(v),
        }
    }
    // final
    c ^= b; c = c.wrapping_sub(rot(b, 14));
    a ^= c; a = a.wrapping_sub(rot(c, 11));
    b ^= a; b = b.wrapping_sub(rot(a, 25));
    c ^= b; c = c.wrapping_sub(rot(b, 16));
    a ^= c; a = a.wrapping_sub(rot(c, 4));
    b ^= a; b = b.wrapping_sub(rot(a, 14));
    c ^= b; c = c.wrapping_sub(rot(b, 24));
    (c, b)
}

/// 64-bit Jenkins file-name hash as used by HET/BET: hashlittle2 with pc=2 (secondary), pb=1 (primary),
/// result = primary<<32 | secondary.
pub fn ref_jenkins64(folded: &[u8]) -> u64 {
    let (c, b) = ref_hashlittle2(folded, 2, 1);
    ((b as u64) << 32) | (c as u64)
}
