//! C05 (format definitions; included with #[path] by bin/c05_mpq.rs and by the fuzz target) — parsers are total: MPQ archives and PTCH patch files (DESIGN.md §6 C05).
//!
//! Seeds: archives written by `ArchiveBuilder` over V1–V4 x {plain, encrypted(+fix-key), sectored multi-sector file,
//! sector CRC, attributes, compressed tables, several codecs}, and hand-assembled PTCH files (COPY, BSD0).
//! The archive *bytes* are mutated (engine: vh-formats/src/c05_common.rs), written to a file under the run's
//! scratch directory and driven through  Archive::open -> list -> read_file / find_file of every listed, known and
//! generic name -> load_attributes -> get_info -> verify_signature;  PatchFile::parse -> apply_patch.
//!
//! MORE SEED ARCHIVES: see `external_seed_archives` below (`--seeds-dir <dir>`), and `builder_seed_archives`.
//!
//! Field mutations inside the (encrypted) classic hash/block tables and uncompressed HET/BET payloads are applied to
//! the *plaintext* and re-encrypted (CryptRegion), so a hostile field reaches the table parser as intended instead of
//! being smeared over the whole table by the cipher.

#![allow(dead_code)]

use crate::c05_common::*;
use md5::{Digest, Md5};
use vh_mpq::cfggen::{Cfg, FileSpec, add_files};
use wow_mpq::patch::{PatchFile, apply_patch};
use wow_mpq::{Archive, hash_string};


// ------------------------------------------------------------ MPQ seeds ----

/// Names present in every builder-written seed (so that `drive` can ask for them even when the listfile of a
/// mutant is gone), plus special and generic names.
const KNOWN_NAMES: &[&str] = &[
    "empty.bin", "tiny.txt", "Data\\small.dat", "Data\\sector+1.bin", "World\\Maps\\multi.bin", "text\\readme.txt",
    "(listfile)", "(attributes)", "(signature)", "(user data)", "file_00000000.dat", "file_00000001.dat", "File00000002.xxx", "never\\added.bin", "",
];

fn fileset(sector: usize) -> Vec<FileSpec> {
    let mut rng = vh_common::Rng::new(0xC05);
    let mk = |name: &str, class: &'static str, len: usize, rng: &mut vh_common::Rng| FileSpec { name: name.to_string(), class, data: vh_common::gen_content(rng, class, len) };
    vec![
        mk("empty.bin", "zero", 0, &mut rng),
        mk("tiny.txt", "text", 5, &mut rng),
        mk("Data\\small.dat", "half", 300, &mut rng),
        mk("Data\\sector+1.bin", "period3", sector + 1, &mut rng),
        mk("World\\Maps\\multi.bin", "text", 3 * sector + 7, &mut rng),
        mk("text\\readme.txt", "sparse", 2 * sector, &mut rng),
    ]
}

fn c(version: u8, shift: u16, method: u8, enc: u8, crc: bool, attr: u8, listfile: bool, tblcomp: bool) -> Cfg {
    Cfg { version, shift, method, enc, crc, attr, listfile, tblcomp }
}

/// (label, configuration). Add configurations here to widen the builder-written corpus.
fn builder_configs() -> Vec<(&'static str, Cfg)> {
    vec![
        ("v1-plain-zlib", c(1, 0, 0x02, 0, false, 0, true, false)),
        ("v1-plain-none-sectored", c(1, 0, 0x00, 0, false, 0, true, false)),
        ("v1-encrypted-fixkey-zlib", c(1, 0, 0x02, 2, false, 0, true, false)),
        ("v1-sector-crc-zlib", c(1, 1, 0x02, 0, true, 0, true, false)),
        ("v1-no-listfile-bzip2", c(1, 0, 0x10, 0, false, 0, false, false)),
        ("v1-pkware", c(1, 0, 0x08, 0, false, 0, true, false)),
        ("v2-attributes-full-zlib", c(2, 0, 0x02, 0, false, 2, true, false)),
        ("v2-encrypted-bzip2", c(2, 1, 0x10, 1, false, 0, true, false)),
        ("v2-sparse", c(2, 0, 0x20, 0, false, 0, true, false)),
        ("v3-plain-zlib", c(3, 0, 0x02, 0, false, 0, true, false)),
        ("v3-compressed-tables-crc", c(3, 0, 0x02, 0, true, 1, true, true)),
        ("v3-encrypted-lzma", c(3, 0, 0x12, 1, false, 0, true, false)),
        ("v4-plain-zlib", c(4, 0, 0x02, 0, false, 0, true, false)),
        ("v4-compressed-tables-attr-crc", c(4, 0, 0x02, 0, true, 2, true, true)),
        ("v4-encrypted-fixkey-none", c(4, 0, 0x00, 2, false, 0, true, false)),
    ]
}

/// Archives written by the library's own builder.
fn builder_seed_archives(ctx: &SeedCtx) -> Vec<(String, Vec<u8>)> {
    let mut out = Vec::new();
    for (label, cfg) in builder_configs() {
        let files = fileset(cfg.sector_size());
        let path = ctx.scratch.join(format!("c05-seed-{label}.mpq"));
        let _ = std::fs::remove_file(&path);
        let b = add_files(cfg.builder(), &cfg, &files);
        match b.build(&path) {
            Ok(()) => {
                if let Ok(bytes) = std::fs::read(&path) {
                    out.push((format!("mpq/{label}"), bytes));
                }
            }
            Err(e) => eprintln!("c05_mpq: builder refused configuration {label}: {e}"),
        }
        let _ = std::fs::remove_file(&path);
    }
    out
}

/// HOOK FOR ADDITIONAL SEED ARCHIVES.
/// Everything returned here is treated exactly like a builder-written seed: the table/header regions are located by
/// the independent walker in `mpq_seed`, and the archive goes through all four mutation classes.
/// Default implementation: every regular file in the directory given by `--seeds-dir <dir>` (sorted by name; files
/// larger than 4 MiB are skipped). An external generator (e.g. an independent MPQ writer that can emit deleted-entry
/// markers, user-data headers, PATCH_FILE entries) only has to drop its archives into that directory, or return them
/// from here directly.
fn external_seed_archives(ctx: &SeedCtx) -> Vec<(String, Vec<u8>)> {
    let mut out = Vec::new();
    let Some(dir) = &ctx.seeds_dir else { return out };
    let Ok(rd) = std::fs::read_dir(dir) else { return out };
    let mut paths: Vec<_> = rd.filter_map(|e| e.ok()).map(|e| e.path()).filter(|p| p.is_file()).collect();
    paths.sort();
    for p in paths {
        if let Ok(bytes) = std::fs::read(&p) {
            if !bytes.is_empty() && bytes.len() <= MAX_INPUT {
                let name = p.file_name().map(|s| s.to_string_lossy().into_owned()).unwrap_or_default();
                out.push((format!("mpq/ext-{name}"), bytes));
            }
        }
    }
    out
}

fn rd32(d: &[u8], o: usize) -> u32 {
    if o + 4 <= d.len() { u32::from_le_bytes([d[o], d[o + 1], d[o + 2], d[o + 3]]) } else { 0 }
}
fn rd16(d: &[u8], o: usize) -> u16 {
    if o + 2 <= d.len() { u16::from_le_bytes([d[o], d[o + 1]]) } else { 0 }
}
fn rd64(d: &[u8], o: usize) -> u64 {
    (rd32(d, o) as u64) | ((rd32(d, o + 4) as u64) << 32)
}

/// Independent header/table locator (written from the format description, not from the crate's structs).
fn mpq_seed(label: String, bytes: Vec<u8>) -> Seed {
    let d = &bytes;
    let len = d.len();
    let mut regions: Vec<(usize, usize)> = Vec::new();
    let mut wide: Vec<usize> = Vec::new();
    let mut crypt: Vec<CryptRegion> = Vec::new();
    // header search on 512-byte boundaries; optional user-data header 'MPQ\x1B'
    let mut base = None;
    let mut p = 0usize;
    while p + 32 <= len {
        match &d[p..p + 4] {
            b"MPQ\x1A" => {
                base = Some(p);
                break;
            }
            b"MPQ\x1B" => {
                regions.push((p, 16));
                let off = rd32(d, p + 8) as usize;
                if p + off + 32 <= len && &d[p + off..p + off + 4] == b"MPQ\x1A" {
                    base = Some(p + off);
                    break;
                }
            }
            _ => {}
        }
        p += 512;
    }
    let Some(b) = base else {
        return Seed::new(label, bytes.clone(), Layout::Fixed { regions: vec![(0, len.min(256))] });
    };
    let hsize = (rd32(d, b + 4) as usize).clamp(32, 208);
    regions.push((b, hsize.min(len - b)));
    let ver = rd16(d, b + 12);
    let mut hash_pos = rd32(d, b + 16) as u64;
    let mut block_pos = rd32(d, b + 20) as u64;
    let hash_n = rd32(d, b + 24) as usize;
    let block_n = rd32(d, b + 28) as usize;
    let mut hi_pos = 0u64;
    let (mut het_pos, mut bet_pos) = (0u64, 0u64);
    let mut sizes64 = [0u64; 5];
    if ver >= 1 && hsize >= 44 {
        wide.push(b + 32);
        hi_pos = rd64(d, b + 32);
        hash_pos |= (rd16(d, b + 40) as u64) << 32;
        block_pos |= (rd16(d, b + 42) as u64) << 32;
    }
    if ver >= 2 && hsize >= 68 {
        wide.extend([b + 44, b + 52, b + 60]);
        bet_pos = rd64(d, b + 52);
        het_pos = rd64(d, b + 60);
    }
    if ver >= 3 && hsize >= 108 {
        for i in 0..5 {
            wide.push(b + 68 + 8 * i);
            sizes64[i] = rd64(d, b + 68 + 8 * i);
        }
    }
    let key_hash = hash_string("(hash table)", 0x300);
    let key_block = hash_string("(block table)", 0x300);
    let in_file = |pos: u64, n: usize| -> Option<usize> {
        let s = b as u64 + pos;
        if pos != 0 && s + n as u64 <= len as u64 { Some(s as usize) } else { None }
    };
    // classic tables (uncompressed unless V4 says otherwise)
    let hash_plain = sizes64[0] == 0 || sizes64[0] == (hash_n as u64) * 16;
    let block_plain = sizes64[1] == 0 || sizes64[1] == (block_n as u64) * 16;
    let mut block_words: Vec<u32> = Vec::new();
    if let Some(s) = in_file(hash_pos, hash_n * 16) {
        regions.push((s, (hash_n * 16).min(384)));
        if hash_plain {
            crypt.push(CryptRegion { start: s, len: hash_n * 16, key: key_hash });
        }
    } else if let Some(s) = in_file(hash_pos, 16) {
        regions.push((s, (len - s).min(128)));
    }
    if let Some(s) = in_file(block_pos, block_n * 16) {
        regions.push((s, (block_n * 16).min(384)));
        if block_plain {
            crypt.push(CryptRegion { start: s, len: block_n * 16, key: key_block });
            block_words = (0..block_n * 4).map(|i| rd32(d, s + 4 * i)).collect();
            wow_mpq::crypto::decrypt_block(&mut block_words, key_block);
        }
    } else if let Some(s) = in_file(block_pos, 16) {
        regions.push((s, (len - s).min(128)));
    }
    if let Some(s) = in_file(hi_pos, 2) {
        regions.push((s, (block_n * 2).min(64).min(len - s)));
    }
    // HET / BET: 12-byte extended header (plain) + payload (encrypted; possibly compressed)
    for (pos, key) in [(het_pos, key_hash), (bet_pos, key_block)] {
        if let Some(s) = in_file(pos, 12) {
            let data_size = rd32(d, s + 8) as usize;
            let total = if pos == het_pos { sizes64[3] } else { sizes64[4] } as usize;
            let stored = if total != 0 { total } else { data_size + 12 };
            regions.push((s, stored.min(160).min(len - s)));
            if stored == data_size + 12 && s + stored <= len && data_size >= 4 {
                crypt.push(CryptRegion { start: s + 12, len: data_size & !3, key });
            }
        }
    }
    // the start of every stored file: sector offset table / compression byte / first sector
    for e in block_words.chunks(4).take(10) {
        if e.len() == 4 && e[1] > 0 {
            if let Some(s) = in_file(e[0] as u64, 1) {
                regions.push((s, (e[1] as usize).min(40).min(len - s)));
            }
        }
    }
    let mut s = Seed::new(label, bytes.clone(), Layout::Fixed { regions });
    s.wide_fields = wide;
    s.crypt = crypt;
    s
}

/// The builder stores the HET position in the header's BET slot and vice versa (see C04's finding), and the reader
/// then skips the BET table ("BET offset points to HET table"), so BetTable::read is never reached from builder
/// output. These seeds are builder archives whose two header slots (and, for V4, the two size slots) are exchanged
/// by hand so that both tables load; they are only used if `Archive::open` then reports both tables present.
fn unswapped_hetbet_archives(ctx: &SeedCtx, built: &[(String, Vec<u8>)]) -> Vec<(String, Vec<u8>)> {
    let mut out = Vec::new();
    for (label, bytes) in built {
        if !(label == "mpq/v3-plain-zlib" || label == "mpq/v4-plain-zlib") || bytes.len() < 208 {
            continue;
        }
        // try "positions and V4 sizes exchanged" first, then "positions only"
        for swap_sizes in [true, false] {
            let mut b = bytes.clone();
            let (bet, het) = (rd64(&b, 52), rd64(&b, 60));
            b[52..60].copy_from_slice(&het.to_le_bytes());
            b[60..68].copy_from_slice(&bet.to_le_bytes());
            if swap_sizes && rd16(&b, 12) >= 3 {
                let (hs, bs) = (rd64(&b, 92), rd64(&b, 100));
                b[92..100].copy_from_slice(&bs.to_le_bytes());
                b[100..108].copy_from_slice(&hs.to_le_bytes());
            }
            let path = ctx.scratch.join("c05-seed-unswap.mpq");
            let mut ok = false;
            if std::fs::write(&path, &b).is_ok() {
                if let Ok(ar) = Archive::open(&path) {
                    ok = ar.het_table().is_some() && ar.bet_table().is_some();
                }
            }
            let _ = std::fs::remove_file(&path);
            if ok {
                out.push((format!("{label}-hetbet-unswapped"), b));
                break;
            }
        }
    }
    out
}

/// An archive longer than one 64 KiB digest unit whose 72-byte `(signature)` file lies across the unit boundary (the weak
/// signature digest leaves that area out unit by unit).
fn signed_straddling_archive(ctx: &SeedCtx) -> Vec<(String, Vec<u8>)> {
    let path = ctx.scratch.join("c05-seed-signed.mpq");
    let mut filler = 65_000usize;
    let mut out = Vec::new();
    for _ in 0..4 {
        let _ = std::fs::remove_file(&path);
        let data: Vec<u8> = (0..filler).map(|i| (i.wrapping_mul(2654435761) >> 7) as u8).collect();
        let b = wow_mpq::ArchiveBuilder::new()
            .version(wow_mpq::FormatVersion::V1)
            .block_size(3)
            .add_file_data_with_options(data, "filler.bin", 0, false, 0)
            .add_file_data_with_options(vec![0x5A; 72], "(signature)", 0, false, 0)
            .add_file_data_with_options(b"tail of the archive\r\n".repeat(40), "tail.txt", 0x02, false, 0);
        if b.build(&path).is_err() {
            break;
        }
        let Ok(a) = Archive::open(&path) else { break };
        let Ok(Some(fi)) = a.find_file("(signature)") else { break };
        let want = 65_536i64 - 30;
        let pos = fi.file_pos as i64;
        drop(a);
        if pos == want {
            if let Ok(bytes) = std::fs::read(&path) {
                out.push(("mpq/v1-signed-across-digest-unit".to_string(), bytes));
            }
            break;
        }
        filler = (filler as i64 + (want - pos)).max(1) as usize;
    }
    let _ = std::fs::remove_file(&path);
    out
}

fn mpq_seeds(ctx: &SeedCtx) -> Vec<Seed> {
    let mut all = builder_seed_archives(ctx);
    all.extend(signed_straddling_archive(ctx));
    let extra = unswapped_hetbet_archives(ctx, &all);
    all.extend(extra);
    all.extend(external_seed_archives(ctx));
    all.into_iter().map(|(l, b)| mpq_seed(l, b)).collect()
}

fn mpq_drive(_s: &Seed, data: &[u8], p: &mut Probe) {
    let path = p.scratch.join("c05-mutant.mpq");
    if std::fs::write(&path, data).is_err() {
        return;
    }
    let ar = p.call("Archive::open", || Archive::open(&path));
    let Some(mut ar) = ar else { return };
    let listed = p.call("Archive::list", || ar.list());
    let mut names: Vec<String> = Vec::new();
    let listed_ok = listed.is_some();
    if let Some(l) = listed {
        for e in l.iter().take(24) {
            names.push(e.name.clone());
        }
    }
    for k in KNOWN_NAMES {
        if !names.iter().any(|n| n == k) {
            names.push(k.to_string());
        }
    }
    let mut real_ok = listed_ok;
    for (i, n) in names.iter().enumerate() {
        let f = p.call("Archive::find_file", || ar.find_file(n));
        let r = p.call("Archive::read_file", || ar.read_file(n));
        if KNOWN_NAMES[..6].contains(&n.as_str()) && (f.is_none() || r.is_none()) {
            real_ok = false;
        }
        let _ = i;
    }
    p.seed_valid = Some(real_ok);
    p.call("Archive::load_attributes", || ar.load_attributes());
    p.call("Archive::get_info", || ar.get_info());
    p.call("Archive::verify_signature", || ar.verify_signature());
    // ---- the other listing and reading entry points of the same handle
    p.call("Archive::list_all", || ar.list_all());
    p.call("Archive::list_with_hashes", || ar.list_with_hashes());
    p.call("Archive::list_all_with_hashes", || ar.list_all_with_hashes());
    let slots: Vec<(usize, usize)> = ar.hash_table().map(|h| h.entries().iter().enumerate().filter(|(_, e)| e.block_index < 0xFFFF_FFFE).map(|(i, e)| (i, e.block_index as usize)).take(12).collect()).unwrap_or_default();
    for (hi, bi) in slots.iter().copied().chain([(0usize, 0usize), (usize::MAX, usize::MAX), (1, 1 << 20)]) {
        p.call("Archive::read_file_by_indices", || ar.read_file_by_indices(hi, Some(bi)));
    }
    for hi in [0usize, 1, 5, 1 << 20] {
        p.call("Archive::read_file_by_indices", || ar.read_file_by_indices(hi, None));
    }
    p.call_plain("Archive::get_file_attributes", || std::hint::black_box((ar.get_file_attributes(0).is_some(), ar.get_file_attributes(usize::MAX).is_some())));
    drop(ar);
    // ---- deferred table loading
    if let Some(mut lazy) = p.call("Archive::open_with_options", || Archive::open_with_options(&path, wow_mpq::OpenOptions::new().load_tables(false))) {
        if p.call("Archive::load_tables", || lazy.load_tables()).is_some() {
            p.call("Archive::list", || lazy.list());
        }
    }
    let first: Vec<&str> = names.iter().map(|s| s.as_str()).take(6).collect();
    // ---- the other objects that open the same file
    if let Some(mut m) = p.call("MutableArchive::open", || wow_mpq::MutableArchive::open(&path)) {
        p.call("MutableArchive::list", || m.list());
        for n in &first {
            p.call("MutableArchive::read_file", || m.read_file(n));
        }
        // nothing was modified: dropping the handle must not write
        std::mem::drop(m);
    }
    let mut chain = wow_mpq::PatchChain::new();
    if p.call("PatchChain::add_archive", || chain.add_archive(&path, 0)).is_some() {
        p.call("PatchChain::list", || chain.list());
        for n in &first {
            p.call("PatchChain::read_file", || chain.read_file(n));
        }
        p.call_plain("PatchChain::get_chain_info", || chain.get_chain_info().len());
    }
    if let Some(pa) = p.call("ParallelArchive::open", || wow_mpq::single_archive_parallel::ParallelArchive::open(&path)) {
        p.call("ParallelArchive::extract_files_parallel", || pa.extract_files_parallel(&first));
        p.call("ParallelArchive::extract_files_batched", || pa.extract_files_batched(&first, 2));
    }
    let mut lo = wow_mpq::RebuildOptions::default();
    lo.list_only = true;
    p.call("rebuild_archive(list_only)", || wow_mpq::rebuild_archive(&path, &p_dst(&path), lo, None));
    p.call("compare_archives", || wow_mpq::compare::compare_archives(&path, &path, true, true, false, false, None));
    // ---- the readers below the archive object, over the same bytes
    p.call("MpqHeader::read", || wow_mpq::MpqHeader::read(&mut std::io::Cursor::new(data)));
    if let Some((off, _, h)) = p.call("find_header", || wow_mpq::header::find_header(&mut std::io::Cursor::new(data))) {
        let (hp, bp) = (off + h.get_hash_table_pos(), off + h.get_block_table_pos());
        p.call("HashTable::read", || wow_mpq::HashTable::read(&mut std::io::Cursor::new(data), hp, h.hash_table_size));
        p.call("BlockTable::read", || wow_mpq::BlockTable::read(&mut std::io::Cursor::new(data), bp, h.block_table_size));
        let tail = |at: u64| -> &[u8] { data.get(at as usize..).unwrap_or(&[]) };
        p.call("HashTable::from_bytes", || wow_mpq::HashTable::from_bytes(tail(hp), h.hash_table_size));
        p.call("BlockTable::from_bytes", || wow_mpq::BlockTable::from_bytes(tail(bp), h.block_table_size));
    }
}

fn p_dst(src: &std::path::Path) -> std::path::PathBuf {
    src.with_extension("rebuilt.mpq")
}

// ------------------------------------------------- slice-level decoders ----

/// Seeds: what the library's own compressors emit for a few contents (method byte stripped), signature files, RLE streams.
fn raw_seeds(_ctx: &SeedCtx) -> Vec<Seed> {
    let mut rng = vh_common::Rng::new(0xC05_0005);
    let mut out = Vec::new();
    let text = vh_common::gen_content(&mut rng, "text", 3000);
    let sparse = vh_common::gen_content(&mut rng, "sparse", 3000);
    for (k, (label, m, src)) in [("zlib", 0x02u8, &text), ("bzip2", 0x10, &text), ("lzma", 0x12, &text), ("sparse", 0x20, &sparse), ("sparse+zlib", 0x22, &sparse), ("adpcm-mono", 0x40, &text), ("adpcm-stereo+huffman", 0x81, &text)].into_iter().enumerate() {
        if let Ok(c) = wow_mpq::compress(src, m) {
            if c.len() < src.len() && c.first() == Some(&m) {
                // aux = index into RAW_METHODS (the selector the stream was made for)
                out.push(Seed::fixed(format!("raw/{label}"), c[1..].to_vec(), 16).with_aux(k));
            }
        }
    }
    // an RLE stream as patch files carry it (4-byte size header + runs)
    let mut rle = 3000u32.to_le_bytes().to_vec();
    for i in 0..40u8 {
        rle.push(0x80 | 20);
        rle.extend((0..21).map(|j| i.wrapping_mul(3).wrapping_add(j)));
        rle.push(50);
    }
    out.push(Seed::fixed("raw/rle", rle, 8).with_aux(7));
    out.push(Seed::fixed("raw/weak-signature-file", (0..72u32).map(|i| (i * 5) as u8).collect(), 8).with_aux(7));
    out.push(Seed::fixed("raw/strong-signature", b"NGIS".iter().copied().chain((0..256u32).map(|i| (i * 3) as u8)).collect(), 8).with_aux(7));
    out
}

const RAW_METHODS: [u8; 8] = [0x02, 0x10, 0x12, 0x20, 0x22, 0x40, 0x81, 0x08];

fn raw_drive(s: &Seed, data: &[u8], p: &mut Probe) {
    let own = RAW_METHODS[s.aux % RAW_METHODS.len()];
    // the selector the stream was made for (with the true size and with sizes a hostile block table could announce), then every other selector
    for size in [3000usize, 0, 1, 64 << 10, 2 << 20] {
        p.call("compression::decompress", || wow_mpq::decompress(data, own, size));
    }
    for m in [0x02u8, 0x10, 0x12, 0x20, 0x08, 0x01, 0x40, 0x80, 0x41, 0x81, 0x22, 0x30, 0x0A, 0xFF, 0x00] {
        p.call("compression::decompress", || wow_mpq::decompress(data, m, 3000));
    }
    let st = wow_mpq::SessionTracker::new();
    p.call("compression::decompress_secure", || wow_mpq::compression::decompress_secure(data, own, 3000, Some("a\\b.mpq"), &st, &wow_mpq::SecurityLimits::default()));
    for (size, skip) in [(3000usize, true), (3000, false), (0, true), (1 << 20, true)] {
        p.call("rle::decompress", || wow_mpq::compression::rle::decompress(data, size, skip));
    }
    p.call("parse_weak_signature", || wow_mpq::crypto::parse_weak_signature(data));
    p.call("parse_strong_signature", || wow_mpq::crypto::parse_strong_signature(data));
    p.seed_valid = Some(true);
}

// ----------------------------------------------------------- PTCH seeds ----

fn md5(data: &[u8]) -> [u8; 16] {
    let mut h = Md5::new();
    h.update(data);
    h.finalize().into()
}

fn ptch_base() -> Vec<u8> {
    (0..300u32).map(|i| ((i * 7 + i / 13) % 251) as u8).collect()
}

fn ptch_file(patch_data_size: u32, before: &[u8], after: &[u8], kind: &[u8; 4], payload: &[u8]) -> Vec<u8> {
    let mut d = Vec::new();
    d.extend_from_slice(b"PTCH");
    d.extend_from_slice(&patch_data_size.to_le_bytes());
    d.extend_from_slice(&(before.len() as u32).to_le_bytes());
    d.extend_from_slice(&(after.len() as u32).to_le_bytes());
    d.extend_from_slice(b"MD5_");
    d.extend_from_slice(&40u32.to_le_bytes());
    d.extend_from_slice(&md5(before));
    d.extend_from_slice(&md5(after));
    d.extend_from_slice(b"XFRM");
    d.extend_from_slice(&(12 + payload.len() as u32).to_le_bytes());
    d.extend_from_slice(kind);
    d.extend_from_slice(payload);
    d
}

/// RLE as read by compression/algorithms/rle.rs: 0x80|(n-1) + n literals, or (n-1) = n zero bytes; 4-byte size prefix.
/// Returns the stream and, for every plain offset, the offset of its byte in the stream (None inside a zero run).
fn rle(plain: &[u8]) -> (Vec<u8>, Vec<Option<usize>>) {
    let mut out: Vec<u8> = (plain.len() as u32).to_le_bytes().to_vec();
    let mut map = vec![None; plain.len()];
    let mut i = 0;
    while i < plain.len() {
        let zr = plain[i..].iter().take(128).take_while(|b| **b == 0).count();
        if zr >= 4 {
            out.push((zr - 1) as u8);
            i += zr;
        } else {
            let mut n = 0;
            while i + n < plain.len() && n < 128 {
                // stop the literal run in front of a long zero run
                if plain[i + n] == 0 && plain[i + n..].iter().take(4).take_while(|b| **b == 0).count() >= 4 {
                    break;
                }
                n += 1;
            }
            let n = n.max(1);
            out.push(0x80 | (n - 1) as u8);
            for k in 0..n {
                map[i + k] = Some(out.len());
                out.push(plain[i + k]);
            }
            i += n;
        }
    }
    (out, map)
}

/// bsdiff40 image for `old -> new` from explicit control triples (add, mov, seek).
fn bsdiff(old: &[u8], new: &[u8], ctrl: &[(u32, u32, i32)]) -> Vec<u8> {
    let mut data = Vec::new();
    let mut extra = Vec::new();
    let (mut np, mut op) = (0usize, 0i64);
    for &(add, mov, seek) in ctrl {
        for j in 0..add as usize {
            let o = op + j as i64;
            let ob = if o >= 0 && (o as usize) < old.len() { old[o as usize] } else { 0 };
            data.push(new[np + j].wrapping_sub(ob));
        }
        np += add as usize;
        op += add as i64;
        extra.extend_from_slice(&new[np..np + mov as usize]);
        np += mov as usize;
        op += seek as i64;
    }
    let mut c = Vec::new();
    for &(add, mov, seek) in ctrl {
        c.extend_from_slice(&add.to_le_bytes());
        c.extend_from_slice(&mov.to_le_bytes());
        let raw = if seek < 0 { 0x8000_0000u32.wrapping_add((-seek) as u32) } else { seek as u32 };
        c.extend_from_slice(&raw.to_le_bytes());
    }
    let mut out = Vec::new();
    out.extend_from_slice(b"BSDIFF40");
    out.extend_from_slice(&(c.len() as u64).to_le_bytes());
    out.extend_from_slice(&(data.len() as u64).to_le_bytes());
    out.extend_from_slice(&(new.len() as u64).to_le_bytes());
    out.extend(c);
    out.extend(data);
    out.extend(extra);
    out
}

fn ptch_seeds(_ctx: &SeedCtx) -> Vec<Seed> {
    let base = ptch_base();
    let mut out = Vec::new();
    // COPY: payload is the complete new file
    let new_copy: Vec<u8> = (0..333u32).map(|i| (i * 3 % 256) as u8).collect();
    out.push(Seed::fixed("ptch/copy", ptch_file(new_copy.len() as u32, &base, &new_copy, b"COPY", &new_copy), 64));
    out.push(Seed::fixed("ptch/copy-empty-target", ptch_file(0, &base, &[], b"COPY", &[]), 64));
    // BSD0: two shapes of control program (the backward seek returns exactly to offset 0: the crate's decoding of negative
    // seeks saturates at 0, which is C08's business, not C05's — this keeps the seed valid under either reading)
    for (label, ctrl) in [("bsd0-forward", vec![(200u32, 20u32, 10i32), (80, 20, 0)]), ("bsd0-backward-seek", vec![(100, 0, -100), (150, 30, 5), (40, 0, 0)])] {
        let total: usize = ctrl.iter().map(|c| (c.0 + c.1) as usize).sum();
        // new file: old content shifted/perturbed so that diff bytes contain long zero runs (exercises RLE skip)
        let new: Vec<u8> = (0..total).map(|i| if i % 50 < 35 { base[i % base.len()] } else { (i * 11 % 256) as u8 }).collect();
        let img = bsdiff(&base, &new, &ctrl);
        let (stream, map) = rle(&img);
        let file = ptch_file(img.len() as u32, &base, &new, b"BSD0", &stream);
        let mut s = Seed::new(format!("ptch/{label}"), file, Layout::Fixed { regions: vec![(0, 64), (64, 48)] });
        // the bsdiff header words and the control triples sit inside RLE literal runs at unaligned file offsets
        let mut fields = vec![64usize];
        for plain_off in (8..32 + 12 * ctrl.len()).step_by(4) {
            if let Some(Some(o)) = map.get(plain_off) {
                fields.push(64 + *o);
            }
        }
        s.u32_fields = fields;
        out.push(s);
    }
    out
}

fn ptch_drive(_s: &Seed, data: &[u8], p: &mut Probe) {
    let pf = p.call("PatchFile::parse", || PatchFile::parse(data));
    if let Some(pf) = pf {
        let base = ptch_base();
        p.call("apply_patch", || apply_patch(&pf, &base));
    }
}

// ---------------------------------------------------------- (attributes) / (listfile) payloads ----

/// The special files' own parsers are public entry points; inside an archive their payload is usually compressed, so
/// mutations of the archive bytes rarely reach them in a shape that decompresses. Seeds: (attributes) images from an
/// independent encoder — every flag combination, block counts around the bit-array byte boundaries, and the three
/// lengths real files show (exact, patch-bit array one byte short, one byte extra); aux = block count.
fn attr_seeds(_ctx: &SeedCtx) -> Vec<Seed> {
    let mut out = Vec::new();
    for flags in [0u32, 1, 2, 4, 8, 3, 9, 12, 15] {
        for bc in [1usize, 8, 9, 17, 33] {
            for variant in ["exact", "short-1", "extra-1"] {
                if variant == "short-1" && flags & 8 == 0 && flags != 0 {
                    continue;
                }
                let mut d = Vec::new();
                d.extend_from_slice(&100u32.to_le_bytes());
                d.extend_from_slice(&flags.to_le_bytes());
                if flags & 1 != 0 {
                    for i in 0..bc { d.extend_from_slice(&(0x1000_0000u32 + i as u32 * 77).to_le_bytes()); }
                }
                if flags & 2 != 0 {
                    for i in 0..bc { d.extend_from_slice(&(0x01D0_0000_0000_0000u64 + i as u64).to_le_bytes()); }
                }
                if flags & 4 != 0 {
                    for i in 0..bc { d.extend_from_slice(&[i as u8 ^ 0x5A; 16]); }
                }
                if flags & 8 != 0 {
                    d.extend(std::iter::repeat(0xA5u8).take(bc.div_ceil(8)));
                }
                match variant {
                    "short-1" => { d.pop(); }
                    "extra-1" => d.push(0),
                    _ => {}
                }
                let hl = d.len().min(8);
                out.push(Seed::fixed(format!("attr/flags{flags:x}-blocks{bc}-{variant}"), d, hl).with_aux(bc));
            }
        }
    }
    // a listfile image: separators, BOM, empty lines, a non-UTF-8 byte
    out.push(Seed::fixed("attr/listfile-text", b"\xEF\xBB\xBFInterface\\Glue\\a.blp\r\nb.txt;c.txt\n\n\xFFd.m2\r\n".to_vec(), 8).with_aux(3));
    out
}

fn attr_drive(s: &Seed, data: &[u8], p: &mut Probe) {
    let b = bytes::Bytes::copy_from_slice(data);
    for (entry, bc) in [("Attributes::parse", s.aux), ("Attributes::parse(blocks-1)", s.aux.saturating_sub(1)), ("Attributes::parse(blocks+1)", s.aux + 1)] {
        if let Some(a) = p.call(entry, || wow_mpq::special_files::Attributes::parse(&b, bc)) {
            p.call("Attributes::to_bytes", || a.to_bytes());
        }
    }
    p.call("parse_listfile", || wow_mpq::special_files::parse_listfile(data));
}

pub fn formats() -> Vec<FormatDef> {
    vec![
        FormatDef {
            name: "mpq",
            family: "mpq",
            entries: &["Archive::open", "Archive::list", "Archive::find_file", "Archive::read_file", "Archive::load_attributes", "Archive::get_info", "Archive::verify_signature",
                       "Archive::list_all", "Archive::list_with_hashes", "Archive::list_all_with_hashes", "Archive::read_file_by_indices", "Archive::get_file_attributes", "Archive::open_with_options",
                       "Archive::load_tables", "MutableArchive::open", "MutableArchive::list", "MutableArchive::read_file", "PatchChain::add_archive", "PatchChain::list", "PatchChain::read_file",
                       "PatchChain::get_chain_info", "ParallelArchive::open", "ParallelArchive::extract_files_parallel", "ParallelArchive::extract_files_batched", "rebuild_archive(list_only)",
                       "compare_archives", "MpqHeader::read", "find_header", "HashTable::read", "BlockTable::read", "HashTable::from_bytes", "BlockTable::from_bytes"],
            seeds: mpq_seeds,
            drive: mpq_drive,
            cipher: Some(Cipher { encrypt: wow_mpq::crypto::encrypt_block, decrypt: wow_mpq::crypto::decrypt_block }),
            // 16 seeds share the havoc budget of what are really six kinds of archive: give MPQ 4x the per-format default
            havoc_scale: 4.0,
            max_field_offsets: (420, 1500),
        },
        FormatDef {
            name: "mpq-raw",
            family: "mpq",
            entries: &["compression::decompress", "compression::decompress_secure", "rle::decompress", "parse_weak_signature", "parse_strong_signature"],
            seeds: raw_seeds,
            drive: raw_drive,
            cipher: None,
            havoc_scale: 1.0,
            max_field_offsets: (16, 64),
        },
        FormatDef {
            name: "mpq-special",
            family: "mpq",
            entries: &["Attributes::parse", "Attributes::parse(blocks-1)", "Attributes::parse(blocks+1)", "Attributes::to_bytes", "parse_listfile"],
            seeds: attr_seeds,
            drive: attr_drive,
            cipher: None,
            havoc_scale: 0.5,
            max_field_offsets: (8, 24),
        },
        FormatDef {
            name: "ptch",
            family: "ptch",
            entries: &["PatchFile::parse", "apply_patch"],
            seeds: ptch_seeds,
            drive: ptch_drive,
            cipher: None,
            havoc_scale: 1.0,
            max_field_offsets: (200, 600),
        },
    ]
}
