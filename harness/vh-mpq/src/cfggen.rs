//! Builder-configuration and file-set generators shared by the MPQ workers.

use serde_json::{Value, json};
use vh_common::{Rng, gen_content};
use wow_mpq::{ArchiveBuilder, AttributesOption, FormatVersion, ListfileOption};

#[derive(Clone, Debug, PartialEq, Eq, Hash)]
pub struct Cfg {
    pub version: u8, // 1..=4
    pub shift: u16,  // sector shift 0..=8
    pub method: u8,  // compression selector byte (0 = none)
    pub enc: u8,     // 0 plain, 1 encrypted, 2 encrypted + fix-key
    pub crc: bool,   // sector checksums
    pub attr: u8,    // 0 none, 1 crc32, 2 full
    pub listfile: bool,
    pub tblcomp: bool,
}

pub const METHODS: &[(u8, &str)] = &[
    (0x00, "none"),
    (0x02, "zlib"),
    (0x10, "bzip2"),
    (0x12, "lzma"),
    (0x20, "sparse"),
    (0x08, "pkware"),
    (0x42, "adpcm-mono+zlib"),
    (0x81, "adpcm-stereo+huffman"),
];

pub fn method_name(m: u8) -> String {
    METHODS.iter().find(|x| x.0 == m).map(|x| x.1.to_string()).unwrap_or_else(|| format!("0x{m:02x}"))
}

pub fn is_lossy(m: u8) -> bool {
    m & 0xC0 != 0
}

impl Cfg {
    pub fn sector_size(&self) -> usize {
        512usize << self.shift
    }
    pub fn fmt_version(&self) -> FormatVersion {
        match self.version {
            1 => FormatVersion::V1,
            2 => FormatVersion::V2,
            3 => FormatVersion::V3,
            _ => FormatVersion::V4,
        }
    }
    pub fn to_json(&self) -> Value {
        json!({"version": self.version, "shift": self.shift, "method": method_name(self.method), "enc": self.enc,
               "crc": self.crc, "attr": self.attr, "listfile": self.listfile, "tblcomp": self.tblcomp, "setter_order": self.setter_order()})
    }
    pub fn class(&self) -> String {
        format!("v{}|s{}|{}|e{}|c{}|a{}|l{}|t{}", self.version, self.shift, method_name(self.method), self.enc, self.crc as u8, self.attr, self.listfile as u8, self.tblcomp as u8)
    }
    /// The builder's two checksum-related setters influence each other, so the order of the calls is part of the
    /// configuration (after C01-r7m3): 0 = attributes, then generate_crcs(true) only when wanted; 1 = attributes, then
    /// generate_crcs(wanted) also when false (attributes on, sector checksums explicitly off); 2 = generate_crcs(true),
    /// generate_crcs(wanted), then attributes (the last call decides about the attributes file).
    pub fn setter_order(&self) -> u8 {
        ((self.version as u32 + self.shift as u32 + self.method as u32 + 3 * self.enc as u32 + 5 * self.attr as u32 + 7 * self.crc as u32 + self.listfile as u32 + 2 * self.tblcomp as u32) % 3) as u8
    }
    pub fn builder(&self) -> ArchiveBuilder {
        let mut b = ArchiveBuilder::new().version(self.fmt_version()).block_size(self.shift).default_compression(self.method);
        b = b.listfile_option(if self.listfile { ListfileOption::Generate } else { ListfileOption::None });
        let attr = |b: ArchiveBuilder| match self.attr {
            1 => b.attributes_option(AttributesOption::GenerateCrc32),
            2 => b.attributes_option(AttributesOption::GenerateFull),
            _ => b.attributes_option(AttributesOption::None),
        };
        b = match self.setter_order() {
            0 => {
                let b = attr(b);
                if self.crc { b.generate_crcs(true) } else { b }
            }
            1 => attr(b).generate_crcs(self.crc),
            _ => attr(b.generate_crcs(true).generate_crcs(self.crc)),
        };
        if self.version >= 3 {
            b = b.compress_tables(self.tblcomp);
        }
        b
    }
    /// Does this configuration end up with an (attributes) file? (generate_crcs(true) implies CRC32 attributes when none were
    /// chosen before it; an attributes_option call after it decides alone)
    pub fn has_attributes(&self) -> bool {
        self.attr != 0 || (self.crc && self.setter_order() != 2)
    }
    /// Are sector checksums effectively on? (asking for attributes turns them on in the builder)
    pub fn effective_crc(&self) -> bool {
        self.crc || self.attr != 0
    }
}

/// Axis value lists.
pub fn axes(thorough: bool) -> Vec<Vec<u32>> {
    let shifts: Vec<u32> = if thorough { (0..=8).collect() } else { vec![0, 1, 3, 5, 8] };
    vec![
        vec![1, 2, 3, 4],                              // version
        shifts,                                        // shift
        METHODS.iter().map(|m| m.0 as u32).collect(), // method
        vec![0, 1, 2],                                 // enc
        vec![0, 1],                                    // crc
        vec![0, 1, 2],                                 // attr
        vec![1, 0],                                    // listfile
        vec![0, 1],                                    // tblcomp
    ]
}

pub fn cfg_from_point(p: &[u32]) -> Cfg {
    Cfg { version: p[0] as u8, shift: p[1] as u16, method: p[2] as u8, enc: p[3] as u8, crc: p[4] == 1, attr: p[5] as u8, listfile: p[6] == 1, tblcomp: p[7] == 1 }
}

/// Greedy t-wise covering array over the given axes (t = 2 or 3). Deterministic.
pub fn covering_array(axes: &[Vec<u32>], t: usize, rng: &mut Rng) -> Vec<Vec<u32>> {
    use std::collections::HashSet;
    let k = axes.len();
    // enumerate all t-subsets of axes
    let mut subsets: Vec<Vec<usize>> = Vec::new();
    fn rec(start: usize, k: usize, t: usize, cur: &mut Vec<usize>, out: &mut Vec<Vec<usize>>) {
        if cur.len() == t {
            out.push(cur.clone());
            return;
        }
        for i in start..k {
            cur.push(i);
            rec(i + 1, k, t, cur, out);
            cur.pop();
        }
    }
    rec(0, k, t, &mut vec![], &mut subsets);
    let mut uncovered: HashSet<(usize, Vec<u32>)> = HashSet::new();
    for (si, s) in subsets.iter().enumerate() {
        let mut idx = vec![0usize; t];
        loop {
            uncovered.insert((si, (0..t).map(|j| axes[s[j]][idx[j]]).collect()));
            let mut j = 0;
            loop {
                idx[j] += 1;
                if idx[j] < axes[s[j]].len() {
                    break;
                }
                idx[j] = 0;
                j += 1;
                if j == t {
                    break;
                }
            }
            if j == t {
                break;
            }
        }
    }
    let mut rows: Vec<Vec<u32>> = Vec::new();
    while !uncovered.is_empty() {
        // candidate rows: 40 random, keep the one covering most
        let mut best: Option<(usize, Vec<u32>)> = None;
        for c in 0..40 {
            let mut row: Vec<u32> = axes.iter().map(|a| *rng.pick(a)).collect();
            if c == 0 {
                // seed the candidate from one uncovered tuple so progress is guaranteed
                let (si, vals) = uncovered.iter().min().cloned().unwrap();
                for (j, &ax) in subsets[si].iter().enumerate() {
                    row[ax] = vals[j];
                }
            }
            let mut n = 0;
            for (si, s) in subsets.iter().enumerate() {
                let vals: Vec<u32> = s.iter().map(|&ax| row[ax]).collect();
                if uncovered.contains(&(si, vals)) {
                    n += 1;
                }
            }
            if best.as_ref().map(|b| n > b.0).unwrap_or(true) {
                best = Some((n, row));
            }
        }
        let (_, row) = best.unwrap();
        for (si, s) in subsets.iter().enumerate() {
            let vals: Vec<u32> = s.iter().map(|&ax| row[ax]).collect();
            uncovered.remove(&(si, vals));
        }
        rows.push(row);
    }
    rows
}

#[derive(Clone, Debug)]
pub struct FileSpec {
    pub name: String,
    pub class: &'static str,
    pub data: Vec<u8>,
}

const COMPONENTS: &[&str] = &[
    "Interface", "Glue", "World", "Maps", "Azeroth", "Sound", "Creature", "data", "Textures", "a", "Zz", "x y", "naïve", "Ünï", "日本", "dir.ext", "UPPER", "lower", "MiXeD",
];
const EXTS: &[&str] = &[".blp", ".m2", ".txt", ".WAV", ".dbc", "", ".Adt", ".x y"];

/// A name of 1–3 components, mixed case, spaces and non-ASCII inside components.
/// Never contains listfile syntax characters (\r \n ;), never has leading/trailing blanks.
pub fn gen_name(rng: &mut Rng, uniq: usize) -> String {
    let n = 1 + rng.usize(3);
    let mut parts: Vec<String> = Vec::new();
    for i in 0..n {
        let mut c = rng.pick(COMPONENTS).to_string();
        if i == n - 1 {
            c = format!("{}{}{}", c, uniq, rng.pick(EXTS));
        }
        parts.push(c);
    }
    parts.join("\\")
}

pub const FILE_CLASSES: &[&str] = &["random", "zero", "period3", "sparse", "text", "half", "ff", "runs", "litruns"];

/// 6–10 files covering the boundary sizes relative to the sector size and the content classes.
pub fn gen_fileset(rng: &mut Rng, sector: usize, max_total: usize) -> Vec<FileSpec> {
    let mut sizes: Vec<usize> = vec![0, 1, 3, 5, sector - 1, sector, sector + 1, 3 * sector + 7];
    if rng.bool() {
        sizes.push(2 * sector);
    }
    if rng.bool() {
        sizes.push(rng.usize(2 * sector) + 2);
    }
    // keep the total bounded for big sectors: drop the biggest entries if needed, but always keep one multi-sector file
    let mut total: usize = sizes.iter().sum();
    while total > max_total && sizes.len() > 6 {
        let k = sizes.len() - 1;
        total -= sizes[k];
        sizes.remove(k);
    }
    let off = rng.usize(FILE_CLASSES.len());
    let mut out = Vec::new();
    for (i, &len) in sizes.iter().enumerate() {
        let class = FILE_CLASSES[(i + off) % FILE_CLASSES.len()];
        let data = gen_content(rng, class, len);
        out.push(FileSpec { name: gen_name(rng, i), class, data });
    }
    out
}

/// Contents at the compressor's break-even point (compressed payload about one byte shorter than the input), where the
/// writer's "store raw unless it shrinks" decision and the reader's "stored size == size means raw" rule must agree.
/// Found by growing a compressible tail behind incompressible bytes until `compress` first returns a shorter form; the
/// lengths just around that point are returned (the search uses the code under test only to *locate* the boundary).
pub fn break_even_contents(rng: &mut Rng, method: u8) -> Vec<Vec<u8>> {
    if method == 0 || is_lossy(method) || method == 0x08 {
        return vec![];
    }
    let head_len = 40 + rng.usize(220);
    let head: Vec<u8> = rng.bytes(head_len).into_iter().map(|b| b | 1).collect();
    let filler = if method == 0x20 { 0u8 } else { b'A' };
    let mut first_shorter = None;
    for t in 0..400usize {
        let mut d = head.clone();
        d.extend(std::iter::repeat(filler).take(t));
        match vh_common::trap(|| wow_mpq::compress(&d, method)) {
            Ok(Ok(c)) if c.len() < d.len() => {
                first_shorter = Some(t);
                break;
            }
            _ => {}
        }
    }
    let Some(t0) = first_shorter else { return vec![] };
    (t0.saturating_sub(3)..=t0 + 1)
        .map(|t| {
            let mut d = head.clone();
            d.extend(std::iter::repeat(filler).take(t));
            d
        })
        .collect()
}

/// Spellings that differ only in ASCII case or slash direction.
pub fn spellings(name: &str) -> Vec<(String, &'static str)> {
    let upper: String = name.chars().map(|c| c.to_ascii_uppercase()).collect();
    let lower: String = name.chars().map(|c| c.to_ascii_lowercase()).collect();
    let alt: String = name.chars().enumerate().map(|(i, c)| if i % 2 == 0 { c.to_ascii_uppercase() } else { c.to_ascii_lowercase() }).collect();
    let fwd = name.replace('\\', "/");
    vec![(name.to_string(), "as-given"), (upper, "upper"), (lower, "lower"), (alt, "alternating"), (fwd, "fwd-slash")]
}

/// Add the file set to a builder according to cfg.enc.
pub fn add_files(mut b: ArchiveBuilder, cfg: &Cfg, files: &[FileSpec]) -> ArchiveBuilder {
    for f in files {
        b = match cfg.enc {
            0 => b.add_file_data_with_options(f.data.clone(), &f.name, cfg.method, false, 0),
            1 => b.add_file_data_with_encryption(f.data.clone(), &f.name, cfg.method, false, 0),
            _ => b.add_file_data_with_encryption(f.data.clone(), &f.name, cfg.method, true, 0),
        };
    }
    b
}
