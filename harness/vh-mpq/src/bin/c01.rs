//! C01 — MPQ build→open round trip. Model = Vec<(name, bytes)>; see DESIGN.md §6 C01.

use serde_json::json;
use std::collections::BTreeSet;
use vh_common::{Case, Rng, Run, brief, first_diff, trap};
use vh_mpq::cfggen::*;
use wow_mpq::crypto::het_hash;
use wow_mpq::{Archive, Error, hash_string};

/// Structural trigger predicates evaluated on the witness (used in signatures; DESIGN.md §4):
/// single-unit vs multi-sector, and whether some stored unit compresses at more than 1000:1
/// (the ratio at which security.rs starts refusing the library's own output).
fn content_trigger(f: &FileSpec, cfg: &Cfg, method: u8) -> String {
    let s = cfg.sector_size();
    let multi = f.data.len() > s;
    let mut hot = false;
    if method != 0 && !is_lossy(method) {
        for unit in f.data.chunks(s.max(1)) {
            if let Ok(Ok(c)) = trap(|| wow_mpq::compress(unit, method)) {
                if c.len() > 1 && c.len() < unit.len() && unit.len() / (c.len() - 1) > 1000 {
                    hot = true;
                }
            }
        }
    }
    format!("{}|{}", if multi { "multi-sector" } else { "single-unit" }, if hot { "unit-ratio>1000" } else { "unit-ratio<=1000" })
}

/// The read-back oracle, shared shape with C02/C07/C12 (kept local: the oracle must not depend on repo helpers).
/// `per` = the compression selector each file was added with (one per file; the archive-wide one unless the set is mixed).
pub fn check_archive(c: &mut Case, cfg: &Cfg, files: &[FileSpec], per: &[u8], path: &std::path::Path, rng: &mut Rng) {
    let amname = method_name(cfg.method);
    let mut ar = match Archive::open(path) {
        Ok(a) => a,
        Err(e) => {
            c.violate(format!("open-failed-after-build-ok|v{}|{}|tbl{}", cfg.version, amname, cfg.tblcomp as u8), format!("build returned Ok but Archive::open failed: {e}"), cfg.to_json());
            return;
        }
    };
    // --- every file under every spelling
    for (fi, f) in files.iter().enumerate() {
        let lossy = is_lossy(per[fi]);
        let mname = method_name(per[fi]);
        for (sp, spk) in spellings(&f.name) {
            c.count("spellings_checked", 1);
            let info = match ar.find_file(&sp) {
                Ok(Some(i)) => i,
                Ok(None) => {
                    c.violate(format!("added-name-not-found|{spk}|v{}|ascii={}", cfg.version, f.name.is_ascii()), format!("find_file({:?}) = None for an added file (spelling {spk} of {:?})", sp, f.name), json!({"cfg": cfg.to_json(), "name": f.name}));
                    continue;
                }
                Err(e) => {
                    c.violate(format!("find-file-error|{spk}|v{}", cfg.version), format!("find_file({:?}) errored: {e}", sp), cfg.to_json());
                    continue;
                }
            };
            if info.file_size != f.data.len() as u64 {
                c.violate(format!("reported-size-ne-length|v{}|{}", cfg.version, mname), format!("find_file({:?}).file_size = {} but content length = {}", sp, info.file_size, f.data.len()), cfg.to_json());
            }
            let got = trap(|| ar.read_file(&sp));
            let trig = content_trigger(f, cfg, per[fi]);
            match got {
                Err(p) => c.violate(format!("read-panic|{}|{}", mname, p.sig()), format!("read_file({:?}) panicked: {}", sp, p.msg), json!({"cfg": cfg.to_json(), "file": brief(&f.data)})),
                Ok(Err(e)) => {
                    let ek = err_kind(&e);
                    c.violate(
                        format!("read-error|{}|{}|{}", mname, trig, ek),
                        format!("read_file({:?}) failed after a successful build: {e} (len {}, class {}, sector {})", sp, f.data.len(), f.class, cfg.sector_size()),
                        json!({"cfg": cfg.to_json(), "file": brief(&f.data), "class": f.class}),
                    );
                }
                Ok(Ok(data)) => {
                    c.count("files_read", 1);
                    if lossy {
                        if data.len() != f.data.len() {
                            c.violate(format!("lossy-length-changed|{}|{}", mname, trig), format!("lossy codec changed the length: {} -> {}", f.data.len(), data.len()), cfg.to_json());
                        }
                    } else if data != f.data {
                        let fd = first_diff(&data, &f.data);
                        let shape = if data.len() != f.data.len() { "len" } else { "bytes" };
                        c.violate(
                            format!("content-mismatch|{}|{}|{}", mname, trig, shape),
                            format!("read_file({:?}) returned {} bytes, expected {}; first difference at {} (class {}, sector {})", sp, data.len(), f.data.len(), fd, f.class, cfg.sector_size()),
                            json!({"cfg": cfg.to_json(), "file": brief(&f.data), "got": brief(&data), "first_diff": fd}),
                        );
                    }
                }
            }
        }
    }
    // --- listing
    let listed = match trap(|| ar.list()) {
        Ok(r) => Some(r),
        Err(p) => {
            c.violate(format!("list-panic|{}|{}", amname, p.sig()), format!("list() panicked: {}", p.msg), cfg.to_json());
            None
        }
    };
    match listed {
        None => {}
        Some(Err(e)) => {
            if cfg.listfile {
                c.violate(format!("list-error|v{}", cfg.version), format!("list() failed on an archive with a listfile: {e}"), cfg.to_json());
            }
        }
        Some(Ok(entries)) => {
            if cfg.listfile {
                let got: BTreeSet<String> = entries.iter().map(|e| e.name.to_ascii_uppercase().replace('/', "\\")).collect();
                let mut want: BTreeSet<String> = files.iter().map(|f| f.name.to_ascii_uppercase().replace('/', "\\")).collect();
                want.insert("(LISTFILE)".into());
                if cfg.has_attributes() {
                    want.insert("(ATTRIBUTES)".into());
                }
                // whatever the configuration was meant to produce: a special file the archive carries is part of the listing
                for sp in ["(attributes)", "(signature)"] {
                    if matches!(trap(|| ar.find_file(sp)), Ok(Ok(Some(_)))) {
                        c.count("special_files_found_by_lookup", 1);
                        want.insert(sp.to_ascii_uppercase());
                    }
                }
                c.count("listings_checked", 1);
                let missing: Vec<_> = want.difference(&got).cloned().collect();
                let extra: Vec<_> = got.difference(&want).cloned().collect();
                // the statement allows "the internal special files": tolerate any extra "(…)" special
                let extra: Vec<_> = extra.into_iter().filter(|n| !(n.starts_with('(') && n.ends_with(')'))).collect();
                let missing_special: Vec<_> = missing.iter().filter(|n| n.starts_with('(')).cloned().collect();
                let missing: Vec<_> = missing.into_iter().filter(|n| !n.starts_with('(')).collect();
                if !missing.is_empty() {
                    c.violate(format!("list-missing-added-name|v{}", cfg.version), format!("list() lacks added names {:?}", &missing[..missing.len().min(3)]), cfg.to_json());
                }
                if !missing_special.is_empty() {
                    c.violate(format!("list-missing-special|v{}|{}", cfg.version, missing_special[0]), format!("list() lacks special files {:?}", missing_special), cfg.to_json());
                }
                if !extra.is_empty() {
                    c.violate(format!("list-extra-name|v{}", cfg.version), format!("list() has names never added {:?}", &extra[..extra.len().min(3)]), cfg.to_json());
                }
                for e in &entries {
                    if let Some(f) = files.iter().find(|f| f.name.eq_ignore_ascii_case(&e.name.replace('/', "\\"))) {
                        if e.size != f.data.len() as u64 {
                            c.violate(format!("list-size-ne-length|v{}", cfg.version), format!("list() reports size {} for {:?}, content length {}", e.size, e.name, f.data.len()), cfg.to_json());
                        }
                    }
                }
            }
        }
    }
    // --- never-added names, incl. ones colliding with an added name in the table-offset hash and in the 8-bit HET hash
    let mask = ar.header().hash_table_size.max(1) - 1;
    let added: BTreeSet<String> = files.iter().map(|f| f.name.to_ascii_uppercase()).collect();
    let mut negs: Vec<(String, &str)> = vec![("never\\added.bin".into(), "plain"), ("".into(), "empty"), ("(user)".into(), "special-looking"), (format!("{}x", files[0].name), "suffix"), (files[1].name[..files[1].name.len() - 1].to_string(), "prefix")];
    // names that differ from an added name only in the case of NON-ASCII letters (or by a Unicode case mapping that is not a
    // per-byte ASCII fold: ß -> SS) are different names in the MPQ format (the hash folds ASCII only): never added
    for f in files.iter() {
        if !f.name.is_ascii() {
            let up: String = f.name.chars().flat_map(|ch| if ch.is_ascii() { vec![ch] } else { ch.to_uppercase().collect::<Vec<_>>() }).collect();
            let lo: String = f.name.chars().flat_map(|ch| if ch.is_ascii() { vec![ch] } else { ch.to_lowercase().collect::<Vec<_>>() }).collect();
            for v in [up, lo, f.name.to_uppercase()] {
                if v.to_ascii_uppercase() != f.name.to_ascii_uppercase() && negs.iter().filter(|(_, k)| *k == "non-ascii-case-variant").count() < 6 {
                    negs.push((v, "non-ascii-case-variant"));
                }
            }
        }
    }
    let target = &files[rng.usize(files.len())].name;
    let th = hash_string(target, 0) & mask;
    let mut n = 0u32;
    let mut found_off = false;
    let mut found_het = false;
    while n < 60000 && !(found_off && found_het) {
        let cand = format!("neg\\{n}.x");
        if !found_off && hash_string(&cand, 0) & mask == th {
            negs.push((cand.clone(), "collides-table-offset"));
            found_off = true;
        }
        if !found_het && het_hash(&cand, 8) == het_hash(target, 8) {
            negs.push((cand, "collides-het8"));
            found_het = true;
        }
        n += 1;
    }
    for (neg, kind) in negs {
        if added.contains(&neg.to_ascii_uppercase()) || neg == "(listfile)" {
            continue;
        }
        c.count("negative_lookups", 1);
        match ar.find_file(&neg) {
            Ok(None) => {}
            Ok(Some(_)) => c.violate(format!("never-added-name-resolves|{kind}|v{}", cfg.version), format!("find_file({:?}) resolved although the name was never added", neg), cfg.to_json()),
            Err(_) => {} // an error is still "not resolved"
        }
        match trap(|| ar.read_file(&neg)) {
            Ok(Err(Error::FileNotFound(_))) => {}
            Ok(Err(_)) => {} // any error is "not found rather than resolved"
            Ok(Ok(d)) => c.violate(format!("never-added-name-reads|{kind}|v{}", cfg.version), format!("read_file({:?}) returned {} bytes although the name was never added", neg, d.len()), cfg.to_json()),
            Err(p) => c.violate(format!("negative-read-panic|{kind}|{}", p.sig()), format!("read_file({:?}) panicked: {}", neg, p.msg), cfg.to_json()),
        }
    }
}

fn err_kind(e: &Error) -> String {
    let s = format!("{e:?}");
    let variant = s.split(|ch: char| !ch.is_alphanumeric()).next().unwrap_or("?").to_string();
    // keep the stable part of compression/security messages
    let msg = format!("{e}");
    let key = ["ratio", "bomb", "Decompression failed", "pattern", "not supported", "unimplemented", "Invalid", "too large", "exceeds", "size mismatch", "Unexpected"].iter().find(|k| msg.contains(**k)).copied().unwrap_or("");
    format!("{variant}:{key}")
}

fn main() {
    let mut run = Run::new();
    let thorough = run.args.thorough();
    let ax = axes(thorough);
    let mut crng = Rng::new(run.args.seed ^ 0xC01);
    let mut points = covering_array(&ax, if thorough { 3 } else { 2 }, &mut crng);
    let nrandom = if thorough { 40000 } else { 1500 };
    for _ in 0..nrandom {
        points.push(ax.iter().map(|a| *crng.pick(a)).collect());
    }
    run.extra("config_points", json!(points.len()));
    let scratch = std::path::PathBuf::from(&run.args.scratch);
    for (i, p) in points.iter().enumerate() {
        let idx = i as u64;
        if !run.want(idx) {
            continue;
        }
        let cfg = cfg_from_point(p);
        let mut rng = run.rng(idx, 0);
        let max_total = if thorough { 3 << 20 } else { 1 << 20 };
        let mut files = gen_fileset(&mut rng, cfg.sector_size(), max_total);
        // files at the compressor's break-even point (one as a whole small file, one as the tail sector of a larger file)
        for (k, d) in break_even_contents(&mut rng, cfg.method).into_iter().enumerate() {
            if k % 2 == 0 && d.len() < cfg.sector_size() {
                let mut big = rng.bytes(cfg.sector_size());
                big.extend_from_slice(&d);
                files.push(FileSpec { name: format!("breakeven\\tail{k}.bin"), class: "break-even", data: big });
            }
            files.push(FileSpec { name: format!("breakeven\\whole{k}.bin"), class: "break-even", data: d });
        }
        // every fifth set holds one name twice (exact, other ASCII case, other slash direction) with different content: in the
        // format these are one name, so the build either refuses the set or the archive answers both with their own content
        // (which it cannot) - an Ok build falls through to the read-back oracle below
        let mut dup_kind = None;
        if idx % 5 == 2 {
            let src = rng.usize(files.len());
            let base = files[src].name.clone();
            let (kind, name) = match rng.below(4) {
                0 => ("exact", base.clone()),
                1 => ("upper", base.to_ascii_uppercase()),
                2 => ("lower", base.to_ascii_lowercase()),
                _ => ("swapcase+slash", base.chars().map(|ch| if ch == '\\' { '/' } else if ch.is_ascii_lowercase() { ch.to_ascii_uppercase() } else { ch.to_ascii_lowercase() }).collect()),
            };
            let dl = 1 + rng.usize(3000);
            let mut data = rng.bytes(dl);
            data.extend_from_slice(b"second-content");
            let at = if rng.bool() { files.len() } else { let n = files.len() + 1; rng.usize(n) };
            files.insert(at, FileSpec { name, class: "same-name-twice", data });
            dup_kind = Some(kind);
        }
        // every sixth point holds names that are legal in an archive but unusual on a file system: device names, characters a
        // file system may refuse, a name of 300 bytes (after C01-r9m2: a listing that filters names through a path validator)
        if idx % 6 == 3 {
            let long = format!("long\\{}.bin", "n".repeat(300 - 9));
            for (k, n) in ["CON", "dir\\aux.txt", "LPT1.dat", "a<b>.txt", "what?.bin", "star*.bin", "pipe|x.txt", "quote\"x.txt", long.as_str()].iter().enumerate() {
                if (idx / 6 + k as u64) % 3 != 0 {
                    let dl = 1 + rng.usize(200);
                    files.push(FileSpec { name: n.to_string(), class: "unusual-name", data: rng.bytes(dl) });
                }
            }
        }
        // every eighth point carries 40..300 further tiny files, so that file counts cross the sizes the tables are laid out for
        let many = idx % 8 == 5;
        if many {
            let extra = 40 + rng.usize(261);
            for k in 0..extra {
                let dl = rng.usize(41);
                files.push(FileSpec { name: gen_name(&mut rng, 1000 + k), class: "tiny", data: rng.bytes(dl) });
            }
        }
        // every fourth point is a *mixed* set - the statement quantifies method and encryption per file: each file gets its own
        // selector (the archive-wide one or a lossless one), its own encryption mode and its own way into the builder (bytes or a
        // path on disk; with explicit options or through the default-compression entry points)
        let mixed = idx % 4 == 1;
        let mut plan: Vec<(u8, u8, u8)> = Vec::new(); // (method, enc, via)
        for _ in 0..files.len() {
            if mixed {
                let via = rng.below(4) as u8;
                if via >= 2 {
                    plan.push((cfg.method, 0, via));
                } else {
                    let m = *rng.pick(&[0x00u8, 0x02, 0x10, 0x12, 0x20, cfg.method, cfg.method]);
                    plan.push((m, rng.below(3) as u8, via));
                }
            } else {
                plan.push((cfg.method, cfg.enc, 0));
            }
        }
        let per: Vec<u8> = plan.iter().map(|p| p.0).collect();
        // a third of the mixed sets with a listfile bring the listfile along themselves (the added names in another order, LF or CRLF)
        let ext_listfile = mixed && cfg.listfile && idx % 3 == 0;
        let desc = json!({"cfg": cfg.to_json(), "mixed": mixed, "many": many, "external_listfile": ext_listfile,
            "files": files.iter().zip(plan.iter()).take(24).map(|(f, p)| json!({"name": f.name, "len": f.data.len(), "class": f.class, "method": method_name(p.0), "enc": p.1, "via": p.2})).collect::<Vec<_>>(), "nfiles": files.len()});
        let path = scratch.join(format!("c01-{idx}.mpq"));
        let srcdir = scratch.join(format!("c01-{idx}-src"));
        let class = if mixed || many { format!("{}|mixed{}|many{}|ext{}", cfg.class(), mixed as u8, many as u8, ext_listfile as u8) } else { cfg.class() };
        run.case(idx, &class, desc, |c| {
            let mut b = cfg.builder();
            if mixed {
                let _ = std::fs::create_dir_all(&srcdir);
                for (i, (f, &(m, enc, via))) in files.iter().zip(plan.iter()).enumerate() {
                    let src = srcdir.join(format!("{i}.bin"));
                    if via == 1 || via == 3 {
                        if std::fs::write(&src, &f.data).is_err() {
                            c.inconclusive("could not write a source file into the scratch directory");
                            return;
                        }
                    }
                    c.count(&format!("mixed_via{via}_enc{enc}"), 1);
                    b = match (via, enc) {
                        (0, 0) => b.add_file_data_with_options(f.data.clone(), &f.name, m, false, 0),
                        (0, 1) => b.add_file_data_with_encryption(f.data.clone(), &f.name, m, false, 0),
                        (0, _) => b.add_file_data_with_encryption(f.data.clone(), &f.name, m, true, 0),
                        (1, 0) => b.add_file_with_options(&src, &f.name, m, false, 0),
                        (1, 1) => if i % 2 == 0 { b.add_file_with_options(&src, &f.name, m, true, 0) } else { b.add_file_with_encryption(&src, &f.name, m, false, 0) },
                        (1, _) => b.add_file_with_encryption(&src, &f.name, m, true, 0),
                        (2, _) => b.add_file_data(f.data.clone(), &f.name),
                        _ => b.add_file(&src, &f.name),
                    };
                }
                if ext_listfile {
                    let mut names: Vec<String> = files.iter().map(|f| f.name.clone()).collect();
                    names.push("(listfile)".into());
                    if cfg.has_attributes() {
                        names.push("(attributes)".into());
                    }
                    let rot = idx as usize % names.len();
                    names.rotate_left(rot);
                    let eol = if idx % 2 == 0 { "\r\n" } else { "\n" };
                    let lf = srcdir.join("listfile.txt");
                    let body: String = names.iter().map(|n| format!("{n}{eol}")).collect();
                    if std::fs::write(&lf, body).is_err() {
                        c.inconclusive("could not write the external listfile into the scratch directory");
                        return;
                    }
                    b = b.listfile_option(wow_mpq::ListfileOption::External(lf));
                    c.count("external_listfiles", 1);
                }
                c.count("mixed_sets", 1);
            } else {
                b = add_files(b, &cfg, &files);
            }
            if many {
                c.count("many_file_sets", 1);
                c.count("many_file_total", files.len() as u64);
            }
            let r = trap(|| b.build(&path));
            match r {
                Err(p) => {
                    c.violate(format!("build-panic|{}|{}", method_name(cfg.method), p.sig()), format!("build panicked: {}", p.msg), cfg.to_json());
                }
                Ok(Err(e)) => {
                    // allowed by the statement; tallied per class so an always-erroring class cannot hide as coverage
                    c.count(&format!("build_err|{}|v{}", method_name(cfg.method), cfg.version), 1);
                    c.count("build_err", 1);
                    c.note(json!({"build_err": format!("{e}")}));
                    c.nontrivial = false;
                    if let Some(k) = dup_kind {
                        c.count(&format!("same_name_twice_refused|{k}"), 1);
                        c.nontrivial = true;
                    }
                    if path.exists() {
                        c.violate("build-err-left-destination", "build returned Err but the destination path exists", cfg.to_json());
                    }
                }
                Ok(Ok(())) => {
                    c.count("build_ok", 1);
                    c.count(&format!("build_ok|{}", method_name(cfg.method)), 1);
                    if let Some(k) = dup_kind {
                        c.count(&format!("same_name_twice_built|{k}"), 1);
                    }
                    check_archive(c, &cfg, &files, &per, &path, &mut rng);
                }
            }
            let _ = std::fs::remove_file(&path);
            let _ = std::fs::remove_dir_all(&srcdir);
        });
    }
    run.done();
}
