//! C07 — rebuilding an archive preserves its file set and contents. DESIGN.md §6 C07.
//! Oracle: independent re-read of source and target with Archive (no rebuild.rs helpers).

use serde_json::json;
use std::collections::{BTreeMap, BTreeSet};
use vh_common::{Case, Run, brief, trap};
use vh_mpq::cfggen::*;
use wow_mpq::tables::BlockEntry;
use wow_mpq::{Archive, FormatVersion, RebuildOptions, compare_archives, rebuild_archive};

fn norm(n: &str) -> String {
    n.replace('/', "\\").to_ascii_uppercase()
}

fn is_special(n: &str) -> bool {
    n.starts_with('(') && n.ends_with(')')
}

struct Opt {
    target: Option<u8>,
    comp: Option<u8>,
    block: Option<u16>,
    verify: bool,
    skip_enc: bool,
    skip_sig: bool,
    list_only: bool,
    /// RebuildOptions::preserve_order (the default is true)
    keep_order: bool,
    /// no explicit target and preserve_format off: the tool picks the version itself
    modernize: bool,
}

impl Opt {
    fn class(&self) -> String {
        format!("t{}|c{}|b{}|v{}|se{}|ss{}|lo{}|o{}|m{}", self.target.map(|t| t.to_string()).unwrap_or("-".into()), self.comp.map(|c| format!("{c:02x}")).unwrap_or("-".into()), self.block.map(|b| b.to_string()).unwrap_or("-".into()), self.verify as u8, self.skip_enc as u8, self.skip_sig as u8, self.list_only as u8, self.keep_order as u8, self.modernize as u8)
    }
    fn to_options(&self) -> RebuildOptions {
        let mut o = RebuildOptions::default();
        if let Some(t) = self.target {
            o.target_format = Some(match t {
                1 => FormatVersion::V1,
                2 => FormatVersion::V2,
                3 => FormatVersion::V3,
                _ => FormatVersion::V4,
            });
            o.preserve_format = false;
        }
        o.override_compression = self.comp;
        o.override_block_size = self.block;
        o.verify = self.verify;
        o.skip_encrypted = self.skip_enc;
        o.skip_signatures = self.skip_sig;
        o.list_only = self.list_only;
        o.preserve_order = self.keep_order;
        if self.target.is_none() && self.modernize {
            o.preserve_format = false;
        }
        o
    }
}

fn main() {
    let mut run = Run::new();
    let thorough = run.args.thorough();
    let n = if thorough { 24000 } else { 6000 };
    let dir = std::path::PathBuf::from(&run.args.scratch);
    for idx in 0..n {
        if !run.want(idx) {
            continue;
        }
        let mut rng = run.rng(idx, 0);
        // source configuration: cycle versions and table flavours systematically, the rest random
        let version = 1 + (idx % 4) as u8;
        let method = *rng.pick(&[0x00u8, 0x02, 0x10, 0x02]);
        let enc = *rng.pick(&[0u8, 0, 1, 2]);
        let cfg = Cfg { version, shift: *rng.pick(&[0u16, 1, 3]), method, enc, crc: rng.chance(1, 4), attr: *rng.pick(&[0u8, 0, 1, 2]), listfile: rng.chance(7, 8), tblcomp: version >= 3 && rng.bool() };
        let opt = Opt {
            target: match (idx / 4) % 5 { 0 => None, k => Some(k as u8) },
            comp: *rng.pick(&[None, None, Some(0u8), Some(0x02), Some(0x10)]),
            block: *rng.pick(&[None, None, Some(0u16), Some(3), Some(8)]),
            verify: rng.bool(),
            skip_enc: rng.chance(1, 4),
            skip_sig: !rng.chance(1, 3),
            list_only: rng.chance(1, 10),
            keep_order: (idx / 20) % 3 != 0,
            modernize: (idx / 20) % 2 == 1,
        };
        // file set: C01 generator (includes a zero-length file, multi-sector files) with "random"-class files made mildly
        // compressible so that the bomb-ratio finding (C03) does not intrude; a second group of files is encrypted
        let mut files = gen_fileset(&mut rng, cfg.sector_size(), 200_000);
        for f in files.iter_mut() {
            if matches!(f.class, "zero" | "ff" | "period3" | "runs") && f.data.len() > 20_000 {
                f.data.truncate(20_000); // keep ratios far from the 1000:1 limit
            }
        }
        // contents at the break-even point of the compressor the *target* will use
        for (k, d) in break_even_contents(&mut rng, opt.comp.unwrap_or(cfg.method)).into_iter().enumerate() {
            files.push(FileSpec { name: format!("breakeven\\f{k}.bin"), class: "break-even", data: d });
        }
        let src = dir.join(format!("c07-{idx}-src.mpq"));
        let dst = dir.join(format!("c07-{idx}-dst.mpq"));
        let class = format!("src v{} {} e{} l{} a{} | {}", cfg.version, method_name(cfg.method), cfg.enc, cfg.listfile as u8, cfg.attr, opt.class());
        let desc = json!({"source": cfg.to_json(), "options": opt.class(), "files": files.iter().map(|f| json!({"name": f.name, "len": f.data.len()})).collect::<Vec<_>>()});
        run.case(idx, &class, desc, |c| {
            // mixed encryption inside one archive: every third file encrypted when enc == 0 is "mixed"
            let mut b = cfg.builder();
            for (k, f) in files.iter().enumerate() {
                let e = if cfg.enc == 0 && k % 3 == 2 && idx % 2 == 1 { 1 } else { cfg.enc };
                b = match e {
                    0 => b.add_file_data_with_options(f.data.clone(), &f.name, cfg.method, false, 0),
                    1 => b.add_file_data_with_encryption(f.data.clone(), &f.name, cfg.method, false, 0),
                    _ => b.add_file_data_with_encryption(f.data.clone(), &f.name, cfg.method, true, 0),
                };
            }
            // listfile layouts other than the builder's own (which lists itself, unencrypted): the layout Blizzard's tools and
            // StormLib write (user files only), and a self-listing listfile stored encrypted
            let lfstyle = if cfg.listfile { (idx / 7) % 4 } else { 0 };
            if lfstyle >= 2 {
                let mut text = String::new();
                for f in &files {
                    text.push_str(&f.name);
                    text.push_str("\r\n");
                }
                if idx % 3 == 0 {
                    text.push_str("(signature)\r\n");
                }
                b = b.listfile_option(wow_mpq::ListfileOption::None);
                if lfstyle == 2 {
                    b = b.add_file_data_with_options(text.into_bytes(), "(listfile)", 0x02, false, 0);
                    c.count("sources_with_listfile_not_listing_itself", 1);
                } else {
                    text.push_str("(listfile)\r\n");
                    b = b.add_file_data_with_options(text.into_bytes(), "(listfile)", 0, true, 0);
                    c.count("sources_with_encrypted_listfile", 1);
                }
            }
            // every third source carries a "(signature)" entry as signed archives do (weak signature block: 8 + 64 bytes)
            if idx % 3 == 0 {
                b = b.add_file_data_with_options(vec![0u8; 72], "(signature)", 0, false, 0);
                c.count("sources_with_signature_entry", 1);
            }
            if let Err(e) = b.build(&src) {
                c.skip(format!("source build failed: {e}"));
                c.nontrivial = false;
                return;
            }
            // every fourth source is embedded behind a 512-aligned prefix of foreign bytes (installer stub / user data)
            let embedded = idx % 4 == 2;
            if embedded {
                if let Ok(bytes) = std::fs::read(&src) {
                    let mut pre: Vec<u8> = (0..512 * [1usize, 2, 8][(idx as usize / 4) % 3]).map(|i| (i * 31 % 251) as u8 | 0x80).collect();
                    pre.extend_from_slice(&bytes);
                    let _ = std::fs::write(&src, pre);
                    c.count("sources_behind_a_prefix", 1);
                }
            }
            let mut inputs: BTreeMap<String, Vec<u8>> = files.iter().map(|f| (norm(&f.name), f.data.clone())).collect();
            // every sixth classic-table source has been extended in place by another session (MutableArchive), with names the
            // builder itself would not be given by this workload: rooted names that start with a path separator
            if idx % 6 == 4 && cfg.version <= 2 && lfstyle < 2 && !embedded {
                let tmp = src.with_extension("ext.mpq");
                let extra: [(&str, Vec<u8>); 2] = [("\\rooted.cfg", b"rooted = 1\r\n".to_vec()), ("\\Interface\\AddOns\\extra.toc", rng.bytes(300))];
                let ok = std::fs::copy(&src, &tmp).is_ok()
                    && trap(|| -> wow_mpq::Result<()> {
                        let mut m = wow_mpq::MutableArchive::open(&tmp)?;
                        for (n, d) in &extra {
                            m.add_file_data(d, n, wow_mpq::AddFileOptions::new())?;
                        }
                        m.flush()
                    }).map(|r| r.is_ok()).unwrap_or(false)
                    // the extension itself is C06's subject: it is used only if the extended source reads back completely
                    && Archive::open(&tmp).map(|mut a| {
                        inputs.iter().all(|(n, d)| a.read_file(n).map(|g| g == *d).unwrap_or(false)) && extra.iter().all(|(n, d)| a.read_file(n).map(|g| g == *d).unwrap_or(false))
                            && a.list().map(|l| extra.iter().all(|(n, _)| l.iter().any(|e| e.name == *n))).unwrap_or(false)
                    }).unwrap_or(false);
                if ok && std::fs::rename(&tmp, &src).is_ok() {
                    for (n, d) in extra {
                        inputs.insert(norm(n), d);
                    }
                    c.count("sources_extended_in_place_with_rooted_names", 1);
                } else {
                    let _ = std::fs::remove_file(&tmp);
                    c.count("source_extensions_not_usable", 1);
                }
            }
            // every fifth source has one member whose stored bytes were damaged after the build: it can no longer be delivered;
            // what the summary reports must stay within what the source can deliver
            let mut damaged: Option<String> = None;
            if idx % 5 == 3 && !embedded {
                if let Some(victim) = files.iter().find(|f| f.data.len() > 64) {
                    let info = Archive::open(&src).ok().and_then(|a| a.find_file(&victim.name).ok().flatten());
                    if let (Some(fi), Ok(mut bytes)) = (info, std::fs::read(&src)) {
                        let (a, b) = (fi.file_pos as usize + 8, (fi.file_pos + fi.compressed_size) as usize);
                        if a < b && b <= bytes.len() {
                            for x in bytes[a..b].iter_mut() {
                                *x = 0xA5;
                            }
                            if std::fs::write(&src, bytes).is_ok() {
                                c.count("sources_with_a_damaged_member", 1);
                                damaged = Some(norm(&victim.name));
                            }
                        }
                    }
                }
            }
            // one case in sixteen rebuilds the archive onto its own path (after C07-r9m1): the result is judged like any other target
            let in_place = idx % 16 == 9 && !opt.list_only;
            if in_place {
                c.count("rebuilds_onto_the_source_path", 1);
            }
            let dst_used = if in_place { &src } else { &dst };
            check(c, &cfg, &opt, &src, dst_used, &inputs, embedded, ["generated", "generated", "not-listing-itself", "encrypted"][lfstyle as usize], damaged.as_deref());
            let _ = std::fs::remove_file(&src);
            let _ = std::fs::remove_file(&dst);
        });
    }
    run.done();
}

/// Independent comparison used for the verify leg: every expected file readable and identical, no unlisted ordinary name.
fn faithful(dst: &std::path::Path, want: &BTreeMap<String, Vec<u8>>, all: &BTreeSet<String>) -> bool {
    let Ok(mut ta) = Archive::open(dst) else { return false };
    for (n, w) in want {
        match trap(|| ta.read_file(n)) {
            Ok(Ok(g)) if &g == w => {}
            _ => return false,
        }
    }
    match ta.list() {
        Ok(tl) => tl.iter().all(|e| is_special(&e.name) || all.contains(&norm(&e.name))),
        Err(_) => false,
    }
}

/// `damaged`: a member whose stored bytes were overwritten after the build. Nothing is demanded of it (it may read as
/// an error or as other bytes; neither is what was added), and a verifying rebuild may rightly refuse a result that lacks it.
#[allow(clippy::too_many_arguments)]
fn check(c: &mut Case, cfg: &Cfg, opt: &Opt, src: &std::path::Path, dst: &std::path::Path, inputs: &BTreeMap<String, Vec<u8>>, embedded: bool, lf: &str, damaged: Option<&str>) {
    // what the source holds, as read independently
    let mut sa = match Archive::open(src) {
        Ok(a) => a,
        Err(e) => {
            c.skip(format!("source does not open: {e}"));
            return;
        }
    };
    let listed = match sa.list() {
        Ok(l) if cfg.listfile => l,
        _ => {
            // no listfile: the statement speaks of the source's *listed* files; nothing is listed.
            c.count("sources_without_listing", 1);
            vec![]
        }
    };
    let mut s_content: BTreeMap<String, Vec<u8>> = BTreeMap::new();
    let mut s_all: BTreeSet<String> = BTreeSet::new();
    let mut excluded = 0usize;
    // listed entries the source can deliver at all (specials included), and listed entries it cannot
    let mut deliverable = 0usize;
    let mut undeliverable = 0usize;
    for e in &listed {
        if trap(|| sa.read_file(&e.name)).map(|r| r.is_ok()).unwrap_or(false) { deliverable += 1 } else { undeliverable += 1 }
        s_all.insert(norm(&e.name));
        if e.name == "(signature)" {
            continue;
        }
        if opt.skip_enc && e.flags & BlockEntry::FLAG_ENCRYPTED != 0 {
            excluded += 1;
            continue;
        }
        if is_special(&e.name) || damaged == Some(norm(&e.name).as_str()) {
            continue; // specials are regenerated or carried; their bytes are not demanded
        }
        if let Ok(d) = sa.read_file(&e.name) {
            // what the source file holds is what was put into it (C01 decides whether the library reads that back); the
            // library's own reading of the source is only the fallback for names the harness did not add
            match inputs.get(&norm(&e.name)) {
                Some(inp) => {
                    if *inp != d {
                        c.count("source_reads_differing_from_builder_input", 1);
                    }
                    s_content.insert(norm(&e.name), inp.clone());
                }
                None => {
                    s_content.insert(norm(&e.name), d);
                }
            }
        }
    }
    drop(sa);
    let sv = format!("srcv{}", cfg.version);
    let tgt = opt.target.map(|t| format!("v{t}")).unwrap_or_else(|| "preserve".into());
    let res = trap(|| rebuild_archive(src, dst, opt.to_options(), None));
    let summary = match res {
        Err(p) => {
            c.violate(format!("rebuild-panic|{}", p.sig()), format!("rebuild_archive panicked: {}", p.msg), json!({}));
            return;
        }
        Ok(Err(e)) => {
            // an error is a truthful answer only if nothing claims success; tally by option class
            c.count("rebuild_err", 1);
            c.count(&format!("rebuild_err|{sv}->{tgt}|verify{}", opt.verify as u8), 1);
            c.note(json!({"rebuild_err": e.to_string()}));
            // An Err result claims nothing about the target. One case is decidable all the same: with verify on, the
            // library's own comparison of source and result is what failed — if the identical rebuild without verify
            // succeeds and the independent comparison finds its target faithful (every listed, non-excluded file identical,
            // nothing extra), the comparison reported a difference that does not exist.
            if opt.verify && !opt.list_only && cfg.listfile && !s_content.is_empty() && damaged.is_none() {
                let dst2 = dst.with_extension("noverify.mpq");
                let mut o2 = opt.to_options();
                o2.verify = false;
                if let Ok(Ok(_)) = trap(|| rebuild_archive(src, &dst2, o2, None)) {
                    c.count("verify_errs_rechecked_without_verify", 1);
                    if faithful(&dst2, &s_content, &s_all) {
                        let msg = e.to_string();
                        let why = if msg.contains("count mismatch") { "file-count-mismatch" } else if msg.contains("Content mismatch") { "content-mismatch" } else if msg.contains("missing in target") { "missing-in-target" } else { "other" };
                        c.violate(
                            format!("verify-rejects-faithful-rebuild|{sv}|{why}|listfile={lf}|sig={}|ss{}|se{}", listed.iter().any(|e| e.name == "(signature)") as u8, opt.skip_sig as u8, opt.skip_enc as u8),
                            format!("rebuild with verify=true failed ({msg}) although the same rebuild without verify yields a target holding exactly the listed, non-excluded source files, bit-identical"),
                            json!({"err": msg}),
                        );
                    }
                }
                let _ = std::fs::remove_file(&dst2);
                return;
            }
            c.nontrivial = false;
            return;
        }
        Ok(Ok(s)) => s,
    };
    c.count("rebuild_ok", 1);
    // ---- summary arithmetic
    c.count("summaries_checked", 1);
    if summary.skipped_files > (1usize << 40) {
        c.violate(format!("summary-count-wrapped|{sv}"), format!("skipped_files = {} (arithmetic wrap): source_files {}, extracted_files {}", summary.skipped_files, summary.source_files, summary.extracted_files), json!({}));
    } else if summary.extracted_files + summary.skipped_files != summary.source_files {
        c.violate(format!("summary-counts-inconsistent|{sv}"), format!("extracted {} + skipped {} != source {}", summary.extracted_files, summary.skipped_files, summary.source_files), json!({}));
    }
    if cfg.listfile && summary.extracted_files < s_content.len() {
        c.violate(
            format!("summary-extracted-less-than-preserved-set|{sv}|tbl={}", if cfg.version >= 3 { "v3+" } else { "classic" }),
            format!("summary says {} files extracted, but {} listed source files are readable and not excluded", summary.extracted_files, s_content.len()),
            json!({"source_files": summary.source_files, "skipped": summary.skipped_files}),
        );
    }
    if summary.extracted_files > s_all.len().max(listed.len()) + 2 && cfg.listfile {
        c.violate(format!("summary-extracted-more-than-listed|{sv}"), format!("summary says {} files extracted but the source lists {}", summary.extracted_files, listed.len()), json!({}));
    }
    // a file that cannot be read from the source cannot have been (or be going to be) extracted: dry run or not
    if cfg.listfile && undeliverable > 0 {
        c.count("summaries_checked_against_undeliverable_members", 1);
        if summary.extracted_files > deliverable {
            c.violate(format!("summary-extracted-more-than-deliverable|{sv}|list_only={}", opt.list_only as u8),
                      format!("summary says {} files extracted (skipped {}), but only {deliverable} of the {} listed entries can be read from the source at all", summary.extracted_files, summary.skipped_files, listed.len()),
                      json!({"source_files": summary.source_files, "undeliverable": undeliverable}));
        }
    }
    if opt.list_only {
        c.count("list_only", 1);
        if dst.exists() {
            c.violate("list-only-wrote-target", "list_only rebuild created the target file", json!({}));
        }
        return;
    }
    // ---- target content
    let mut ta = match Archive::open(dst) {
        Ok(a) => a,
        Err(e) => {
            c.violate(format!("target-does-not-open|{sv}->{tgt}"), format!("rebuild returned Ok but the target does not open: {e}"), json!({}));
            return;
        }
    };
    let mut missing = 0;
    let mut first_missing = String::new();
    for (n, want) in &s_content {
        c.count("files_compared", 1);
        match trap(|| ta.read_file(n)) {
            Ok(Ok(got)) => {
                if &got != want {
                    c.violate(format!("target-content-differs|{sv}->{tgt}|comp={}{}", opt.comp.map(|x| format!("{x:02x}")).unwrap_or("-".into()), if embedded { "|source-behind-prefix" } else { "" }), format!("{:?} differs between source and rebuilt target ({} vs {} bytes)", n, want.len(), got.len()), json!({"want": brief(want), "got": brief(&got)}));
                }
            }
            Ok(Err(_)) => {
                missing += 1;
                if first_missing.is_empty() {
                    first_missing = n.clone();
                }
            }
            Err(p) => c.violate(format!("target-read-panic|{}", p.sig()), format!("read_file panicked on the target: {}", p.msg), json!({})),
        }
    }
    if missing > 0 {
        let all = missing == s_content.len();
        c.violate(
            format!("target-lacks-source-files|{sv}|{}|verify{}", if all { "all" } else { "some" }, opt.verify as u8),
            format!("rebuild returned Ok{} but {missing} of {} listed, readable, non-excluded source files are not readable in the target (first {:?}); summary: source {}, extracted {}, skipped {}", if opt.verify { " with verify=true" } else { "" }, s_content.len(), first_missing, summary.source_files, summary.extracted_files, summary.skipped_files),
            json!({"missing": missing, "of": s_content.len()}),
        );
    }
    // target lists nothing the source did not list (specials aside)
    if let Ok(tl) = ta.list() {
        for e in tl {
            let n = norm(&e.name);
            if is_special(&e.name) {
                continue;
            }
            c.count("target_names_checked", 1);
            if !s_all.contains(&n) && cfg.listfile {
                c.violate(format!("target-has-extra-name|{sv}"), format!("target lists {:?} which the source does not list", e.name), json!({}));
                break;
            }
            if opt.skip_enc && !s_content.contains_key(&n) && s_all.contains(&n) && excluded > 0 && damaged != Some(n.as_str()) {
                // an excluded (encrypted) file must not be in the target
                c.violate(format!("excluded-file-present|{sv}"), format!("skip_encrypted was set but {:?} is in the target", e.name), json!({}));
                break;
            }
        }
    }
    drop(ta);
    // ---- compare_archives agreement
    if missing == 0 && !opt.skip_enc {
        match trap(|| compare_archives(src, dst, true, true, false, true, None)) {
            Ok(Ok(r)) => {
                c.count("compare_runs", 1);
                if let Some(f) = &r.files {
                    if !f.content_differences.is_empty() {
                        c.violate(format!("compare-reports-content-difference|{sv}->{tgt}"), format!("compare_archives reports content differences for {:?} although the independent comparison found the rebuilt files identical", &f.content_differences[..f.content_differences.len().min(3)]), json!({}));
                    }
                }
            }
            Ok(Err(e)) => c.note(json!({"compare_err": e.to_string()})),
            Err(p) => c.violate(format!("compare-panic|{}", p.sig()), format!("compare_archives panicked: {}", p.msg), json!({})),
        }
    }
}
