//! C06 — in-place modification behaves as a persistent name→bytes map. DESIGN.md §6 C06.
//! Model: BTreeMap<normalised name, bytes>. Checked after close + reopen with the read-only Archive.

use serde_json::{Value, json};
use std::collections::{BTreeMap, BTreeSet};
use std::path::{Path, PathBuf};
use vh_common::{Case, Rng, Run, brief, first_diff, trap};
use wow_mpq::compression::CompressionMethod;
use wow_mpq::{AddFileOptions, Archive, ArchiveBuilder, AttributesOption, FormatVersion, ListfileOption, MutableArchive, hash_string};

#[derive(Clone, Debug, PartialEq)]
enum Op {
    Add { name: usize, size: usize, opt: usize, replace: bool },
    Remove { name: usize },
    Rename { from: usize, to: usize },
    Compact,
    Flush,
    Reopen,
}

// "huffman": a selector the compressor refuses (compression::compress answers Err for Huffman) — an addition that *fails after the lookup*;
// the statement's "an operation that reports failure leaves the map unchanged" needs failing operations other than FileExists / not-found
const OPTS: &[&str] = &["zlib", "none", "bzip2", "zlib+enc", "none+fixkey", "huffman", "lzma", "sparse", "zlib+enc+fixkey", "bzip2+enc", "zlib@path"];
const SIZES: &[usize] = &[0, 5, 700, 40000];

fn norm(n: &str) -> String {
    n.replace('/', "\\").to_ascii_uppercase()
}

fn opt_to_options(opt: usize, replace: bool) -> AddFileOptions {
    let o = AddFileOptions::new().replace_existing(replace);
    match opt {
        0 => o.compression(CompressionMethod::Zlib),
        1 => o.compression(CompressionMethod::None),
        2 => o.compression(CompressionMethod::BZip2),
        3 => o.compression(CompressionMethod::Zlib).encrypt(),
        5 => o.compression(CompressionMethod::Huffman),
        6 => o.compression(CompressionMethod::Lzma),
        7 => o.compression(CompressionMethod::Sparse),
        8 => o.compression(CompressionMethod::Zlib).encrypt().fix_key(),
        9 => o.compression(CompressionMethod::BZip2).encrypt(),
        10 => o.compression(CompressionMethod::Zlib), // the bytes come from a file on disk (MutableArchive::add_file)
        _ => o.compression(CompressionMethod::None).fix_key(),
    }
}

/// Unique-id blob: every written value is distinguishable (a read identifies the write it observed).
fn blob(uid: u64, size: usize) -> Vec<u8> {
    let mut v = Vec::with_capacity(size);
    let tag = format!("<<uid:{uid:08}>>");
    while v.len() < size {
        v.extend_from_slice(tag.as_bytes());
        // a mildly compressible filler that still differs per uid
        let k = (uid as u8).wrapping_mul(31).wrapping_add(v.len() as u8);
        v.extend_from_slice(&[k, k, k, 0, 0, 0, (v.len() >> 8) as u8]);
    }
    v.truncate(size);
    v
}

struct Start {
    version: u8,
    listfile: bool,
    attrs: bool,
    /// bytes in front of the archive header (an archive embedded behind other data: archive_offset > 0)
    prefix: usize,
    /// where the block table stands (V1/V2; the header carries both table positions): 0 as the builder writes it (directly behind
    /// the hash table), 1 moved to the end of the file behind a gap, 2 in front of the hash table
    reloc: u8,
}

impl Start {
    fn class(&self) -> String {
        if self.reloc > 0 {
            format!("v{}|l{}|a{}|r{}", self.version, self.listfile as u8, self.attrs as u8, self.reloc)
        } else if self.prefix > 0 {
            format!("v{}|l{}|a{}|p{:x}", self.version, self.listfile as u8, self.attrs as u8, self.prefix)
        } else {
            format!("v{}|l{}|a{}", self.version, self.listfile as u8, self.attrs as u8)
        }
    }
}

/// The name pool: three names colliding in `hash & 15`, two case/slash variants of one name, one long path, one "(user)".
fn name_pool() -> Vec<String> {
    let base = "Dir\\File.txt".to_string();
    let target = hash_string(&base, 0) & 15;
    let mut coll = vec![];
    let mut i = 0;
    while coll.len() < 2 {
        let c = format!("coll\\n{i}.bin");
        if hash_string(&c, 0) & 15 == target {
            coll.push(c);
        }
        i += 1;
    }
    vec![base, coll[0].clone(), coll[1].clone(), "dir/FILE.TXT".to_string(), "World\\Maps\\Azeroth\\Some\\Long\\Path\\Azeroth_32_48.adt".to_string(), "(user)".to_string(), "other.dat".to_string(),
         // a name that is a substring of another name of the pool (listfile maintenance must compare whole lines)
         "File.txt".to_string()]
}

const SEED_FILES: &[(&str, usize, &str)] = &[("seed\\multi.bin", 9000, "zlib"), ("seed\\enc.bin", 300, "enc"), ("seed\\small.txt", 11, "none")];

fn build_start(st: &Start, path: &Path) -> Result<BTreeMap<String, Vec<u8>>, String> {
    let ver = match st.version {
        1 => FormatVersion::V1,
        2 => FormatVersion::V2,
        3 => FormatVersion::V3,
        _ => FormatVersion::V4,
    };
    let mut b = ArchiveBuilder::new().version(ver).block_size(3);
    b = b.listfile_option(if st.listfile { ListfileOption::Generate } else { ListfileOption::None });
    b = b.attributes_option(if st.attrs { AttributesOption::GenerateCrc32 } else { AttributesOption::None });
    let mut model = BTreeMap::new();
    for (i, (n, sz, kind)) in SEED_FILES.iter().enumerate() {
        let d = blob(900_000 + i as u64, *sz);
        b = match *kind {
            "enc" => b.add_file_data_with_encryption(d.clone(), n, 0x02, false, 0),
            "none" => b.add_file_data_with_options(d.clone(), n, 0, false, 0),
            _ => b.add_file_data_with_options(d.clone(), n, 0x02, false, 0),
        };
        model.insert(norm(n), d);
    }
    b.build(path).map_err(|e| e.to_string())?;
    if st.reloc > 0 && st.version <= 2 {
        let mut arc = std::fs::read(path).map_err(|e| e.to_string())?;
        let rd = |a: &[u8], o: usize| u32::from_le_bytes([a[o], a[o + 1], a[o + 2], a[o + 3]]) as usize;
        let (hpos, bpos, hn, bn) = (rd(&arc, 0x10), rd(&arc, 0x14), rd(&arc, 0x18), rd(&arc, 0x1C));
        let (hlen, blen) = (hn * 16, bn * 16);
        if bpos != hpos + hlen || bpos + blen > arc.len() {
            return Err(format!("builder layout is not hash table + block table back to back (hash {hpos}+{hlen}, block {bpos}+{blen}, file {})", arc.len()));
        }
        let btab = arc[bpos..bpos + blen].to_vec();
        let htab = arc[hpos..hpos + hlen].to_vec();
        if st.reloc == 1 {
            let gap: Vec<u8> = (0..64usize).map(|i| 0xC0 | (i as u8 & 0x0F)).collect();
            arc.extend_from_slice(&gap);
            let nb = arc.len();
            arc.extend_from_slice(&btab);
            let total = arc.len() as u32;
            arc[0x14..0x18].copy_from_slice(&(nb as u32).to_le_bytes());
            arc[0x08..0x0C].copy_from_slice(&total.to_le_bytes());
        } else {
            arc[hpos..hpos + blen].copy_from_slice(&btab);
            arc[hpos + blen..hpos + blen + hlen].copy_from_slice(&htab);
            arc[0x14..0x18].copy_from_slice(&(hpos as u32).to_le_bytes());
            arc[0x10..0x14].copy_from_slice(&((hpos + blen) as u32).to_le_bytes());
        }
        std::fs::write(path, &arc).map_err(|e| e.to_string())?;
        // the relocated archive must read like the builder's own (otherwise the start state is not what the model says)
        let mut a = Archive::open(path).map_err(|e| format!("relocated start archive does not open: {e}"))?;
        for (n, d) in &model {
            let got = a.read_file(n).map_err(|e| format!("relocated start archive: {n}: {e}"))?;
            if &got != d {
                return Err(format!("relocated start archive: {n} reads differently"));
            }
        }
    }
    if st.prefix > 0 {
        let arc = std::fs::read(path).map_err(|e| e.to_string())?;
        let mut out: Vec<u8> = (0..st.prefix).map(|i| 0x20 + (i % 89) as u8).collect();
        out.extend_from_slice(&arc);
        std::fs::write(path, out).map_err(|e| e.to_string())?;
    }
    Ok(model)
}

fn op_json(op: &Op, names: &[String]) -> Value {
    match op {
        Op::Add { name, size, opt, replace } => json!({"op":"add","name":names[*name],"size":SIZES[*size],"opt":OPTS[*opt],"replace":replace}),
        Op::Remove { name } => json!({"op":"remove","name":names[*name]}),
        Op::Rename { from, to } => json!({"op":"rename","from":names[*from],"to":names[*to]}),
        Op::Compact => json!({"op":"compact"}),
        Op::Flush => json!({"op":"flush"}),
        Op::Reopen => json!({"op":"reopen"}),
    }
}

fn op_kind(op: &Op) -> String {
    match op {
        Op::Add { opt, replace, .. } => format!("add[{}{}]", OPTS[*opt], if *replace { "" } else { ",noreplace" }),
        Op::Remove { .. } => "remove".into(),
        Op::Rename { .. } => "rename".into(),
        Op::Compact => "compact".into(),
        Op::Flush => "flush".into(),
        Op::Reopen => "reopen".into(),
    }
}

/// Features of a history used as structural trigger predicates in signatures.
#[derive(Default, Clone)]
struct Feat {
    adds_ok: usize,        // successful additions of new block entries since the start archive
    ops: BTreeSet<String>, // op kinds that returned Ok so far
    last_writer: BTreeMap<String, String>, // normalised name -> kind of the op that last defined its content/key
    // history-level structural trigger predicates ("taints"): once true, the archive may be damaged in ways that
    // are not attributable to a single name, so every later violation of this history carries the predicate
    v3plus_modified: bool,          // a mutating op succeeded on a V3/V4 archive
    compact_without_listfile: bool, // compact succeeded on an archive that has no (listfile)
    compact_on_stale_view: bool,    // compact succeeded in a session in which a name had come into being (add of a new name, rename)
    compact_after_replace: bool,    // compact succeeded in a session that had only replaced (and removed) files the view knows
    table_growth_over_slack: bool,  // block-table growth since build/compact exceeds the slack before appended data
    mutated_in_session: bool,
    /// what kinds of mutation the current session has seen (the stale-view finding depends on the kind)
    sess_add_new: bool,
    sess_replace: bool,
    sess_remove: bool,
    sess_rename: bool,
    appended_blocks: usize,
    slack_bytes: usize,
    /// number of operations of the history (short histories have no room for a second cause)
    hist_len: usize,
}

impl Feat {
    fn taint(&self) -> Option<&'static str> {
        if self.v3plus_modified {
            Some("v3plus-after-modification")
        } else if self.compact_without_listfile {
            Some("compact-without-listfile")
        } else if self.compact_on_stale_view {
            Some("compact-after-modification-in-session")
        } else if self.compact_after_replace {
            Some("compact-after-replace-in-session")
        } else if self.table_growth_over_slack {
            Some("block-table-growth-over-slack")
        } else {
            None
        }
    }
    /// name-level predicate: the content was last defined by renaming an encrypted file
    fn name_pred(&self, lw: &str) -> Option<&'static str> {
        if lw.starts_with("rename-of(") && (lw.contains("enc") || lw.contains("fixkey") || lw.contains("seed-enc")) {
            Some("rename-of-encrypted-file")
        } else {
            None
        }
    }
    fn sig(&self, family: &str, version: u8, lw: &str, tail: &str) -> String {
        // Under a taint the archive may be damaged in arbitrary ways, so the *kind* of symptom (open error, wrong bytes,
        // missing listing ...) is not a stable feature: one signature per trigger predicate.
        if let Some(t) = self.taint() {
            // the replace-only variant of the stale-view finding has one symptom (the file is back at the version the view
            // knows): there the symptom stays part of the signature, so that a different one is not swallowed
            // (in histories of up to four operations; in long random histories several predicates interact)
            if t == "compact-after-replace-in-session" && self.hist_len <= 4 {
                // (a name-level predicate - the file came from renaming an encrypted one - explains itself)
                match self.name_pred(lw) {
                    Some(p) => format!("after|{p}"),
                    None => format!("after|{t}|{family}|{}", tail.rsplit('|').next().unwrap_or("")),
                }
            } else {
                format!("after|{t}")
            }
        } else if let Some(p) = self.name_pred(lw) {
            format!("after|{p}")
        } else {
            format!("{family}|v{version}|last={lw}|{tail}")
        }
    }
}

fn reopen_check(c: &mut Case, path: &Path, st: &Start, model: &BTreeMap<String, Vec<u8>>, ever: &BTreeSet<String>, feat: &Feat, when: &str) {
    c.count("reopen_checks", 1);
    let ops_sig = |feat: &Feat| -> String {
        let mut k: Vec<&str> = vec![];
        for (tag, pat) in [("add", "add["), ("remove", "remove"), ("rename", "rename"), ("compact", "compact")] {
            if feat.ops.iter().any(|o| o.starts_with(pat)) {
                k.push(tag);
            }
        }
        k.join("+")
    };
    let mut ar = match trap(|| Archive::open(path)) {
        Ok(Ok(a)) => a,
        Ok(Err(e)) => {
            c.violate(feat.sig("reopen-open-failed", st.version, "-", &format!("ops={}|{}", ops_sig(feat), err_key(&e.to_string()))), format!("Archive::open failed after the history ({when}): {e}"), json!({"start": st.class()}));
            return;
        }
        Err(p) => {
            c.violate(feat.sig("reopen-open-panic", st.version, "-", &p.sig()), format!("Archive::open panicked after the history: {}", p.msg), json!({}));
            return;
        }
    };
    for (n, want) in model {
        c.count("reopen_reads", 1);
        let lw = feat.last_writer.get(n).cloned().unwrap_or_else(|| if n == "SEED\\ENC.BIN" { "seed-enc".to_string() } else { "seed".to_string() });
        match trap(|| ar.read_file(n)) {
            Err(p) => c.violate(feat.sig("reopen-read-panic", st.version, &lw, &p.sig()), format!("read_file({:?}) panicked after reopen: {}", n, p.msg), json!({})),
            Ok(Err(e)) => c.violate(
                feat.sig("reopen-read-error", st.version, &lw, &format!("ops={}|{}", ops_sig(feat), if e.to_string().contains("not found") { "not-found" } else { "other" })),
                format!("after reopen ({when}) read_file({:?}) fails: {e}; the model holds {} bytes (last defined by {lw})", n, want.len()),
                json!({"name": n, "want": brief(want)}),
            ),
            Ok(Ok(got)) => {
                if &got != want {
                    let fd = first_diff(&got, want);
                    let shape = if got.len() != want.len() { "len" } else { "bytes" };
                    c.violate(
                        feat.sig("reopen-content", st.version, &lw, &format!("ops={}|{shape}", ops_sig(feat))),
                        format!("after reopen ({when}) read_file({:?}) returns {} bytes, model has {}; first difference at {fd} (last defined by {lw})", n, got.len(), want.len()),
                        json!({"name": n, "want": brief(want), "got": brief(&got)}),
                    );
                }
            }
        }
    }
    for n in ever {
        if model.contains_key(n) {
            continue;
        }
        c.count("reopen_absent_checks", 1);
        match trap(|| ar.read_file(n)) {
            Ok(Ok(d)) => c.violate(feat.sig("reopen-removed-name-readable", st.version, "-", &format!("ops={}", ops_sig(feat))), format!("after reopen ({when}) {:?} is readable ({} bytes) although the model does not contain it", n, d.len()), json!({"name": n})),
            Ok(Err(_)) => {}
            Err(p) => c.violate(feat.sig("reopen-read-panic", st.version, "absent", &p.sig()), format!("read_file({:?}) panicked: {}", n, p.msg), json!({})),
        }
    }
    if st.listfile {
        match trap(|| ar.list()) {
            Ok(Ok(l)) => {
                let got: BTreeSet<String> = l.iter().map(|e| norm(&e.name)).collect();
                for n in model.keys() {
                    c.count("reopen_list_checks", 1);
                    if !got.contains(n) {
                        c.violate(feat.sig("reopen-list-missing", st.version, "-", &format!("ops={}", ops_sig(feat))), format!("after reopen ({when}) list() lacks {:?} which the model contains", n), json!({"listed": got.iter().take(12).collect::<Vec<_>>()}));
                        break;
                    }
                }
            }
            Ok(Err(e)) => c.violate(feat.sig("reopen-list-error", st.version, "-", &format!("ops={}", ops_sig(feat))), format!("list() fails after reopen: {e}"), json!({})),
            Err(p) => c.violate(feat.sig("reopen-list-panic", st.version, "-", &p.sig()), format!("list() panicked: {}", p.msg), json!({})),
        }
    }
}

/// Bytes between the end of the tables and the next 512-byte boundary where appended data starts: the block table
/// is rewritten in place, so it can grow by this much before it runs into appended file data.
fn measure_slack(path: &Path) -> usize {
    match trap(|| Archive::open(path)).unwrap_or_else(|_| Err(wow_mpq::Error::invalid_format("panic"))) {
        Ok(a) => {
            let h = a.header();
            let bend = a.archive_offset() + h.get_block_table_pos() + h.block_table_size as u64 * 16;
            let hpos = a.archive_offset() + h.get_hash_table_pos();
            if hpos >= bend {
                // the hash table stands behind the block table: that is what the growing block table runs into first
                return (hpos - bend) as usize;
            }
            let end = bend.max(hpos + h.hash_table_size as u64 * 16);
            ((512 - (end % 512)) % 512) as usize
        }
        Err(_) => 0,
    }
}

fn err_key(msg: &str) -> String {
    // stable part of an error message: letters only, first 40 chars, digits collapsed
    let mut out = String::new();
    for ch in msg.chars() {
        if out.len() >= 48 {
            break;
        }
        if ch.is_ascii_digit() {
            if !out.ends_with('N') {
                out.push('N');
            }
        } else if ch == '\\' || ch == '"' || ch == '\'' {
        } else {
            out.push(ch);
        }
    }
    out
}

fn run_history(c: &mut Case, st: &Start, ops: &[Op], names: &[String], dir: &Path, idx: u64) {
    let path: PathBuf = dir.join(format!("c06-{idx}.mpq"));
    let _ = std::fs::remove_file(&path);
    let mut model = match build_start(st, &path) {
        Ok(m) => m,
        Err(e) => {
            c.inconclusive(format!("could not build the starting archive: {e}"));
            return;
        }
    };
    let mut ever: BTreeSet<String> = model.keys().cloned().collect();
    let mut feat = Feat::default();
    feat.slack_bytes = measure_slack(&path);
    feat.hist_len = ops.len();
    let mut uid = idx * 1000;
    let mut ma = match MutableArchive::open(&path) {
        Ok(m) => Some(m),
        Err(e) => {
            c.violate(format!("mutable-open-failed|v{}", st.version), format!("MutableArchive::open failed on a fresh builder archive: {e}"), json!({}));
            return;
        }
    };
    for (k, op) in ops.iter().enumerate() {
        c.count("ops", 1);
        c.count(&format!("op|{}", op_kind(op).split('[').next().unwrap_or("?")), 1);
        if let Op::Reopen = op {
            // closing flushes (Drop); a panic in there must not escape un-attributed
            if let Err(p) = trap(|| drop(ma.take())) {
                c.violate(feat.sig("close-panic", st.version, "-", &p.sig()), format!("dropping the MutableArchive (flush on drop) panicked after op {k}: {}", p.msg), json!({}));
                return;
            }
            reopen_check(c, &path, st, &model, &ever, &feat, &format!("after op {k}"));
            if !c.viol.is_empty() {
                break;
            }
            feat.mutated_in_session = false;
            (feat.sess_add_new, feat.sess_replace, feat.sess_remove, feat.sess_rename) = (false, false, false, false);
            let reopened = match trap(|| MutableArchive::open(&path)) {
                Ok(r) => r,
                Err(p) => {
                    c.violate(feat.sig("mutable-open-panic", st.version, "-", &p.sig()), format!("MutableArchive::open panicked after op {k}: {}", p.msg), json!({}));
                    return;
                }
            };
            match reopened {
                Ok(m) => ma = Some(m),
                Err(e) => {
                    c.violate(feat.sig("mutable-open-failed-after-history", st.version, "-", &err_key(&e.to_string())), format!("MutableArchive::open failed after op {k}: {e}"), json!({}));
                    return;
                }
            }
            continue;
        }
        let m = ma.as_mut().unwrap();
        let kind = op_kind(op);
        // snapshot so a failed op can be checked against "map unchanged" by reopening a copy
        let res: Result<Result<(), wow_mpq::Error>, vh_common::PanicInfo> = match op {
            Op::Add { name, size, opt, replace } => {
                uid += 1;
                let data = blob(uid, SIZES[*size]);
                let n = names[*name].clone();
                let r = if OPTS[*opt].ends_with("@path") {
                    let src = dir.join(format!("src-{uid}.bin"));
                    if std::fs::write(&src, &data).is_err() {
                        c.inconclusive("could not write a source file into the scratch directory");
                        return;
                    }
                    c.count("adds_from_path", 1);
                    let r = trap(|| m.add_file(&src, &n, opt_to_options(*opt, *replace)));
                    let _ = std::fs::remove_file(&src);
                    r
                } else {
                    trap(|| m.add_file_data(&data, &n, opt_to_options(*opt, *replace)))
                };
                if let Ok(Ok(())) = &r {
                    let key = norm(&n);
                    let existed = model.contains_key(&key);
                    if existed && !*replace {
                        c.count("unexpected_ok|add-noreplace-on-existing", 1);
                        // a plain map leaves the old value; the state comparison decides
                    } else {
                        if existed { feat.sess_replace = true } else { feat.sess_add_new = true }
                        model.insert(key.clone(), data);
                        feat.last_writer.insert(key.clone(), kind.clone());
                        feat.adds_ok += 1;
                    }
                    ever.insert(key);
                }
                r
            }
            Op::Remove { name } => {
                let n = names[*name].clone();
                let r = trap(|| m.remove_file(&n));
                if let Ok(Ok(())) = &r {
                    if model.remove(&norm(&n)).is_none() {
                        c.count("unexpected_ok|remove-absent", 1);
                    }
                    feat.sess_remove = true;
                }
                r
            }
            Op::Rename { from, to } => {
                let (f, t) = (names[*from].clone(), names[*to].clone());
                let r = trap(|| m.rename_file(&f, &t));
                if let Ok(Ok(())) = &r {
                    let (kf, kt) = (norm(&f), norm(&t));
                    if !model.contains_key(&kf) {
                        c.count("unexpected_ok|rename-absent-source", 1);
                    } else if model.contains_key(&kt) {
                        c.count("unexpected_ok|rename-onto-existing", 1);
                    } else {
                        feat.sess_rename = true;
                        let v = model.remove(&kf).unwrap();
                        let lw = feat.last_writer.remove(&kf).unwrap_or_else(|| if kf == "SEED\\ENC.BIN" { "seed-enc".into() } else { "seed".into() });
                        model.insert(kt.clone(), v);
                        feat.last_writer.insert(kt.clone(), format!("rename-of({lw})"));
                        ever.insert(kt);
                    }
                }
                r
            }
            Op::Compact => trap(|| m.compact()),
            Op::Flush => trap(|| m.flush()),
            Op::Reopen => unreachable!(),
        };
        match res {
            Err(p) => {
                let sig = if p.msg.contains("VERIF-NONTERMINATION") { format!("op-does-not-terminate|{}|adds>={}", kind.split('[').next().unwrap_or("?"), if feat.adds_ok >= 8 { "8" } else { "0" }) } else { format!("op-panic|{}|{}", kind.split('[').next().unwrap_or("?"), p.sig()) };
                c.violate(sig, format!("op {k} ({kind}) panicked: {}", p.msg), json!({"op_index": k}));
                // the archive object may be in any state; stop this history
                std::mem::forget(ma.take());
                let _ = std::fs::remove_file(&path);
                return;
            }
            Ok(Err(e)) => {
                c.count(&format!("op_err|{}", kind.split('[').next().unwrap_or("?")), 1);
                // model unchanged. But a refused addition may already have appended its data and block entry before the
                // refusal (hash table full): the block table still grows, which feeds the growth-over-slack predicate.
                if let Op::Add { .. } = op {
                    if !matches!(e, wow_mpq::Error::FileExists(_)) {
                        feat.appended_blocks += 1;
                        if feat.appended_blocks * 16 > feat.slack_bytes {
                            feat.table_growth_over_slack = true;
                        }
                    }
                }
            }
            Ok(Ok(())) => {
                feat.ops.insert(kind.clone());
                c.count("ops_ok", 1);
                let mutating = matches!(op, Op::Add { .. } | Op::Remove { .. } | Op::Rename { .. });
                if mutating && st.version >= 3 {
                    feat.v3plus_modified = true;
                }
                if let Op::Compact = op {
                    if !st.listfile {
                        feat.compact_without_listfile = true;
                    }
                    // the known finding: compact enumerates through the read-only view opened with the session, which does not
                    // know names that came into being in this session (added, or renamed to). Replacing or removing a file that
                    // the view knows is judged strictly.
                    if std::env::var("C06_STALE_ALL").is_ok() && feat.mutated_in_session {
                        feat.compact_on_stale_view = true;
                    }
                    if feat.sess_add_new || feat.sess_rename {
                        feat.compact_on_stale_view = true;
                    } else if feat.sess_replace {
                        feat.compact_after_replace = true;
                    }
                    c.count(&format!("compact_in_session|add_new={}|replace={}|remove={}|rename={}", feat.sess_add_new as u8, feat.sess_replace as u8, feat.sess_remove as u8, feat.sess_rename as u8), 1);
                    // compaction rebuilds the archive: growth restarts, slack is re-measured
                    feat.appended_blocks = 0;
                    feat.slack_bytes = measure_slack(&path);
                    feat.mutated_in_session = false;
                }
                if mutating {
                    feat.mutated_in_session = true;
                }
                if let Op::Add { .. } = op {
                    // every successful add appends one block entry (replacing a user file orphans the old one)
                    feat.appended_blocks += 1;
                    if feat.appended_blocks * 16 > feat.slack_bytes {
                        feat.table_growth_over_slack = true;
                    }
                }
            }
        }
        // read-your-writes through the mutable handle: NOT part of the statement (which speaks of the state after
        // close + reopen); observed and counted only
        if k + 1 == ops.len() || matches!(ops.get(k + 1), Some(Op::Reopen)) {
            let m = ma.as_mut().unwrap();
            for (n, want) in &model {
                c.count("ryw_reads", 1);
                match trap(|| m.read_file(n)) {
                    Ok(Ok(got)) if &got == want => c.count("ryw_agree", 1),
                    Ok(Ok(_)) => c.count("ryw_stale_or_wrong", 1),
                    Ok(Err(_)) => c.count("ryw_error", 1),
                    Err(_) => c.count("ryw_panic", 1),
                }
            }
        }
    }
    // end of history: drop (flush on drop) and reopen
    if let Err(p) = trap(|| drop(ma.take())) {
        c.violate(feat.sig("close-panic", st.version, "-", &p.sig()), format!("dropping the MutableArchive (flush on drop) panicked at the end of the history: {}", p.msg), json!({}));
        return;
    }
    reopen_check(c, &path, st, &model, &ever, &feat, "at end of history");
    let _ = std::fs::remove_file(&path);
}

fn alphabet(n_names: usize, opts: &[usize], sizes: &[usize]) -> Vec<Op> {
    let mut a = vec![];
    for name in 0..n_names {
        for &opt in opts {
            for &size in sizes {
                a.push(Op::Add { name, size, opt, replace: true });
            }
        }
        a.push(Op::Add { name, size: 1, opt: 0, replace: false });
        a.push(Op::Add { name, size: 2, opt: 5, replace: true });
        a.push(Op::Remove { name });
        for to in 0..n_names {
            if to != name {
                a.push(Op::Rename { from: name, to });
            }
        }
    }
    a.push(Op::Compact);
    a.push(Op::Flush);
    a.push(Op::Reopen);
    a
}

fn random_op(rng: &mut Rng, n_names: usize) -> Op {
    match rng.below(100) {
        0..=54 => Op::Add { name: rng.usize(n_names), size: rng.usize(SIZES.len()), opt: rng.usize(OPTS.len()), replace: rng.chance(4, 5) },
        55..=69 => Op::Remove { name: rng.usize(n_names) },
        70..=81 => Op::Rename { from: rng.usize(n_names), to: rng.usize(n_names) },
        82..=85 => Op::Compact,
        86..=91 => Op::Flush,
        _ => Op::Reopen,
    }
}

fn main() {
    let mut run = Run::new();
    let thorough = run.args.thorough();
    let names = name_pool();
    let dir = PathBuf::from(&run.args.scratch);
    let mut idx = 0u64;
    // ---- part 1: seed files of every starting archive reopen unchanged with an empty history, and with each single op
    let starts: Vec<Start> = {
        let mut v = vec![];
        for version in 1..=4u8 {
            for listfile in [true, false] {
                for attrs in [false, true] {
                    v.push(Start { version, listfile, attrs, prefix: 0, reloc: 0 });
                }
            }
        }
        v
    };
    // names used for the exhaustive part: base, one collider, the case/slash variant, and a seed file name
    let mut ex_names: Vec<String> = vec![names[0].clone(), names[1].clone(), names[3].clone(), "seed\\enc.bin".to_string(), "seed\\multi.bin".to_string(), names[7].clone()];
    let alpha = alphabet(ex_names.len(), &[0, 1, 3, 4], &[1, 3]);
    run.extra("alphabet_size", json!(alpha.len()));
    // length-1 histories on all 16 starting archives
    for st in &starts {
        for (ai, a) in alpha.iter().enumerate() {
            let i = idx;
            idx += 1;
            if !run.want(i) {
                continue;
            }
            let ops = vec![a.clone()];
            let desc = json!({"start": st.class(), "history": ops.iter().map(|o| op_json(o, &ex_names)).collect::<Vec<_>>()});
            run.case(i, &format!("len1|{}|{}", st.class(), op_kind(a)), desc, |c| run_history(c, st, &ops, &ex_names, &dir, i));
            let _ = ai;
        }
    }
    // the same single operations on archives whose block table does not stand directly behind the hash table
    for version in [1u8, 2] {
        for reloc in [1u8, 2] {
            let st = Start { version, listfile: true, attrs: reloc == 2 && version == 2, prefix: 0, reloc };
            for a in alpha.iter() {
                let i = idx;
                idx += 1;
                if !run.want(i) {
                    continue;
                }
                let ops = vec![a.clone(), Op::Reopen, a.clone()];
                let desc = json!({"start": st.class(), "history": ops.iter().map(|o| op_json(o, &ex_names)).collect::<Vec<_>>()});
                run.case(i, &format!("len1-relocated|{}|{}", st.class(), op_kind(a)), desc, |c| run_history(c, &st, &ops, &ex_names, &dir, i));
            }
        }
    }
    // length-2 histories: quick on V1 and V4 (listfile, no attrs); thorough on all four versions, + length 3 sampled
    let l2_starts: Vec<Start> = if thorough { (1..=4).map(|v| Start { version: v, listfile: true, attrs: false, prefix: 0, reloc: 0 }).chain([Start { version: 1, listfile: false, attrs: true, prefix: 0, reloc: 0 }, Start { version: 4, listfile: true, attrs: true, prefix: 0, reloc: 0 }]).collect() } else { vec![Start { version: 1, listfile: true, attrs: false, prefix: 0, reloc: 0 }, Start { version: 4, listfile: true, attrs: false, prefix: 0, reloc: 0 }] };
    for st in &l2_starts {
        for a in &alpha {
            for b in &alpha {
                let i = idx;
                idx += 1;
                if !run.want(i) {
                    continue;
                }
                // quick: every second pair per seed parity to stay in budget? no — all pairs are cheap enough
                let ops = vec![a.clone(), b.clone()];
                let desc = json!({"start": st.class(), "history": ops.iter().map(|o| op_json(o, &ex_names)).collect::<Vec<_>>()});
                run.case(i, &format!("len2|{}|{}>{}", st.class(), op_kind(a), op_kind(b)), desc, |c| run_history(c, st, &ops, &ex_names, &dir, i));
            }
        }
    }
    if thorough {
        // length 3, sampled
        let n3 = 300000u64;
        for k in 0..n3 {
            let i = idx;
            idx += 1;
            if !run.want(i) {
                continue;
            }
            let mut rng = run.rng(i, 3);
            let st = &l2_starts[rng.usize(l2_starts.len())];
            let ops: Vec<Op> = (0..3).map(|_| alpha[rng.usize(alpha.len())].clone()).collect();
            let desc = json!({"start": st.class(), "history": ops.iter().map(|o| op_json(o, &ex_names)).collect::<Vec<_>>()});
            run.case(i, &format!("len3|{}|{}>{}>{}", st.class(), op_kind(&ops[0]), op_kind(&ops[1]), op_kind(&ops[2])), desc, |c| run_history(c, st, &ops, &ex_names, &dir, i));
            let _ = k;
        }
    }
    // ---- part 1b: several sessions on an archive behind a prefix: every session appends behind what earlier sessions wrote
    for prefix in [0x200usize, 0x400, 0x1000] {
        for version in [1u8, 2] {
            for (hi, sizes) in [[2usize, 2, 1], [3, 2, 2], [1, 3, 3], [2, 1, 3]].iter().enumerate() {
                for opt in [0usize, 1, 3] {
                    let i = idx;
                    idx += 1;
                    if !run.want(i) {
                        continue;
                    }
                    let st = Start { version, listfile: true, attrs: false, prefix, reloc: 0 };
                    let mut ops = vec![];
                    for (n, sz) in sizes.iter().enumerate() {
                        ops.push(Op::Add { name: n, size: *sz, opt, replace: true });
                        ops.push(Op::Reopen);
                    }
                    ops.push(Op::Add { name: 1, size: sizes[0], opt: 0, replace: true });
                    let desc = json!({"start": st.class(), "history": ops.iter().map(|o| op_json(o, &ex_names)).collect::<Vec<_>>()});
                    run.case(i, &format!("sessions|{}|h{hi}|{}", st.class(), OPTS[opt]), desc, |c| run_history(c, &st, &ops, &ex_names, &dir, i));
                }
            }
        }
    }
    // ---- part 2: long random histories over the full name pool (more additions than free hash slots, table growth)
    ex_names = names.clone();
    ex_names.push("seed\\enc.bin".into());
    ex_names.push("seed\\multi.bin".into());
    // extra names so that more than 16 distinct names can be added
    for k in 0..24 {
        ex_names.push(format!("bulk\\file{k:02}.dat"));
    }
    let nrand = if thorough { 40000 } else { 2000 };
    for k in 0..nrand {
        let i = idx;
        idx += 1;
        if !run.want(i) {
            continue;
        }
        let mut rng = run.rng(i, 7);
        let st0 = &starts[rng.usize(starts.len())];
        // every fourth history works on an archive that sits behind a prefix (V1/V2: the classic-table writer)
        let st_pref;
        let st_rel;
        let st = if k % 8 == 5 {
            st_rel = Start { version: 1 + (k / 8 % 2) as u8, listfile: st0.listfile, attrs: st0.attrs, prefix: 0, reloc: 1 + (k / 16 % 2) as u8 };
            &st_rel
        } else if k % 4 == 3 {
            st_pref = Start { version: 1 + (k / 4 % 2) as u8, listfile: st0.listfile, attrs: st0.attrs, prefix: [0x200usize, 0x400, 0x1000][(k / 8 % 3) as usize], reloc: 0 };
            &st_pref
        } else {
            st0
        };
        let len = if thorough { 20 + rng.usize(100) } else { 20 + rng.usize(40) };
        let nn = if k % 3 == 0 { ex_names.len() } else { 9 };
        let ops: Vec<Op> = (0..len).map(|_| random_op(&mut rng, nn)).collect();
        let desc = json!({"start": st.class(), "history": ops.iter().map(|o| op_json(o, &ex_names)).collect::<Vec<_>>()});
        let lenclass = if len < 40 { "short" } else if len < 80 { "mid" } else { "long" };
        run.case(i, &format!("random|{}|{}|names{}", st.class(), lenclass, nn), desc, |c| run_history(c, st, &ops, &ex_names, &dir, i));
    }
    run.done();
}
