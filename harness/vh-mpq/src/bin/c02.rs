//! C02 — interoperability with an independent MPQ implementation (lib/refmpq.py).
//! --mode write: build archives over the published-format subset and leave them, with a manifest, in --dir
//!               (the Python side then opens and extracts them with the reference reader).
//! --mode read : open the archives the reference writer left in --dir and compare every name/spelling.

use serde_json::{Value, json};
use vh_common::{Rng, Run, brief, first_diff, trap};
use vh_mpq::cfggen::*;
use wow_mpq::Archive;

fn subset_axes() -> Vec<Vec<u32>> {
    vec![
        vec![1, 2],                // version
        vec![0, 1, 3, 5],          // shift
        vec![0x00, 0x02, 0x10],    // none, zlib, bzip2
        vec![0, 1, 2],             // plain, encrypted, encrypted+fixkey
        vec![0],                   // no sector CRC
        vec![0],                   // no attributes
        vec![1, 0],                // listfile
        vec![0],
    ]
}

const LOCALES: [u16; 2] = [0x409, 0x407];

fn main() {
    let mut run = Run::new();
    let thorough = run.args.thorough();
    let mode = run.args.get("mode").unwrap_or("write").to_string();
    let dir = std::path::PathBuf::from(run.args.get("dir").unwrap_or("."));
    if mode == "write" {
        let ax = subset_axes();
        // full product of the small subset: 2*4*3*3*2 = 144 configurations, repeated with different file sets
        let mut points: Vec<Vec<u32>> = Vec::new();
        let reps = if thorough { 10 } else { 1 };
        for _ in 0..reps {
            for v in &ax[0] { for s in &ax[1] { for m in &ax[2] { for e in &ax[3] { for l in &ax[6] {
                points.push(vec![*v, *s, *m, *e, 0, 0, *l, 0]);
            }}}}}
        }
        // sectors of 512 KiB (shift 10): an encrypted unit longer than 64 Ki dwords, one key stream through all of it
        for v in [1u32, 2] { for m in [0u32, 0x02] { for e in [1u32, 2] {
            points.push(vec![v, 10, m, e, 0, 0, 1, 0]);
        }}}
        for (i, p) in points.iter().enumerate() {
            let idx = i as u64;
            if !run.want(idx) {
                continue;
            }
            // quick: the 144-configuration product once (thorough: repeated with other file sets)
            let _ = thorough; // (quick ran half of the product until round 4; the whole product costs 3 s)
            let cfg = cfg_from_point(p);
            let mut rng = run.rng(idx, 0);
            let mut files = gen_fileset(&mut rng, cfg.sector_size(), 1 << 20);
            // stored lengths mod 4 in {1,2,3} under encryption: add odd sizes of incompressible data
            for (k, extra) in [cfg.sector_size() + 2, cfg.sector_size() + 3, 2 * cfg.sector_size() + 1, 6, 7].iter().enumerate() {
                let data = rng.bytes(*extra);
                files.push(FileSpec { name: format!("tail\\odd{k}.bin"), class: "random", data });
            }
            // files at the compressor's break-even point: the writer's "store raw unless it shrinks" decision must agree with
            // every reader's "stored size == size means raw" rule (whole small file, and as the tail sector of a larger file)
            for (k, d) in vh_mpq::cfggen::break_even_contents(&mut rng, cfg.method).into_iter().enumerate() {
                if k % 2 == 0 && d.len() < cfg.sector_size() {
                    let mut big = rng.bytes(cfg.sector_size());
                    big.extend_from_slice(&d);
                    files.push(FileSpec { name: format!("breakeven\\tail{k}.bin"), class: "break-even", data: big });
                }
                files.push(FileSpec { name: format!("breakeven\\whole{k}.bin"), class: "break-even", data: d });
            }
            if cfg.shift >= 10 {
                let n = 270_000 + rng.usize(200_000);
                let mut data = rng.bytes(n);
                files.push(FileSpec { name: format!("big\\unit{idx}.bin"), class: "random", data: data.clone() });
                // and one that compresses a little (text with random stretches): stored compressed, still longer than 256 KiB
                let t = vh_common::gen_content(&mut rng, "text", n);
                for (k, b) in data.iter_mut().enumerate() {
                    if (k / 4096) % 8 == 0 {
                        *b = t[k];
                    }
                }
                files.push(FileSpec { name: format!("big\\mixed{idx}.bin"), class: "random", data });
            }
            // a file without any directory component (key derivation from the plain name)
            files.push(FileSpec { name: format!("plain{idx}.txt"), class: "text", data: vh_common::gen_content(&mut rng, "text", 700) });
            let path = dir.join(format!("a-{idx}.mpq"));
            let desc = json!({"cfg": cfg.to_json(), "nfiles": files.len()});
            run.case(idx, &cfg.class(), desc, |c| {
                // the last two files carry a language id (hash-entry locale field); everything else is neutral
                let nl = files.len().saturating_sub(2);
                let mut b = add_files(cfg.builder(), &cfg, &files[..nl]);
                for (k, f) in files[nl..].iter().enumerate() {
                    let loc = LOCALES[k % LOCALES.len()];
                    b = match cfg.enc {
                        0 => b.add_file_data_with_options(f.data.clone(), &f.name, cfg.method, false, loc),
                        1 => b.add_file_data_with_encryption(f.data.clone(), &f.name, cfg.method, false, loc),
                        _ => b.add_file_data_with_encryption(f.data.clone(), &f.name, cfg.method, true, loc),
                    };
                }
                match trap(|| b.build(&path)) {
                    Err(p) => c.violate(format!("build-panic|{}", p.sig()), format!("build panicked: {}", p.msg), cfg.to_json()),
                    Ok(Err(e)) => {
                        c.count("build_err", 1);
                        c.nontrivial = false;
                        c.note(json!({"build_err": e.to_string()}));
                    }
                    Ok(Ok(())) => {
                        c.count("archives_written", 1);
                        // what the library itself reads as header (compared field by field with the reference parse)
                        let hdr = match Archive::open(&path) {
                            Ok(a) => {
                                let h = a.header();
                                json!({"header_size": h.header_size, "archive_size": h.archive_size, "version": h.format_version as u16, "shift": h.block_size,
                                       "hash_pos": h.get_hash_table_pos(), "block_pos": h.get_block_table_pos(), "hash_size": h.hash_table_size, "block_size": h.block_table_size,
                                       "archive_offset": a.archive_offset()})
                            }
                            Err(e) => json!({"open_err": e.to_string()}),
                        };
                        let mut fl: Vec<Value> = Vec::new();
                        for (k, f) in files.iter().enumerate() {
                            let fp = dir.join(format!("a-{idx}.f{k}"));
                            let _ = std::fs::write(&fp, &f.data);
                            let loc = if k >= nl { LOCALES[(k - nl) % LOCALES.len()] } else { 0 };
                            fl.push(json!({"name": f.name, "len": f.data.len(), "class": f.class, "content": fp.to_string_lossy(), "locale": loc}));
                        }
                        let man = json!({"idx": idx, "cfg": cfg.to_json(), "class": cfg.class(), "enc": cfg.enc, "method": cfg.method, "sector": cfg.sector_size(), "listfile": cfg.listfile, "header": hdr, "files": fl, "archive": path.to_string_lossy()});
                        let _ = std::fs::write(dir.join(format!("a-{idx}.json")), man.to_string());
                    }
                }
            });
        }
    } else {
        // read mode: manifests b-<k>.json written by the reference writer
        let mut mans: Vec<std::path::PathBuf> = std::fs::read_dir(&dir).map(|d| d.filter_map(|e| e.ok()).map(|e| e.path()).filter(|p| p.file_name().map(|n| n.to_string_lossy().starts_with("b-") && n.to_string_lossy().ends_with(".json")).unwrap_or(false)).collect()).unwrap_or_default();
        mans.sort();
        for mp in mans {
            let Ok(txt) = std::fs::read_to_string(&mp) else { continue };
            let Ok(man) = serde_json::from_str::<Value>(&txt) else { continue };
            let idx = man["idx"].as_u64().unwrap_or(0);
            if !run.want(idx) {
                continue;
            }
            let class = man["class"].as_str().unwrap_or("?").to_string();
            let mut rng = Rng::for_case(run.args.seed, idx, 9);
            run.case(idx, &class, json!({"manifest": mp.to_string_lossy(), "opts": man["opts"]}), |c| {
                let apath = man["archive"].as_str().unwrap_or("");
                let mut ar = match Archive::open(apath) {
                    Ok(a) => a,
                    Err(e) => {
                        c.violate(format!("ref-archive-open-failed|{}", man["shape"].as_str().unwrap_or("?")), format!("Archive::open failed on a reference-written archive: {e}"), man["opts"].clone());
                        return;
                    }
                };
                c.count("archives_opened", 1);
                let files = man["files"].as_array().cloned().unwrap_or_default();
                // Pass 1 — probes. A file whose trigger predicate is set (see fclass) is expected to come out wrong if the known
                // deviation is present, and wrong-key garbage fed to a decompressor can do anything (error, panic, even spin in a
                // dependency). So for each predicate combination first read one file that is stored raw (no decompressor involved).
                // If the probe is wrong, the combination is recorded once as violation and its compressed members are skipped
                // (counted); if the probe is right (deviation repaired), every member is read and compared strictly.
                let mut deviating: std::collections::BTreeSet<String> = Default::default();
                let mut probed: std::collections::BTreeSet<String> = Default::default();
                for f in &files {
                    let fclass = f["fclass"].as_str().unwrap_or("?").to_string();
                    if fclass == "keypath=0|tail=0|sectored-raw=0" || !f["stored_raw"].as_bool().unwrap_or(false) || probed.contains(&fclass) {
                        continue;
                    }
                    let name = f["name"].as_str().unwrap_or("");
                    let want = std::fs::read(f["content"].as_str().unwrap_or("")).unwrap_or_default();
                    probed.insert(fclass.clone());
                    c.count("b_probes", 1);
                    let ok = matches!(trap(|| ar.read_file(name)), Ok(Ok(ref got)) if *got == want);
                    if !ok {
                        deviating.insert(fclass.clone());
                        c.violate(format!("B|unreadable-or-wrong|{fclass}"), format!("read_file({:?}) on a reference-written archive does not return the stored content (raw-stored probe for this predicate combination)", name), json!({"file": f, "opts": man["opts"]}));
                    }
                }
                for f in &files {
                    let name = f["name"].as_str().unwrap_or("");
                    let want = std::fs::read(f["content"].as_str().unwrap_or("")).unwrap_or_default();
                    let fclass = f["fclass"].as_str().unwrap_or("?");
                    let clean = fclass == "keypath=0|tail=0|sectored-raw=0";
                    // wrong-key garbage (keypath deviation present, or unprobed) must not reach a decompressor; a tail-only
                    // deviation corrupts at most the last three bytes of a unit, which decoders survive (often unnoticed, because
                    // it lands in an unchecked stream trailer — so outcomes under tail=1 legitimately vary per file)
                    let keypath = fclass.starts_with("keypath=1");
                    let raw = f["stored_raw"].as_bool().unwrap_or(false);
                    if !clean && keypath && !raw && (deviating.contains(fclass) || !probed.contains(fclass)) {
                        c.count(if deviating.contains(fclass) { "b_files_skipped_under_known_deviation" } else { "b_files_skipped_no_probe" }, 1);
                        continue;
                    }
                    let mut sp = spellings(name);
                    if sp.len() > 2 {
                        // as given + one random other spelling (keeps the run short)
                        let a = 1 + rng.usize(sp.len() - 1);
                        let keep = vec![sp[0].clone(), sp[a].clone()];
                        sp = keep;
                    }
                    for (s, spk) in sp {
                        c.count("files_compared", 1);
                        let dev_sig = format!("B|unreadable-or-wrong|{fclass}");
                        match trap(|| ar.read_file(&s)) {
                            Err(p) => c.violate(if clean { format!("B|ref-read-panic|conformant-file|{}", p.sig()) } else { dev_sig }, format!("read_file({:?}) panicked on a reference-written archive: {}", s, p.msg), f.clone()),
                            Ok(Err(e)) => c.violate(if clean { format!("B|ref-read-error|conformant-file|{spk}") } else { dev_sig }, format!("read_file({:?}) failed on a reference-written archive: {e}", s), json!({"file": f, "opts": man["opts"]})),
                            Ok(Ok(got)) => {
                                if got != want {
                                    let fd = first_diff(&got, &want);
                                    let where_ = if got.len() != want.len() { "len".to_string() } else if want.len() - fd <= 3 { "tail<=3".to_string() } else if fd == 0 { "from-start".to_string() } else { "middle".to_string() };
                                    c.violate(if clean { format!("B|ref-content-mismatch|conformant-file|{where_}") } else { dev_sig }, format!("read_file({:?}) on a reference-written archive returned {} bytes, expected {}; first difference at {fd}", s, got.len(), want.len()), json!({"file": f, "opts": man["opts"], "got": brief(&got), "want": brief(&want)}));
                                } else {
                                    c.count(if clean { "b_files_conformant_ok" } else { "b_files_predicate_ok" }, 1);
                                }
                            }
                        }
                    }
                }
                // names never written must not resolve
                for neg in ["never\\there.x", "(attributes)", "tail"] {
                    if files.iter().any(|f| f["name"].as_str().map(|n| n.eq_ignore_ascii_case(neg)).unwrap_or(false)) {
                        continue;
                    }
                    c.count("negative_lookups", 1);
                    if let Ok(Some(_)) = ar.find_file(neg) {
                        c.violate("ref-never-added-name-resolves", format!("find_file({:?}) resolved on a reference-written archive", neg), man["opts"].clone());
                    }
                }
                if man["opts"]["listfile"].as_bool().unwrap_or(false) {
                    match trap(|| ar.list()) {
                        Ok(Ok(l)) => {
                            let got: std::collections::BTreeSet<String> = l.iter().map(|e| e.name.to_ascii_uppercase()).collect();
                            for f in &files {
                                let n = f["name"].as_str().unwrap_or("").to_ascii_uppercase();
                                c.count("list_names_checked", 1);
                                if !got.contains(&n) {
                                    c.violate("ref-list-missing-name", format!("list() of a reference-written archive lacks {:?}", n), man["opts"].clone());
                                    break;
                                }
                            }
                        }
                        Ok(Err(e)) => c.violate("ref-list-error", format!("list() failed on a reference-written archive with a listfile: {e}"), man["opts"].clone()),
                        Err(p) => c.violate(format!("ref-list-panic|{}", p.sig()), format!("list() panicked: {}", p.msg), man["opts"].clone()),
                    }
                }
            });
        }
    }
    run.done();
}
