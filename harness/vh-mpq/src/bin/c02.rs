//! C02 — interoperability with an independent MPQ implementation (lib/refmpq.py).
//! --mode write: build archives over the published-format subset and leave them, with a manifest, in --dir
//!               (the Python side then opens and extracts them with the reference reader).
//! --mode read : open the archives the reference writer left in --dir and compare every name/spelling.

use serde_json::{Value, json};
use vh_common::{Rng, Run, brief, first_diff, trap};
use vh_mpq::cfggen::*;
use wow_mpq::{Archive, OpenOptions};

fn subset_axes() -> Vec<Vec<u32>> {
    vec![
        vec![1, 2],                // version
        vec![0, 1, 3, 5],          // shift
        vec![0x00, 0x02, 0x10],    // none, zlib, bzip2
        vec![0, 1, 2],             // plain, encrypted, encrypted+fixkey
        vec![0],                   // sector CRC: off in the product; on in the checksum variants below
        vec![0],                   // attributes: likewise
        vec![1, 0],                // listfile
        vec![0],
    ]
}

const LOCALES: [u16; 2] = [0x409, 0x407];

/// (generate_crcs, attributes option) of the checksum variants: every product point is built a second time with one of them
const CRC_VARIANTS: [(u32, u32); 5] = [(1, 0), (0, 1), (1, 1), (0, 2), (1, 2)];

fn main() {
    let mut run = Run::new();
    let thorough = run.args.thorough();
    let mode = run.args.get("mode").unwrap_or("write").to_string();
    let dir = std::path::PathBuf::from(run.args.get("dir").unwrap_or("."));
    if mode == "write" {
        let ax = subset_axes();
        // full product of the small subset: 2*4*3*3*2 = 144 configurations, repeated with different file sets
        let mut points: Vec<Vec<u32>> = Vec::new();
        let reps = if thorough { 10 } else { 1 };
        for _ in 0..reps {
            for v in &ax[0] { for s in &ax[1] { for m in &ax[2] { for e in &ax[3] { for l in &ax[6] {
                points.push(vec![*v, *s, *m, *e, 0, 0, *l, 0]);
            }}}}}
        }
        // sectors of 512 KiB (shift 10): an encrypted unit longer than 64 Ki dwords, one key stream through all of it
        for v in [1u32, 2] { for m in [0u32, 0x02] { for e in [1u32, 2] {
            points.push(vec![v, 10, m, e, 0, 0, 1, 0]);
        }}}
        // sector checksums and the (attributes) file (appended, so that the indices of the cases above stay what they were):
        // the product once more per repetition, each point with one of the five (generate_crcs, attributes) combinations
        for r in 0..reps {
            let mut n = 0usize;
            for v in &ax[0] { for s in &ax[1] { for m in &ax[2] { for e in &ax[3] { for l in &ax[6] {
                let (crc, attr) = CRC_VARIANTS[(n + r) % CRC_VARIANTS.len()];
                points.push(vec![*v, *s, *m, *e, crc, attr, *l, 0]);
                n += 1;
            }}}}}
        }
        for (i, p) in points.iter().enumerate() {
            let idx = i as u64;
            if !run.want(idx) {
                continue;
            }
            // quick: the 144-configuration product once (thorough: repeated with other file sets)
            let _ = thorough; // (quick ran half of the product until round 4; the whole product costs 3 s)
            let cfg = cfg_from_point(p);
            let mut rng = run.rng(idx, 0);
            let mut files = gen_fileset(&mut rng, cfg.sector_size(), 1 << 20);
            // stored lengths mod 4 in {1,2,3} under encryption: add odd sizes of incompressible data
            for (k, extra) in [cfg.sector_size() + 2, cfg.sector_size() + 3, 2 * cfg.sector_size() + 1, 6, 7].iter().enumerate() {
                let data = rng.bytes(*extra);
                files.push(FileSpec { name: format!("tail\\odd{k}.bin"), class: "random", data });
            }
            // files at the compressor's break-even point: the writer's "store raw unless it shrinks" decision must agree with
            // every reader's "stored size == size means raw" rule (whole small file, and as the tail sector of a larger file)
            for (k, d) in vh_mpq::cfggen::break_even_contents(&mut rng, cfg.method).into_iter().enumerate() {
                if k % 2 == 0 && d.len() < cfg.sector_size() {
                    let mut big = rng.bytes(cfg.sector_size());
                    big.extend_from_slice(&d);
                    files.push(FileSpec { name: format!("breakeven\\tail{k}.bin"), class: "break-even", data: big });
                }
                files.push(FileSpec { name: format!("breakeven\\whole{k}.bin"), class: "break-even", data: d });
            }
            if cfg.shift >= 10 {
                let n = 270_000 + rng.usize(200_000);
                let mut data = rng.bytes(n);
                files.push(FileSpec { name: format!("big\\unit{idx}.bin"), class: "random", data: data.clone() });
                // and one that compresses a little (text with random stretches): stored compressed, still longer than 256 KiB
                let t = vh_common::gen_content(&mut rng, "text", n);
                for (k, b) in data.iter_mut().enumerate() {
                    if (k / 4096) % 8 == 0 {
                        *b = t[k];
                    }
                }
                files.push(FileSpec { name: format!("big\\mixed{idx}.bin"), class: "random", data });
            }
            // a file without any directory component (key derivation from the plain name)
            files.push(FileSpec { name: format!("plain{idx}.txt"), class: "text", data: vh_common::gen_content(&mut rng, "text", 700) });
            let path = dir.join(format!("a-{idx}.mpq"));
            let desc = json!({"cfg": cfg.to_json(), "nfiles": files.len()});
            run.case(idx, &cfg.class(), desc, |c| {
                // the last two files carry a language id (hash-entry locale field); everything else is neutral
                let nl = files.len().saturating_sub(2);
                // the expected contents go to disk first: every second file enters the builder by path (add_file,
                // add_file_with_options, add_file_with_encryption), the others from memory (add_file_data* as before, plus the
                // default-compression entry point)
                for (k, f) in files.iter().enumerate() {
                    let _ = std::fs::write(dir.join(format!("a-{idx}.f{k}")), &f.data);
                }
                let mut b = cfg.builder();
                for (k, f) in files[..nl].iter().enumerate() {
                    let fp = dir.join(format!("a-{idx}.f{k}"));
                    let (nb, how) = match (cfg.enc, k % 4) {
                        (0, 1) => (b.add_file_with_options(&fp, &f.name, cfg.method, false, 0), "add_file_with_options"),
                        (0, 3) => (b.add_file(&fp, &f.name), "add_file"),
                        (0, 2) => (b.add_file_data(f.data.clone(), &f.name), "add_file_data"),
                        (0, _) => (b.add_file_data_with_options(f.data.clone(), &f.name, cfg.method, false, 0), "add_file_data_with_options"),
                        (1, 1) => (b.add_file_with_encryption(&fp, &f.name, cfg.method, false, 0), "add_file_with_encryption"),
                        (1, 3) => (b.add_file_with_options(&fp, &f.name, cfg.method, true, 0), "add_file_with_options"),
                        (1, 2) => (b.add_file_data_with_options(f.data.clone(), &f.name, cfg.method, true, 0), "add_file_data_with_options"),
                        (1, _) => (b.add_file_data_with_encryption(f.data.clone(), &f.name, cfg.method, false, 0), "add_file_data_with_encryption"),
                        (_, 1) | (_, 3) => (b.add_file_with_encryption(&fp, &f.name, cfg.method, true, 0), "add_file_with_encryption"),
                        _ => (b.add_file_data_with_encryption(f.data.clone(), &f.name, cfg.method, true, 0), "add_file_data_with_encryption"),
                    };
                    b = nb;
                    c.count(&format!("a_files_added_through|{how}"), 1);
                    c.count(if k % 2 == 1 { "a_files_added_from_disk" } else { "a_files_added_from_memory" }, 1);
                }
                for (k, f) in files[nl..].iter().enumerate() {
                    let loc = LOCALES[k % LOCALES.len()];
                    b = match cfg.enc {
                        0 => b.add_file_data_with_options(f.data.clone(), &f.name, cfg.method, false, loc),
                        1 => b.add_file_data_with_encryption(f.data.clone(), &f.name, cfg.method, false, loc),
                        _ => b.add_file_data_with_encryption(f.data.clone(), &f.name, cfg.method, true, loc),
                    };
                }
                match trap(|| b.build(&path)) {
                    Err(p) => c.violate(format!("build-panic|{}", p.sig()), format!("build panicked: {}", p.msg), cfg.to_json()),
                    Ok(Err(e)) => {
                        c.count("build_err", 1);
                        c.nontrivial = false;
                        c.note(json!({"build_err": e.to_string()}));
                    }
                    Ok(Ok(())) => {
                        c.count("archives_written", 1);
                        // what the library itself reads as header (compared field by field with the reference parse)
                        let mut attr_dump = Value::Null;
                        let hdr = match Archive::open(&path) {
                            Ok(mut a) => {
                                // the (attributes) file as the library itself reads it (the reference extraction is compared with it)
                                if cfg.has_attributes() {
                                    attr_dump = match trap(|| a.read_file("(attributes)")) {
                                        Ok(Ok(d)) => {
                                            let ap = dir.join(format!("a-{idx}.attributes"));
                                            let _ = std::fs::write(&ap, &d);
                                            json!({"content": ap.to_string_lossy()})
                                        }
                                        Ok(Err(e)) => json!({"err": e.to_string()}),
                                        Err(p) => json!({"err": format!("panic: {}", p.msg)}),
                                    };
                                }
                                let h = a.header();
                                json!({"header_size": h.header_size, "archive_size": h.archive_size, "version": h.format_version as u16, "shift": h.block_size,
                                       "hash_pos": h.get_hash_table_pos(), "block_pos": h.get_block_table_pos(), "hash_size": h.hash_table_size, "block_size": h.block_table_size,
                                       "archive_offset": a.archive_offset()})
                            }
                            Err(e) => json!({"open_err": e.to_string()}),
                        };
                        let mut fl: Vec<Value> = Vec::new();
                        for (k, f) in files.iter().enumerate() {
                            let fp = dir.join(format!("a-{idx}.f{k}"));
                            let loc = if k >= nl { LOCALES[(k - nl) % LOCALES.len()] } else { 0 };
                            fl.push(json!({"name": f.name, "len": f.data.len(), "class": f.class, "content": fp.to_string_lossy(), "locale": loc}));
                        }
                        let man = json!({"idx": idx, "cfg": cfg.to_json(), "class": cfg.class(), "enc": cfg.enc, "method": cfg.method, "sector": cfg.sector_size(), "listfile": cfg.listfile, "sector_crc": cfg.effective_crc(), "has_attributes": cfg.has_attributes(), "attributes": attr_dump, "header": hdr, "files": fl, "archive": path.to_string_lossy()});
                        let _ = std::fs::write(dir.join(format!("a-{idx}.json")), man.to_string());
                    }
                }
            });
        }
    } else {
        // read mode: manifests b-<k>.json written by the reference writer
        let mut mans: Vec<std::path::PathBuf> = std::fs::read_dir(&dir).map(|d| d.filter_map(|e| e.ok()).map(|e| e.path()).filter(|p| p.file_name().map(|n| n.to_string_lossy().starts_with("b-") && n.to_string_lossy().ends_with(".json")).unwrap_or(false)).collect()).unwrap_or_default();
        mans.sort();
        for mp in mans {
            let Ok(txt) = std::fs::read_to_string(&mp) else { continue };
            let Ok(man) = serde_json::from_str::<Value>(&txt) else { continue };
            let idx = man["idx"].as_u64().unwrap_or(0);
            if !run.want(idx) {
                continue;
            }
            let class = man["class"].as_str().unwrap_or("?").to_string();
            let mut rng = Rng::for_case(run.args.seed, idx, 9);
            run.case(idx, &class, json!({"manifest": mp.to_string_lossy(), "opts": man["opts"]}), |c| {
                let apath = man["archive"].as_str().unwrap_or("");
                let mut ar = match Archive::open(apath) {
                    Ok(a) => a,
                    Err(e) => {
                        c.violate(format!("ref-archive-open-failed|{}", man["shape"].as_str().unwrap_or("?")), format!("Archive::open failed on a reference-written archive: {e}"), man["opts"].clone());
                        return;
                    }
                };
                c.count("archives_opened", 1);
                let files = man["files"].as_array().cloned().unwrap_or_default();
                // Pass 1 — probes. A file whose trigger predicate is set (see fclass) is expected to come out wrong if the known
                // deviation is present, and wrong-key garbage fed to a decompressor can do anything (error, panic, even spin in a
                // dependency). So for each predicate combination first read one file that is stored raw (no decompressor involved).
                // If the probe is wrong, the combination is recorded once as violation and its compressed members are skipped
                // (counted); if the probe is right (deviation repaired), every member is read and compared strictly.
                // what read_file answered for the name as given (None = error or panic): the other ways in must answer the same
                let mut first_pass: std::collections::BTreeMap<String, Option<Vec<u8>>> = Default::default();
                let mut deviating: std::collections::BTreeSet<String> = Default::default();
                let mut probed: std::collections::BTreeSet<String> = Default::default();
                for f in &files {
                    let fclass = f["fclass"].as_str().unwrap_or("?").to_string();
                    if fclass == "keypath=0|tail=0|sectored-raw=0" || !f["stored_raw"].as_bool().unwrap_or(false) || probed.contains(&fclass) {
                        continue;
                    }
                    let name = f["name"].as_str().unwrap_or("");
                    let want = std::fs::read(f["content"].as_str().unwrap_or("")).unwrap_or_default();
                    probed.insert(fclass.clone());
                    c.count("b_probes", 1);
                    let ok = matches!(trap(|| ar.read_file(name)), Ok(Ok(ref got)) if *got == want);
                    if !ok {
                        deviating.insert(fclass.clone());
                        c.violate(format!("B|unreadable-or-wrong|{fclass}"), format!("read_file({:?}) on a reference-written archive does not return the stored content (raw-stored probe for this predicate combination)", name), json!({"file": f, "opts": man["opts"]}));
                    }
                }
                for f in &files {
                    let name = f["name"].as_str().unwrap_or("");
                    let want = std::fs::read(f["content"].as_str().unwrap_or("")).unwrap_or_default();
                    let fclass = f["fclass"].as_str().unwrap_or("?");
                    let clean = fclass == "keypath=0|tail=0|sectored-raw=0";
                    // wrong-key garbage (keypath deviation present, or unprobed) must not reach a decompressor; a tail-only
                    // deviation corrupts at most the last three bytes of a unit, which decoders survive (often unnoticed, because
                    // it lands in an unchecked stream trailer — so outcomes under tail=1 legitimately vary per file)
                    let keypath = fclass.starts_with("keypath=1");
                    let raw = f["stored_raw"].as_bool().unwrap_or(false);
                    if !clean && keypath && !raw && (deviating.contains(fclass) || !probed.contains(fclass)) {
                        c.count(if deviating.contains(fclass) { "b_files_skipped_under_known_deviation" } else { "b_files_skipped_no_probe" }, 1);
                        continue;
                    }
                    let mut sp = spellings(name);
                    if sp.len() > 2 {
                        // as given + one random other spelling (keeps the run short)
                        let a = 1 + rng.usize(sp.len() - 1);
                        let keep = vec![sp[0].clone(), sp[a].clone()];
                        sp = keep;
                    }
                    for (s, spk) in sp {
                        c.count("files_compared", 1);
                        let dev_sig = format!("B|unreadable-or-wrong|{fclass}");
                        let res = trap(|| ar.read_file(&s));
                        if spk == "as-given" {
                            first_pass.insert(name.to_string(), match &res { Ok(Ok(d)) => Some(d.clone()), _ => None });
                        }
                        match res {
                            Err(p) => c.violate(if clean { format!("B|ref-read-panic|conformant-file|{}", p.sig()) } else { dev_sig }, format!("read_file({:?}) panicked on a reference-written archive: {}", s, p.msg), f.clone()),
                            Ok(Err(e)) => c.violate(if clean { format!("B|ref-read-error|conformant-file|{spk}") } else { dev_sig }, format!("read_file({:?}) failed on a reference-written archive: {e}", s), json!({"file": f, "opts": man["opts"]})),
                            Ok(Ok(got)) => {
                                if got != want {
                                    let fd = first_diff(&got, &want);
                                    let where_ = if got.len() != want.len() { "len".to_string() } else if want.len() - fd <= 3 { "tail<=3".to_string() } else if fd == 0 { "from-start".to_string() } else { "middle".to_string() };
                                    c.violate(if clean { format!("B|ref-content-mismatch|conformant-file|{where_}") } else { dev_sig }, format!("read_file({:?}) on a reference-written archive returned {} bytes, expected {}; first difference at {fd}", s, got.len(), want.len()), json!({"file": f, "opts": man["opts"], "got": brief(&got), "want": brief(&want)}));
                                } else {
                                    c.count(if clean { "b_files_conformant_ok" } else { "b_files_predicate_ok" }, 1);
                                }
                            }
                        }
                    }
                }
                // names never written must not resolve
                for neg in ["never\\there.x", "(attributes)", "tail"] {
                    if files.iter().any(|f| f["name"].as_str().map(|n| n.eq_ignore_ascii_case(neg)).unwrap_or(false)) {
                        continue;
                    }
                    c.count("negative_lookups", 1);
                    if let Ok(Some(_)) = ar.find_file(neg) {
                        c.violate("ref-never-added-name-resolves", format!("find_file({:?}) resolved on a reference-written archive", neg), man["opts"].clone());
                    }
                }
                if man["opts"]["listfile"].as_bool().unwrap_or(false) {
                    match trap(|| ar.list()) {
                        Ok(Ok(l)) => {
                            let got: std::collections::BTreeSet<String> = l.iter().map(|e| e.name.to_ascii_uppercase()).collect();
                            for f in &files {
                                let n = f["name"].as_str().unwrap_or("").to_ascii_uppercase();
                                c.count("list_names_checked", 1);
                                if !got.contains(&n) {
                                    c.violate("ref-list-missing-name", format!("list() of a reference-written archive lacks {:?}", n), man["opts"].clone());
                                    break;
                                }
                            }
                        }
                        Ok(Err(e)) => c.violate("ref-list-error", format!("list() failed on a reference-written archive with a listfile: {e}"), man["opts"].clone()),
                        Err(p) => c.violate(format!("ref-list-panic|{}", p.sig()), format!("list() panicked: {}", p.msg), man["opts"].clone()),
                    }
                }

                // ---- the other ways in (alternative entry points must agree with what was judged above)
                // (a) tables loaded after the open: OpenOptions::new().load_tables(false).open + load_tables
                match trap(|| OpenOptions::new().load_tables(false).open(apath)) {
                    Ok(Ok(mut ar2)) => {
                        c.count("b_deferred_opens", 1);
                        match trap(|| ar2.load_tables()) {
                            Ok(Ok(())) => {
                                c.count("b_deferred_load_tables", 1);
                                for (name, first) in first_pass.iter() {
                                    c.count("b_deferred_reads_compared", 1);
                                    let second = match trap(|| ar2.read_file(name)) { Ok(Ok(d)) => Some(d), _ => None };
                                    if second != *first {
                                        c.violate("B|deferred-tables|read-differs-from-plain-open", format!("read_file({:?}) after OpenOptions.load_tables(false) + load_tables() answers {} where the archive opened with Archive::open answers {}", name,
                                            second.as_ref().map(|d| format!("{} bytes", d.len())).unwrap_or("an error".into()), first.as_ref().map(|d| format!("{} bytes", d.len())).unwrap_or("an error".into())), man["opts"].clone());
                                        break;
                                    }
                                }
                            }
                            Ok(Err(e)) => c.violate("B|deferred-tables|load-tables-error", format!("load_tables() failed on an archive that Archive::open loads: {e}"), man["opts"].clone()),
                            Err(p) => c.violate(format!("B|deferred-tables|load-tables-panic|{}", p.sig()), format!("load_tables() panicked: {}", p.msg), man["opts"].clone()),
                        }
                    }
                    Ok(Err(e)) => c.violate("B|deferred-tables|open-error", format!("OpenOptions::new().load_tables(false).open failed on an archive that Archive::open opens: {e}"), man["opts"].clone()),
                    Err(p) => c.violate(format!("B|deferred-tables|open-panic|{}", p.sig()), format!("open panicked: {}", p.msg), man["opts"].clone()),
                }
                // (b) enumeration from the tables alone: one entry per stored file, carrying the block-table fields (and the two
                // name hashes) the reference wrote; names may be generic
                let blocks = man["blocks"].as_array().cloned().unwrap_or_default();
                if !blocks.is_empty() {
                    let want_rows: Vec<(u64, u64, u64)> = { let mut v: Vec<_> = blocks.iter().map(|b| (b["fsize"].as_u64().unwrap_or(0), b["csize"].as_u64().unwrap_or(0), b["flags"].as_u64().unwrap_or(0))).collect(); v.sort(); v };
                    let nolist = !man["opts"]["listfile"].as_bool().unwrap_or(false);
                    match trap(|| ar.list_all()) {
                        Ok(Ok(l)) => {
                            c.count("b_list_all_calls", 1);
                            if nolist { c.count("b_list_all_calls_without_listfile", 1); }
                            c.count("b_list_all_entries", l.len() as u64);
                            let mut got: Vec<(u64, u64, u64)> = l.iter().map(|e| (e.size, e.compressed_size, e.flags as u64)).collect();
                            got.sort();
                            if got.len() != want_rows.len() {
                                c.violate("B|list-all|entry-count", format!("list_all() returns {} entries for a reference-written archive with {} stored files", got.len(), want_rows.len()), man["opts"].clone());
                            } else if got != want_rows {
                                let k = (0..got.len()).find(|&k| got[k] != want_rows[k]).unwrap_or(0);
                                c.violate("B|list-all|block-fields", format!("list_all(): (size, stored size, flags) of the entries differ from the block table the reference wrote, e.g. {:?} vs {:?}", got[k], want_rows[k]), man["opts"].clone());
                            }
                        }
                        Ok(Err(e)) => c.violate("B|list-all|error", format!("list_all() failed on a reference-written archive: {e}"), man["opts"].clone()),
                        Err(p) => c.violate(format!("B|list-all|panic|{}", p.sig()), format!("list_all() panicked: {}", p.msg), man["opts"].clone()),
                    }
                    match trap(|| ar.list_all_with_hashes()) {
                        Ok(Ok(l)) => {
                            c.count("b_list_all_with_hashes_calls", 1);
                            if l.len() != blocks.len() {
                                c.violate("B|list-all-with-hashes|entry-count", format!("list_all_with_hashes() returns {} entries, {} stored files", l.len(), blocks.len()), man["opts"].clone());
                            }
                            for e in &l {
                                let Some((_, Some(bi))) = e.table_indices else { continue };
                                let Some(b) = blocks.get(bi) else {
                                    c.violate("B|list-all-with-hashes|block-index-out-of-range", format!("entry {:?} points at block {bi}, the archive has {}", e.name, blocks.len()), man["opts"].clone());
                                    break;
                                };
                                c.count("b_name_hash_pairs_compared", 1);
                                let want = (b["hash_a"].as_u64().unwrap_or(0) as u32, b["hash_b"].as_u64().unwrap_or(0) as u32);
                                if e.hashes != Some(want) || e.size != b["fsize"].as_u64().unwrap_or(0) {
                                    c.violate("B|list-all-with-hashes|hash-entry-fields", format!("entry for block {bi}: name hashes {:x?} size {}, the reference stored {:x?} size {}", e.hashes, e.size, want, b["fsize"]), man["opts"].clone());
                                    break;
                                }
                            }
                        }
                        Ok(Err(e)) => c.violate("B|list-all-with-hashes|error", format!("list_all_with_hashes() failed: {e}"), man["opts"].clone()),
                        Err(p) => c.violate(format!("B|list-all-with-hashes|panic|{}", p.sig()), format!("list_all_with_hashes() panicked: {}", p.msg), man["opts"].clone()),
                    }
                    // (c) list_with_hashes: the hashes the library computes for the listed names are the ones the reference computed
                    if !nolist {
                        match trap(|| ar.list_with_hashes()) {
                            Ok(Ok(l)) => {
                                c.count("b_list_with_hashes_calls", 1);
                                for e in &l {
                                    let Some(b) = blocks.iter().find(|b| b["name"].as_str().map(|n| n.eq_ignore_ascii_case(&e.name)).unwrap_or(false)) else { continue };
                                    c.count("b_computed_name_hashes_compared", 1);
                                    let want = (b["hash_a"].as_u64().unwrap_or(0) as u32, b["hash_b"].as_u64().unwrap_or(0) as u32);
                                    if e.hashes != Some(want) {
                                        c.violate("B|list-with-hashes|name-hashes", format!("list_with_hashes(): {:?} has hashes {:x?}, the reference hash gives {:x?}", e.name, e.hashes, want), man["opts"].clone());
                                        break;
                                    }
                                }
                            }
                            Ok(Err(e)) => c.violate("B|list-with-hashes|error", format!("list_with_hashes() failed: {e}"), man["opts"].clone()),
                            Err(p) => c.violate(format!("B|list-with-hashes|panic|{}", p.sig()), format!("list_with_hashes() panicked: {}", p.msg), man["opts"].clone()),
                        }
                    }
                    // (d) probing and access by table position: find_file lands in the slot / block the reference placed the name in,
                    // and read_file_by_indices answers what read_file answers (files without encryption: no name, no key)
                    for f in &files {
                        let name = f["name"].as_str().unwrap_or("");
                        let Some(bi) = f["bi"].as_u64() else { continue };
                        let Some(b) = blocks.get(bi as usize) else { continue };
                        let Ok(Some(fi)) = ar.find_file(name) else { continue }; // a missing name is judged above
                        c.count("b_probe_positions_compared", 1);
                        if fi.hash_index as u64 != b["slot"].as_u64().unwrap_or(u64::MAX) || fi.block_index as u64 != bi {
                            c.violate("B|find-file|table-position", format!("find_file({:?}) reports hash slot {} / block {}, the reference placed it in slot {} / block {bi}", name, fi.hash_index, fi.block_index, b["slot"]), man["opts"].clone());
                            break;
                        }
                        if man["opts"]["enc"].as_u64().unwrap_or(0) != 0 {
                            continue;
                        }
                        let Some(first) = first_pass.get(name) else { continue };
                        c.count("b_reads_by_indices_compared", 1);
                        let got = match trap(|| ar.read_file_by_indices(fi.hash_index, Some(fi.block_index))) { Ok(Ok(d)) => Some(d), _ => None };
                        if got != *first {
                            let shape = format!("{}|{}|{}|{}", if f["single_unit"].as_bool().unwrap_or(false) { "single" } else { "sectored" }, if fi.flags & 0x200 != 0 { "compress-flag" } else { "no-compress-flag" },
                                if f["stored_raw"].as_bool().unwrap_or(false) { "stored-raw" } else { "stored-compressed" }, if f["len"].as_u64() == Some(0) { "empty" } else { "non-empty" });
                            c.violate(format!("B|read-by-indices|differs-from-read-file|{shape}"), format!("read_file_by_indices for {:?} answers {} where read_file answers {}", name,
                                got.as_ref().map(|d| format!("{} bytes", d.len())).unwrap_or("an error".into()), first.as_ref().map(|d| format!("{} bytes", d.len())).unwrap_or("an error".into())), json!({"file": f, "opts": man["opts"]}));
                        }
                    }
                }
            });
        }
    }
    run.done();
}
