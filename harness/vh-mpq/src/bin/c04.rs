//! C04 — hashing and encryption equal the MPQ algorithms and are mutually inverse.
//! Oracle: independent reference in vh_mpq (crypt table regenerated from its seed,
//! HashString with ASCII-only fold, lookup3 hashlittle2 transcribed from lookup3.c).

use serde_json::json;
use vh_common::{Case, Rng, Run, hex};
use vh_mpq::*;
use wow_mpq::crypto::{ASCII_TO_LOWER, ASCII_TO_UPPER, ENCRYPTION_TABLE, het_hash};
use wow_mpq::{ArchiveBuilder, calculate_het_hashes, calculate_mpq_hashes, decrypt_block, decrypt_dword, decrypt_file_data, encrypt_block, hash_string};

const TYPES: [u32; 4] = [0x000, 0x100, 0x200, 0x300];

fn check_hash(c: &mut Case, s: &str, ctx: &str) {
    for t in TYPES {
        let got = hash_string(s, t);
        let want = ref_hash(s.as_bytes(), t);
        c.count("hashes_compared", 1);
        if got != want {
            c.violate(
                format!("hash-ne-ref|type={t:#x}|{ctx}"),
                format!("hash_string({:?}, {t:#x}) = {got:#010x}, reference {want:#010x}", s),
                json!({"bytes": hex(s.as_bytes()), "type": t, "got": got, "want": want}),
            );
        }
    }
}

fn variants(s: &str) -> Vec<String> {
    let up: String = s.chars().map(|c| c.to_ascii_uppercase()).collect();
    let lo: String = s.chars().map(|c| c.to_ascii_lowercase()).collect();
    let alt: String = s.chars().enumerate().map(|(i, c)| if i % 2 == 0 { c.to_ascii_uppercase() } else { c.to_ascii_lowercase() }).collect();
    let sw: String = s.chars().map(|c| if c == '/' { '\\' } else if c == '\\' { '/' } else { c }).collect();
    let fw = s.replace('\\', "/");
    vec![up, lo, alt, sw, fw]
}

fn rand_name(rng: &mut Rng) -> String {
    const ALPH: &[&str] = &[
        "a", "b", "z", "A", "Z", "m", "Q", "0", "9", "_", "-", ".", " ", "\\", "/", "(", ")", "é", "É", "ß", "ü", "Ü", "ı", "İ", "ǅ", "日", "本", "ﬁ", "@", "[", "`", "{", "~", "\u{7f}", "\u{1}",
    ];
    let cap = if rng.chance(1, 8) { 300 } else { 40 };
    let n = 1 + rng.usize(cap);
    let mut s = String::new();
    for _ in 0..n {
        s.push_str(*rng.pick(ALPH));
    }
    s
}

fn cipher_keys(rng: &mut Rng) -> Vec<u32> {
    let mut k = vec![0u32, 1, 0xFF, 0x100, 0x7FFF_FFFF, 0x8000_0000, 0xFFFF_FFFF, ref_hash(b"(hash table)", 0x300), ref_hash(b"(block table)", 0x300), 0xFFFF_FFFE, 0x0000_0800, 0x001F_FFFF, 0xFFE0_0000];
    while k.len() < 77 {
        k.push(rng.next_u32());
    }
    k
}

fn to_dwords(b: &[u8]) -> Vec<u32> {
    b.chunks_exact(4).map(|c| u32::from_le_bytes([c[0], c[1], c[2], c[3]])).collect()
}

/// All cipher laws for one (key, buffer).
fn check_cipher(c: &mut Case, builder: &ArchiveBuilder, key: u32, buf: &[u8], ctx: &str) {
    let kc = if key == 0 { "key0" } else if key & 0x8000_0000 != 0 { "hi" } else { "lo" };
    // (1) dword API inverse + equality with reference cipher (key 0 is an identity in this code by construction)
    if buf.len() % 4 == 0 {
        let plain = to_dwords(buf);
        let mut x = plain.clone();
        encrypt_block(&mut x, key);
        let enc = x.clone();
        decrypt_block(&mut x, key);
        c.count("cipher_dword_pairs", 1);
        if x != plain {
            c.violate(format!("cipher-dword-not-inverse|{kc}|{ctx}"), format!("decrypt_block(encrypt_block(b,{key:#x})) != b, len={}", buf.len()), json!({"key": key, "len": buf.len(), "buf": hex(&buf[..buf.len().min(64)])}));
        }
        if key != 0 {
            let mut r = plain.clone();
            ref_encrypt(&mut r, key);
            if r != enc {
                c.violate(format!("cipher-encrypt-ne-ref|{kc}|{ctx}"), format!("encrypt_block differs from reference cipher, key={key:#x} len={}", buf.len()), json!({"key": key, "len": buf.len(), "buf": hex(&buf[..buf.len().min(64)])}));
            }
            let mut d = enc.clone();
            ref_decrypt(&mut d, key);
            if d != plain {
                c.violate(format!("cipher-ref-decrypt-ne-plain|{kc}|{ctx}"), format!("reference decrypt of encrypt_block output != plain, key={key:#x}"), json!({"key": key, "len": buf.len(), "buf": hex(&buf[..buf.len().min(64)])}));
            }
            if !plain.is_empty() {
                let d0 = decrypt_dword(enc[0], key);
                c.count("decrypt_dword_checks", 1);
                if d0 != plain[0] {
                    c.violate(format!("decrypt-dword-ne-block|{kc}"), format!("decrypt_dword(enc[0],{key:#x}) = {d0:#x} but plain[0] = {:#x}", plain[0]), json!({"key": key}));
                }
            }
        }
    }
    // (2) byte wrappers inverse for every length (incl. len % 4 != 0)
    let mut y = buf.to_vec();
    builder.encrypt_data(&mut y, key);
    let encb = y.clone();
    decrypt_file_data(&mut y, key);
    c.count("cipher_byte_pairs", 1);
    if y != buf {
        c.violate(
            format!("cipher-bytes-not-inverse|{kc}|lenmod4={}|{ctx}", buf.len() % 4),
            format!("decrypt_file_data(encrypt_data(b,{key:#x})) != b, len={}", buf.len()),
            json!({"key": key, "buf": hex(&buf[..buf.len().min(64)]), "len": buf.len()}),
        );
    }
    // (2b) "every buffer" includes buffers that do not start on a 4-byte boundary (a file's bytes inside a larger image):
    // the same bytes at every start alignment give the same cipher text and decrypt back, and nothing outside is touched
    for off in 0..8usize {
        let mut backing = vec![0xEEu8; off + buf.len() + 8];
        backing[off..off + buf.len()].copy_from_slice(buf);
        builder.encrypt_data(&mut backing[off..off + buf.len()], key);
        c.count("cipher_unaligned_slices", 1);
        if backing[off..off + buf.len()] != encb[..] {
            c.violate(format!("cipher-bytes-depend-on-alignment|encrypt|{kc}"), format!("encrypt_data gives different bytes for the same buffer at address offset {off}, key={key:#x} len={}", buf.len()), json!({"key": key, "len": buf.len(), "offset": off}));
            break;
        }
        decrypt_file_data(&mut backing[off..off + buf.len()], key);
        if backing[off..off + buf.len()] != buf[..] {
            c.violate(format!("cipher-bytes-depend-on-alignment|decrypt|{kc}"), format!("decrypt_file_data does not invert encrypt_data for a buffer at address offset {off}, key={key:#x} len={}", buf.len()), json!({"key": key, "len": buf.len(), "offset": off}));
            break;
        }
        if backing[..off].iter().chain(&backing[off + buf.len()..]).any(|b| *b != 0xEE) {
            c.violate(format!("cipher-bytes-write-outside-buffer|{kc}"), format!("byte wrappers modified memory outside the buffer (offset {off}, len {})", buf.len()), json!({"key": key, "len": buf.len(), "offset": off}));
            break;
        }
    }
    // (3) the dword-aligned prefix of the byte wrapper equals the dword API
    if key != 0 && buf.len() >= 4 {
        let n4 = buf.len() / 4 * 4;
        let mut r = to_dwords(&buf[..n4]);
        ref_encrypt(&mut r, key);
        let rb: Vec<u8> = r.iter().flat_map(|d| d.to_le_bytes()).collect();
        if rb != encb[..n4] {
            c.violate(format!("cipher-bytes-prefix-ne-ref|{kc}|{ctx}"), format!("encrypt_data's whole-dword prefix differs from the reference cipher, key={key:#x} len={}", buf.len()), json!({"key": key, "len": buf.len()}));
        }
    }
}

fn main() {
    let mut run = Run::new();
    let thorough = run.args.thorough();
    let builder = ArchiveBuilder::new();

    // ---- 0: the tables themselves ---------------------------------------
    run.case(0, "tables", json!({"what": "ENCRYPTION_TABLE[0..1280], ASCII_TO_UPPER, ASCII_TO_LOWER vs regenerated reference"}), |c| {
        let t = ref_crypt_table();
        for i in 0..0x500 {
            c.count("table_entries_compared", 1);
            if ENCRYPTION_TABLE[i] != t[i] {
                c.violate(format!("crypt-table-entry|block={:#x}", i & !0xFF), format!("ENCRYPTION_TABLE[{i:#x}] = {:#010x}, reference {:#010x}", ENCRYPTION_TABLE[i], t[i]), json!({"index": i}));
            }
        }
        for b in 0..256usize {
            c.count("fold_bytes_compared", 2);
            let up = if (b as u8).is_ascii_lowercase() { b as u8 - 32 } else { b as u8 };
            let lo = if (b as u8).is_ascii_uppercase() { b as u8 + 32 } else { b as u8 };
            // StormLib's tables also map '/' -> '\\'; accept either convention for that one byte
            let up_ok = ASCII_TO_UPPER[b] == up || (b == b'/' as usize && ASCII_TO_UPPER[b] == b'\\');
            let lo_ok = ASCII_TO_LOWER[b] == lo || (b == b'/' as usize && ASCII_TO_LOWER[b] == b'\\');
            if !up_ok {
                c.violate("fold-table-upper", format!("ASCII_TO_UPPER[{b:#x}] = {:#x}", ASCII_TO_UPPER[b]), json!({"byte": b}));
            }
            if !lo_ok {
                c.violate("fold-table-lower", format!("ASCII_TO_LOWER[{b:#x}] = {:#x}", ASCII_TO_LOWER[b]), json!({"byte": b}));
            }
        }
        // behavioural view of table block 4: encrypt_block([0], key) reveals table[0x400 + (key & 0xFF)]
        for lowb in 0..256u32 {
            let key = 0x1234_5600 | lowb;
            let mut x = [0u32];
            encrypt_block(&mut x, key);
            let want = key.wrapping_add(0xEEEE_EEEEu32.wrapping_add(t[0x400 + lowb as usize]));
            c.count("table_block4_behavioural", 1);
            if x[0] != want {
                c.violate("crypt-table-behavioural|block=0x400", format!("encrypt_block([0],{key:#x}) = {:#x}, reference {want:#x}", x[0]), json!({"key": key}));
            }
        }
    });

    // ---- 1: empty + all 1-byte strings ------------------------------------
    run.case(1, "len<=1", json!({"what": "empty string and all 128 one-byte strings x 4 hash types"}), |c| {
        check_hash(c, "", "len0");
        for b in 0..128u8 {
            let s = (b as char).to_string();
            check_hash(c, &s, "len1");
        }
    });
    // ---- 2..129: all ASCII pairs, by first byte ----------------------------
    for first in 0..128u8 {
        let idx = 2 + first as u64;
        run.case(idx, &format!("ascii2|first={first:#04x}"), json!({"what": "all 128 two-byte ASCII strings with this first byte x 4 types", "first": first}), |c| {
            let mut s = String::with_capacity(2);
            for second in 0..128u8 {
                s.clear();
                s.push(first as char);
                s.push(second as char);
                check_hash(c, &s, "ascii2");
            }
        });
    }
    // ---- 130..159: all 2-byte UTF-8 scalars by lead byte ----------------------
    for lead in 0xC2u32..=0xDF {
        let idx = 130 + (lead - 0xC2) as u64;
        run.case(idx, &format!("utf8-2|lead={lead:#x}"), json!({"what": "all 2-byte UTF-8 scalars with this lead byte", "lead": lead}), |c| {
            for cont in 0x80u32..=0xBF {
                let cp = ((lead & 0x1F) << 6) | (cont & 0x3F);
                if let Some(ch) = char::from_u32(cp) {
                    check_hash(c, &ch.to_string(), "utf8-2");
                }
            }
        });
    }
    // ---- 160..175: every 3-byte scalar by lead byte -------------------------
    for lead in 0xE0u32..=0xEF {
        let idx = 160 + (lead - 0xE0) as u64;
        run.case(idx, &format!("utf8-3|lead={lead:#x}"), json!({"what": "every 3-byte UTF-8 scalar with this lead byte", "lead": lead}), |c| {
            for low in 0u32..0x1000 {
                let cp = ((lead & 0x0F) << 12) | low;
                if cp < 0x800 {
                    continue;
                }
                if let Some(ch) = char::from_u32(cp) {
                    check_hash(c, &ch.to_string(), "utf8-3");
                }
            }
        });
    }
    // ---- 176..180: 4-byte scalars, stride --------------------------------
    for lead in 0xF0u32..=0xF4 {
        let idx = 176 + (lead - 0xF0) as u64;
        let stride = if thorough { 7 } else { 61 };
        run.case(idx, &format!("utf8-4|lead={lead:#x}"), json!({"what": "4-byte UTF-8 scalars with this lead byte, stride", "lead": lead, "stride": stride}), |c| {
            let mut cp = ((lead & 0x07) << 18).max(0x10000);
            let end = (((lead & 0x07) + 1) << 18).min(0x110000);
            while cp < end {
                if let Some(ch) = char::from_u32(cp) {
                    check_hash(c, &ch.to_string(), "utf8-4");
                }
                cp += stride;
            }
        });
    }
    // ---- 200..: random longer names + invariance + wrappers -------------------
    let nbatches = if thorough { 3000 } else { 100 };
    for bidx in 0..nbatches {
        let idx = 200 + bidx;
        let mut rng = run.rng(idx, 0);
        run.case(idx, &format!("names|batch%10={}", bidx % 10), json!({"what": "100 random names: hash vs reference, case/slash invariance, wrapper agreement", "batch": bidx}), |c| {
            for _ in 0..100 {
                let s = rand_name(&mut rng);
                check_hash(c, &s, "random");
                for v in variants(&s) {
                    for t in TYPES {
                        c.count("invariance_checks", 1);
                        if hash_string(&v, t) != hash_string(&s, t) {
                            c.violate(format!("hash-not-invariant|type={t:#x}"), format!("hash_string differs between {:?} and its case/slash variant {:?}", s, v), json!({"a": s, "b": v, "type": t}));
                        }
                    }
                }
                // convenience wrappers must agree with hash_string / het_hash
                let (a, b, off) = calculate_mpq_hashes(&s);
                c.count("wrapper_checks", 1);
                let want = (hash_string(&s, 0x100), hash_string(&s, 0x200), hash_string(&s, 0x000));
                if (a, b, off) != want {
                    let ascii = s.is_ascii();
                    c.violate(
                        format!("wrapper-mpq-hashes-ne-hash-string|ascii={ascii}"),
                        format!("calculate_mpq_hashes({:?}) = ({a:#x},{b:#x},{off:#x}) but hash_string gives ({:#x},{:#x},{:#x})", s, want.0, want.1, want.2),
                        json!({"name": s}),
                    );
                }
                for bits in [40u8, 48, 56, 64] {
                    let (fh, nh) = calculate_het_hashes(&s, bits);
                    let (fh2, nh2) = het_hash(&s, bits as u32);
                    if fh != fh2 || nh != nh2 as u64 {
                        c.violate("wrapper-het-hashes-ne-het-hash", format!("calculate_het_hashes({:?},{bits}) != het_hash", s), json!({"name": s, "bits": bits}));
                    }
                }
            }
        });
    }
    // ---- 1000..: cipher, exhaustive lengths 0..17 x keys --------------------
    {
        let mut krng = Rng::new(0xC04); // key list independent of VERIF_SEED for the fixed part
        let keys = cipher_keys(&mut krng);
        for (ki, &key) in keys.iter().enumerate() {
            let idx = 1000 + ki as u64;
            let mut rng = run.rng(idx, 1);
            run.case(idx, &format!("cipher-small|key={key:#010x}"), json!({"what": "lengths 0..=17 x {zero, ff, counting, 3 random} buffers", "key": key}), |c| {
                for len in 0..=17usize {
                    let mut bufs: Vec<Vec<u8>> = vec![vec![0u8; len], vec![0xFF; len], (0..len).map(|i| i as u8 + 1).collect()];
                    for _ in 0..3 {
                        bufs.push(rng.bytes(len));
                    }
                    for b in bufs {
                        check_cipher(c, &builder, key, &b, "small");
                    }
                }
            });
        }
    }
    // ---- 2000..: cipher, random large buffers ---------------------------------
    let nlarge = if thorough { 6000 } else { 300 };
    for i in 0..nlarge {
        let idx = 2000 + i;
        let mut rng = run.rng(idx, 2);
        // every tenth: units longer than 64 Ki dwords (a hash table of 32768 entries, an encrypted single-unit file of some
        // hundred KiB) - one key stream has to run through the whole unit
        let len = match i % 4 {
            _ if i % 10 == 9 => [262144 - 4 + rng.usize(12), 262144 + 4 + rng.usize(300_000), 524288 + rng.usize(9), (1 << 20) + rng.usize(400_000)][(i as usize / 10) % 4],
            0 => rng.usize(64),
            1 => 4096 + rng.usize(8),
            2 => rng.usize(65536),
            _ => 65536 - rng.usize(5),
        };
        let key = if i % 7 == 0 { rng.next_u32() | 0x8000_0000 } else { rng.next_u32() };
        run.case(idx, &format!("cipher-large|lenmod4={}|hi={}", len % 4, key >> 31), json!({"len": len, "key": key}), |c| {
            let b = rng.bytes(len);
            check_cipher(c, &builder, key, &b, "large");
            // an aligned version too, so the dword laws run on large buffers
            let n4 = len / 4 * 4;
            check_cipher(c, &builder, key, &b[..n4], "large");
        });
    }
    // ---- 3000..: Jenkins pair (HET/BET) -----------------------------------------
    let njen = if thorough { 1500 } else { 60 };
    for i in 0..njen {
        let idx = 3000 + i;
        let mut rng = run.rng(idx, 3);
        run.case(idx, &format!("jenkins|batch%10={}", i % 10), json!({"what": "100 names x hash widths (quick: 19 widths from 8 to 64 incl. non-multiples of 8; thorough: every width 8..=64): het_hash vs lookup3 of the folded name; fold direction must be one and the same for all names"}), |c| {
            for j in 0..100 {
                // lengths 0..40 systematically (all lookup3 tail cases 0..12 several times), then random
                let s = if j <= 40 { let mut t = rand_name(&mut rng); while t.len() > j as usize { t.pop(); } while t.len() < j as usize { t.push('q'); } t } else { rand_name(&mut rng) };
                let up: Vec<u8> = s.bytes().map(ref_fold_upper).collect();
                let lo: Vec<u8> = s.bytes().map(ref_fold_lower).collect();
                let want_up = ref_jenkins64(&up);
                let want_lo = ref_jenkins64(&lo);
                let widths: Vec<u32> = if thorough { (8..=64).collect() } else { vec![8, 9, 12, 15, 16, 17, 23, 24, 31, 32, 33, 40, 47, 48, 55, 56, 57, 63, 64] };
                for bits in widths {
                    let (fh, nh1) = het_hash(&s, bits);
                    c.count("jenkins_pairs", 1);
                    let (and_mask, or_mask) = if bits < 64 { ((1u64 << bits) - 1, 1u64 << (bits - 1)) } else { (u64::MAX, 0) };
                    let e_up = (want_up & and_mask) | or_mask;
                    let e_lo = (want_lo & and_mask) | or_mask;
                    let fold = if fh == e_up { "upper" } else if fh == e_lo { "lower" } else { "neither" };
                    if fold == "neither" {
                        c.violate(format!("het-hash-ne-lookup3|bits={bits}|lenmod12={}", s.len() % 12), format!("het_hash({:?},{bits}) = {fh:#x}; lookup3(upper-folded) = {e_up:#x}, lookup3(lower-folded) = {e_lo:#x}", s), json!({"name": s, "bits": bits}));
                    } else if e_up != e_lo {
                        c.count(if fold == "upper" { "jenkins_fold_upper" } else { "jenkins_fold_lower" }, 1);
                    }
                    let e_nh = if bits < 64 { (fh >> (bits - 8)) & 0xFF } else { fh >> 56 } as u8;
                    if nh1 != e_nh {
                        c.violate(format!("het-namehash1-ne-top-byte|bits={bits}"), format!("het_hash({:?},{bits}) name_hash1 = {nh1:#x}, top byte of the file hash = {e_nh:#x}", s), json!({"name": s, "bits": bits}));
                    }
                    // case/slash invariance of the Jenkins hash
                    for v in variants(&s) {
                        if het_hash(&v, bits).0 != fh {
                            c.violate(format!("het-hash-not-invariant|bits={bits}"), format!("het_hash differs between {:?} and {:?}", s, v), json!({"a": s, "b": v}));
                            break;
                        }
                    }
                }
            }
            let u = c.cnt.get("jenkins_fold_upper").copied().unwrap_or(0);
            let l = c.cnt.get("jenkins_fold_lower").copied().unwrap_or(0);
            if u > 0 && l > 0 {
                c.violate("het-hash-fold-inconsistent", format!("het_hash folds some names to upper ({u}) and some to lower ({l}) case"), json!({}));
            }
        });
    }
    // ---- 4000: the hash function the BET writer calls -----------------------------
    // builder.rs::create_bet_table stores `jenkins_hash(name)`; the reader (tables/bet.rs::verify_file_hash)
    // compares against het_hash(name, bet_hash_size) & mask. The statement requires lookup3.
    {
        let idx = 4000;
        let mut rng = run.rng(idx, 4);
        run.case(idx, "bet-writer-hash", json!({"what": "jenkins_hash (the function builder.rs::create_bet_table stores) vs lookup3 of the folded name, 200 names"}), |c| {
            let (mut ne, mut n, mut first) = (0, 0, String::new());
            for _ in 0..200 {
                let s = rand_name(&mut rng);
                let up: Vec<u8> = s.bytes().map(ref_fold_upper).collect();
                let lo: Vec<u8> = s.bytes().map(ref_fold_lower).collect();
                let got = wow_mpq::jenkins_hash(&s);
                n += 1;
                c.count("bet_writer_hash_pairs", 1);
                if got != ref_jenkins64(&up) && got != ref_jenkins64(&lo) {
                    ne += 1;
                    if first.is_empty() {
                        first = s.clone();
                    }
                }
            }
            if ne > 0 {
                c.violate("bet-writer-hash-ne-lookup3", format!("jenkins_hash(name) (the value builder.rs::create_bet_table stores as BET name hash) != lookup3 hashlittle2 of the folded name for {ne}/{n} names, first {:?}", first), json!({"first": first, "mismatches": ne, "of": n}));
            }
        });
    }
    // ---- 4000..: the hashes the extended tables of a built archive actually carry ---------
    // Observed behaviourally: build V3/V4 archives, open them, and read the BET name hashes back through
    // Archive::bet_table(). Each added name's lookup3 hash (folded, masked to bet_hash_size) must be stored.
    for (k, ver) in [(0u64, wow_mpq::FormatVersion::V3), (1, wow_mpq::FormatVersion::V4)] {
        let idx = 4001 + k;
        let mut rng = run.rng(idx, 4);
        let dir = std::path::PathBuf::from(&run.args.scratch);
        run.case(idx, &format!("bet-stored-hash|{ver:?}"), json!({"what": "BET name hashes stored by ArchiveBuilder vs lookup3 of the folded name, 40 names", "version": format!("{ver:?}")}), |c| {
            let mut names: Vec<String> = Vec::new();
            let mut b = ArchiveBuilder::new().version(ver);
            for i in 0..40 {
                let mut n = rand_name(&mut rng);
                n.retain(|ch| ch != '\u{1}' && ch != '\u{7f}');
                let n = format!("d{i}\\{}", n.trim_matches(|ch| ch == ' ' || ch == '\\' || ch == '/'));
                b = b.add_file_data(vec![i as u8; 10 + i], &n);
                names.push(n);
            }
            let path = dir.join(format!("c04-bet-{k}.mpq"));
            if let Err(e) = b.build(&path) {
                c.inconclusive(format!("could not build the probe archive: {e}"));
                return;
            }
            let ar = match wow_mpq::Archive::open(&path) {
                Ok(a) => a,
                Err(e) => {
                    c.inconclusive(format!("could not open the probe archive: {e}"));
                    return;
                }
            };
            let Some(bet) = ar.bet_table() else {
                // the archive as opened exposes no BET table (on the pinned tree the builder writes the HET/BET
                // header positions in swapped order and the reader falls back to the classic tables)
                c.skip("built archive exposes no BET table through Archive::bet_table()");
                c.nontrivial = false;
                return;
            };
            let bits = bet.header.bet_hash_size;
            let mask = if bits >= 64 { u64::MAX } else { (1u64 << bits) - 1 };
            let stored: std::collections::BTreeSet<u64> = (0..bet.header.file_count).filter_map(|i| bet.get_file_hash(i)).collect();
            let (mut ne, mut first) = (0, String::new());
            for n in &names {
                // normalised as the builder stores it
                let norm = n.replace('/', "\\");
                let up: Vec<u8> = norm.bytes().map(ref_fold_upper).collect();
                let lo: Vec<u8> = norm.bytes().map(ref_fold_lower).collect();
                c.count("bet_stored_hash_pairs", 1);
                let or_mask = if bits < 64 { 1u64 << (bits - 1) } else { 0 };
                let cands = [ref_jenkins64(&up) & mask, ref_jenkins64(&lo) & mask, (ref_jenkins64(&up) & mask) | or_mask, (ref_jenkins64(&lo) & mask) | or_mask];
                if !cands.iter().any(|h| stored.contains(h)) {
                    ne += 1;
                    if first.is_empty() {
                        first = n.clone();
                    }
                }
            }
            if ne > 0 {
                c.violate("bet-stored-hash-ne-lookup3", format!("the BET table of a built {ver:?} archive does not carry the lookup3 hashlittle2 hash (bet_hash_size {bits}) of {ne}/{} added names, first {:?}", names.len(), first), json!({"first": first, "mismatches": ne, "bits": bits}));
            }
            let _ = std::fs::remove_file(&path);
        });
    }
    // ---- 4100..: the table-body cipher pair (writer: ArchiveBuilder::encrypt_data, reader: tables/common.rs) ------------
    // An HET table image is assembled here (12-byte extended header + 32-byte header + hash bytes + packed indices), its body
    // encrypted with the function the builder uses, and read back through HetTable::read: the hash and index arrays must
    // come back byte for byte for every body length (all four residues mod 4) and key.
    for k in 0..(if thorough { 40u64 } else { 4 }) {
        let idx = 4100 + k;
        let mut rng = run.rng(idx, 5);
        run.case(idx, &format!("table-body-cipher|het|batch{}", k % 4), json!({"what": "HET images with 1..16 hash entries x index widths 1..8 bits, random and zero keys"}), |c| {
            for h in 1..=16usize {
                for isz in 1..=8usize {
                    let key = if (h + isz) % 9 == 0 { 0 } else { rng.next_u32() | 1 };
                    let ibytes = (h * isz).div_ceil(8);
                    let mut body: Vec<u8> = Vec::new();
                    for v in [(32 + h + ibytes) as u32, h as u32, h as u32, 8, (h * isz) as u32, 0, isz as u32, ibytes as u32] {
                        body.extend_from_slice(&v.to_le_bytes());
                    }
                    let hashes = rng.bytes(h);
                    let indices = rng.bytes(ibytes);
                    body.extend_from_slice(&hashes);
                    body.extend_from_slice(&indices);
                    let blen = body.len();
                    let mut image: Vec<u8> = Vec::new();
                    image.extend_from_slice(&0x1A54_4548u32.to_le_bytes());
                    image.extend_from_slice(&1u32.to_le_bytes());
                    image.extend_from_slice(&(blen as u32).to_le_bytes());
                    if key != 0 {
                        builder.encrypt_data(&mut body, key);
                    }
                    image.extend_from_slice(&body);
                    c.count("table_bodies", 1);
                    c.count(&format!("table_bodies|lenmod4={}", blen % 4), 1);
                    let n = image.len() as u64;
                    match vh_common::trap(|| wow_mpq::HetTable::read(&mut std::io::Cursor::new(&image), 0, n, key)) {
                        Ok(Ok(t)) => {
                            if t.hash_table != hashes || t.file_indices != indices {
                                let part = if t.hash_table != hashes { "hash-array" } else { "index-array" };
                                c.violate(format!("table-body-decrypt-not-inverse|het|{part}|lenmod4={}|key{}", blen % 4, if key == 0 { "=0" } else { "!=0" }),
                                    format!("HetTable::read of a {blen}-byte body encrypted with ArchiveBuilder::encrypt_data(key {key:#x}) returns a different {part}"), json!({"entries": h, "index_bits": isz, "key": key, "body_len": blen}));
                            }
                        }
                        Ok(Err(e)) => c.violate(format!("table-body-rejected|het|lenmod4={}", blen % 4), format!("HetTable::read rejects a well-formed {blen}-byte table body (key {key:#x}): {e}"), json!({"entries": h, "index_bits": isz})),
                        Err(p) => c.violate(format!("table-body-panic|het|{}", p.sig()), format!("HetTable::read panicked: {}", p.msg), json!({"entries": h, "index_bits": isz})),
                    }
                }
            }
        });
    }
    run.done();
}
