//! C09 — parallel extraction is observationally identical to sequential reading. DESIGN.md §6 C09.
//!
//! One case = one configuration (interface, archive(s), thread count, batch size, request shape, skip_errors),
//! executed `r` times with different `trace_start(delay_seed)` values while a few busy threads load the cores.
//! Oracle: a sequential baseline (`Archive::read_file` through one plain handle) computed once per archive;
//! every call is compared slot by slot with it, and all repeats must agree with each other.
//! From the task trace (hooks in single_archive_parallel.rs; for process_archives_parallel the harness' own
//! processor closure carries the guard) the worker derives, per call, the completion order and the task→thread
//! partition, and reports how many distinct ones each configuration saw.

use serde_json::{Value, json};
use std::collections::{BTreeMap, BTreeSet, HashMap};
use std::path::{Path, PathBuf};
use std::sync::Arc;
use std::sync::atomic::{AtomicBool, AtomicU64, Ordering};
use vh_common::{Case, Rng, Run, brief, first_diff, fnv64, gen_content, trap};
use wow_mpq::parallel::{extract_from_multiple_archives, extract_multiple_from_multiple_archives, process_archives_parallel, search_in_multiple_archives};
use wow_mpq::single_archive_parallel::{ParallelArchive, ParallelConfig, extract_with_config};
use wow_mpq::verif_hooks::{TaskEvent, TaskGuard, trace_start, trace_take};
use wow_mpq::{Archive, ArchiveBuilder, AttributesOption, Error, FormatVersion, ListfileOption};

// ------------------------------------------------------------------ fixtures

#[derive(Clone, Debug)]
enum Exp {
    Ok(Arc<Vec<u8>>),
    Err(String), // error variant name of the sequential read
}

impl Exp {
    fn is_err(&self) -> bool {
        matches!(self, Exp::Err(_))
    }
}

struct Fix {
    tag: String,
    path: PathBuf,
    names: Vec<String>,            // added names, in add order
    listing: Vec<String>,          // sequential Archive::list() names, in list order
    base: HashMap<String, Exp>,    // sequential read_file result per name (filled lazily for names never added)
    seq: Archive,                  // the one sequential handle all baselines come from
    src_equal: u64,                // baseline == bytes given to the builder (information only; that is C01's subject)
    src_differs: u64,
    history_dep: Vec<String>,      // names whose sequential answer on a used thread differed from the answer on a fresh thread
}

fn variant(e: &Error) -> String {
    let s = format!("{e:?}");
    s.split(|ch: char| !ch.is_alphanumeric()).next().unwrap_or("?").to_string()
}

impl Fix {
    fn expect(&mut self, name: &str) -> Exp {
        if let Some(e) = self.base.get(name) {
            return e.clone();
        }
        let e = match self.seq.read_file(name) {
            Ok(d) => Exp::Ok(Arc::new(d)),
            Err(e) => Exp::Err(variant(&e)),
        };
        self.base.insert(name.to_string(), e.clone());
        e
    }
}

const MISSING_PREFIX: &str = "missing\\nope";

struct Pending {
    name: String,
    data: Vec<u8>,
    method: u8,
    enc: u8, // 0 plain, 1 encrypted, 2 encrypted + fix key
}

fn build_fix(dir: &Path, tag: &str, files: Vec<Pending>) -> Result<Fix, String> {
    let path = dir.join(format!("c09-{tag}.mpq"));
    let _ = std::fs::remove_file(&path);
    // fixture "U": the archive's (listfile) names only every other member (an external listfile): the others are stored and
    // readable by name, but no listing mentions them (after C09-r7m2)
    let lf = if tag == "U" {
        let lp = dir.join("c09-U.listfile.txt");
        let txt: String = files.iter().step_by(2).map(|f| format!("{}\r\n", f.name)).collect();
        std::fs::write(&lp, txt).map_err(|e| e.to_string())?;
        ListfileOption::External(lp)
    } else {
        ListfileOption::Generate
    };
    let mut b = ArchiveBuilder::new().listfile_option(lf);
    // the version family: "for every archive" — later format versions (extended block table, HET/BET tables, V4 digests),
    // sector checksums + an (attributes) file, the smallest (512-byte) and other non-default sector sizes
    b = match tag {
        "V2" => b.version(FormatVersion::V2).attributes_option(AttributesOption::GenerateCrc32).block_size(0),
        "V3" => b.version(FormatVersion::V3).attributes_option(AttributesOption::GenerateCrc32).block_size(3),
        "V4" => b.version(FormatVersion::V4).attributes_option(AttributesOption::GenerateCrc32).block_size(0),
        "V4p" => b.version(FormatVersion::V4).block_size(7),
        _ => b,
    };
    for f in &files {
        b = match f.enc {
            0 => b.add_file_data_with_options(f.data.clone(), &f.name, f.method, false, 0),
            1 => b.add_file_data_with_encryption(f.data.clone(), &f.name, f.method, false, 0),
            _ => b.add_file_data_with_encryption(f.data.clone(), &f.name, f.method, true, 0),
        };
    }
    b.build(&path).map_err(|e| format!("build of fixture {tag} failed: {e}"))?;
    let mut seq = Archive::open(&path).map_err(|e| format!("open of fixture {tag} failed: {e}"))?;
    let listing: Vec<String> = seq.list().map_err(|e| format!("list of fixture {tag} failed: {e}"))?.into_iter().map(|e| e.name).collect();
    let mut fx = Fix { tag: tag.to_string(), path, names: files.iter().map(|f| f.name.clone()).collect(), listing, base: HashMap::new(), seq, src_equal: 0, src_differs: 0, history_dep: Vec::new() };
    for f in &files {
        match fx.expect(&f.name) {
            Exp::Ok(d) if *d == f.data => fx.src_equal += 1,
            _ => fx.src_differs += 1,
        }
    }
    let specials: Vec<String> = fx.listing.iter().filter(|n| n.starts_with('(')).cloned().collect();
    for s in specials {
        fx.expect(&s);
    }
    Ok(fx)
}

/// Fixture "D": a 1300-file archive in which, after the build, one sector of a multi-sector member is overwritten (no sector
/// checksums: the damage shows as a decompression error in the middle of the member). The member stored right behind the
/// damaged one is intact. What a sequential
/// reader answers is recorded per name with a fresh handle each (no state carried from one read to the next).
const DMG_MULTI: &str = "dmg\\multi.bin";
const DMG_AFTER: &str = "dmg\\after.bin";
const DMG_EOF: &str = "dmg\\eof.bin";

fn build_damaged_fix(dir: &Path, rng: &mut Rng) -> Result<Fix, String> {
    let mut files = files_many(rng, 1297, "D");
    let at = files.len() / 2;
    files.insert(at, Pending { name: DMG_MULTI.into(), data: gen_content(rng, "text", 20_000), method: 0x02, enc: 0 });
    files.insert(at + 1, Pending { name: DMG_AFTER.into(), data: rng.bytes(3000), method: 0, enc: 0 });
    files.push(Pending { name: DMG_EOF.into(), data: gen_content(rng, "text", 1500), method: 0x02, enc: 0 });
    // a second damaged member (a later sector overwritten completely) with an intact neighbour of its own
    let at2 = files.len() / 4;
    files.insert(at2, Pending { name: "dmg\\multi2.bin".into(), data: gen_content(rng, "text", 30_000), method: 0x02, enc: 0 });
    files.insert(at2 + 1, Pending { name: "dmg\\after2.bin".into(), data: rng.bytes(2000), method: 0, enc: 0 });
    let truth: HashMap<String, Vec<u8>> = files.iter().map(|f| (f.name.clone(), f.data.clone())).collect();
    let mut fx = build_fix(dir, "D", files)?;
    let multi = fx.seq.find_file(DMG_MULTI).ok().flatten().ok_or("D: no multi")?;
    let mut bytes = std::fs::read(&fx.path).map_err(|e| e.to_string())?;
    // (a) second sector of the multi-sector member: the sector offset table sits at the start of the stored file
    let fp = multi.file_pos as usize;
    let rd = |b: &[u8], o: usize| u32::from_le_bytes([b[o], b[o + 1], b[o + 2], b[o + 3]]) as usize;
    // (the first sector, behind its compression byte: the read fails right after the offset table, far from the member's end)
    let (s0, s1) = (rd(&bytes, fp), rd(&bytes, fp + 4));
    if !(s0 + 30 < s1 && fp + s1 <= bytes.len()) {
        return Err("D: unexpected sector table".into());
    }
    for x in bytes[fp + s0 + 1..fp + s0 + 25].iter_mut() {
        *x = 0xFF;
    }
    if let Some(m2) = fx.seq.find_file("dmg\\multi2.bin").ok().flatten() {
        let fp = m2.file_pos as usize;
        let (a, b) = (rd(&bytes, fp + 12), rd(&bytes, fp + 16));
        if a < b && fp + b <= bytes.len() {
            for x in bytes[fp + a..fp + b].iter_mut() {
                *x = 0xFF;
            }
        }
    }
    std::fs::write(&fx.path, &bytes).map_err(|e| e.to_string())?;
    // baselines afresh, one handle per name; every untouched member must still be what was added
    fx.seq = Archive::open(&fx.path).map_err(|e| format!("damaged fixture does not open: {e}"))?;
    fx.base.clear();
    fx.src_equal = 0;
    fx.src_differs = 0;
    for nme in fx.names.clone() {
        let e = match Archive::open(&fx.path).and_then(|mut a| a.read_file(&nme)) {
            Ok(d) => Exp::Ok(Arc::new(d)),
            Err(e) => Exp::Err(variant(&e)),
        };
        let intact = matches!(&e, Exp::Ok(d) if Some(&**d) == truth.get(&nme));
        if nme == "dmg\\multi2.bin" {
            // whatever a sequential reader makes of it (an error, or bytes that are not what was added) is the baseline
        } else if nme == DMG_MULTI {
            if !e.is_err() {
                return Err(format!("D: the damage to {nme} does not show in a sequential read"));
            }
        } else if !intact {
            // this thread has just seen reads of damaged members fail. The reference answer for a name is a function of
            // (archive, name): ask again with a fresh handle on a fresh thread. Intact there = the answer depends on what the
            // reading thread did before (reported as a violation of its own, after C09-r6m1); damaged there too = the
            // fixture is not what it was meant to be
            let (p2, n2) = (fx.path.clone(), nme.clone());
            let fresh = std::thread::spawn(move || Archive::open(&p2).and_then(|mut a| a.read_file(&n2))).join();
            match fresh {
                Ok(Ok(d)) if Some(&d) == truth.get(&nme) => {
                    fx.history_dep.push(format!("{nme}: {} on the thread that had read the damaged members before, intact ({} bytes) with a fresh handle on a fresh thread", match &e { Exp::Ok(b) => format!("Ok({} other bytes)", b.len()), Exp::Err(v) => format!("Err({v})") }, d.len()));
                    fx.src_equal += 1;
                    fx.base.insert(nme, Exp::Ok(Arc::new(d)));
                    continue;
                }
                _ => return Err(format!("D: the untouched member {nme} no longer reads back")),
            }
        }
        if intact { fx.src_equal += 1 } else { fx.src_differs += 1 }
        fx.base.insert(nme, e);
    }
    Ok(fx)
}

/// Names present in every fixture (different content per archive), used by the multi-archive helpers.
const COMMON: &str = "common.txt";
const SHARED_A: &str = "shared\\a.bin";
const MOST: &str = "most.txt"; // present everywhere except P5

fn common_files(rng: &mut Rng, tag: &str, with_most: bool) -> Vec<Pending> {
    let (la, lm) = (700 + rng.usize(900), 300 + rng.usize(300));
    let mut v = vec![
        Pending { name: COMMON.into(), data: format!("common content of archive {tag} / {:016x}", rng.next_u64()).into_bytes(), method: 0x02, enc: 0 },
        Pending { name: SHARED_A.into(), data: gen_content(rng, "text", la), method: 0x10, enc: 0 },
    ];
    if with_most {
        v.push(Pending { name: MOST.into(), data: gen_content(rng, "half", lm), method: 0x02, enc: 0 });
    }
    v
}

/// ~40 files: methods none/zlib/bzip2, boundary and multi-sector sizes (sector = 4096), a zero-length file,
/// encrypted files whose names have no directory component. Large files first, so that tasks started first
/// tend to finish last. No PKWare, no highly repetitive large content (C01/C03 findings stay out).
fn files_small(rng: &mut Rng) -> Vec<Pending> {
    let sizes = [150_000usize, 70_000, 33_000, 20_000, 12_289, 8_192, 5_000, 4_097, 4_096, 4_095, 1_000, 513, 512, 511, 100, 7, 2, 1, 0];
    let methods = [0x00u8, 0x02, 0x10];
    let big_classes = ["random", "text", "half", "text"];
    let small_classes = ["random", "zero", "period3", "sparse", "text", "half", "ff", "runs"];
    let mut v = Vec::new();
    let mut k = 0usize;
    for round in 0..2 {
        for (si, &sz) in sizes.iter().enumerate() {
            if round == 1 && sz > 40_000 {
                continue;
            }
            let method = methods[(si + round) % 3];
            let class = if sz > 2048 { big_classes[(si + round) % big_classes.len()] } else { small_classes[(si + 3 * round) % small_classes.len()] };
            let len = if round == 1 && sz > 16 { sz - 1 - rng.usize(5) } else { sz };
            let enc = if k % 5 == 4 { 1 + (k / 5 % 2) as u8 } else { 0 };
            let name = if enc != 0 { format!("enc_{k:02}.dat") } else { format!("{}\\f{k:02}_{len}.bin", ["Data", "World\\Maps", "Interface"][k % 3]) };
            v.push(Pending { name, data: gen_content(rng, class, len), method, enc });
            k += 1;
        }
    }
    v.extend(common_files(rng, "S", true));
    v
}

fn files_many(rng: &mut Rng, n: usize, tag: &str) -> Vec<Pending> {
    let mut v = Vec::with_capacity(n + 3);
    for k in 0..n {
        let len = match k % 50 {
            7 => 6_000 + rng.usize(3_000),
            23 => 0,
            _ => rng.usize(600),
        };
        let class = ["random", "text", "half", "random"][k % 4];
        let method = [0x02u8, 0x02, 0x00, 0x02, 0x10][k % 5];
        let enc = if k % 100 == 99 { 1 } else { 0 };
        let name = if enc != 0 { format!("encm_{k:04}.dat") } else { format!("grp{:02}\\file_{k:04}.dat", k % 13) };
        v.push(Pending { name, data: gen_content(rng, class, len), method, enc });
    }
    v.extend(common_files(rng, tag, true));
    v
}

fn files_patch(rng: &mut Rng, i: usize) -> Vec<Pending> {
    let mut v = common_files(rng, &format!("P{i}"), i != 5);
    v.push(Pending { name: format!("uniq_{i}.txt"), data: format!("unique to archive {i}").into_bytes(), method: 0x00, enc: 0 });
    v.push(Pending { name: "shared\\b.bin".into(), data: gen_content(rng, "random", 5_000 + 1_000 * i), method: 0x02, enc: 0 });
    for j in 0..3 + i {
        v.push(Pending { name: format!("p{i}\\extra_{j}.dat"), data: gen_content(rng, "text", 50 + 37 * j), method: 0x02, enc: 0 });
    }
    v
}

// --------------------------------------------------------------------- plan

#[derive(Clone, Copy, Debug, PartialEq, Eq)]
enum Api {
    Ewc,
    Efp,
    Efb,
    Emp,
    Pfp,
    Efm,
    Emfm,
    Search,
    Pap,
}

impl Api {
    fn name(self) -> &'static str {
        match self {
            Api::Ewc => "extract_with_config",
            Api::Efp => "extract_files_parallel",
            Api::Efb => "extract_files_batched",
            Api::Emp => "extract_matching_parallel",
            Api::Pfp => "process_files_parallel",
            Api::Efm => "extract_from_multiple_archives",
            Api::Emfm => "extract_multiple_from_multiple_archives",
            Api::Search => "search_in_multiple_archives",
            Api::Pap => "process_archives_parallel",
        }
    }
}

#[derive(Clone, Copy, Debug)]
enum Bat {
    F(usize),
    Nm1,
    N,
    Np1,
    NA,
}

impl Bat {
    fn label(self) -> String {
        match self {
            Bat::F(k) => format!("{k}"),
            Bat::Nm1 => "N-1".into(),
            Bat::N => "N".into(),
            Bat::Np1 => "N+1".into(),
            Bat::NA => "-".into(),
        }
    }
    /// Batch sizes are quantified over 1..; 0 is not driven (chunks(0) panics, DESIGN §6 C09 F).
    fn resolve(self, n: usize) -> usize {
        match self {
            Bat::F(k) => k,
            Bat::Nm1 => n.saturating_sub(1).max(1),
            Bat::N => n.max(1),
            Bat::Np1 => n + 1,
            Bat::NA => 10,
        }
    }
}

// "every batch size": callers pass usize::MAX (or another huge value) to mean "everything in one batch"
const BATCHES: [Bat; 10] = [Bat::F(1), Bat::F(2), Bat::F(9), Bat::F(10), Bat::F(11), Bat::Nm1, Bat::N, Bat::Np1, Bat::F(1 << 40), Bat::F(usize::MAX)];
const THREADS: [usize; 6] = [1, 2, 3, 7, 16, 32];
/// Thread-axis value "ParallelConfig.num_threads = Some(0)": rayon reads 0 as "pick the number yourself", so the call is the
/// same request as with None and must answer like it (only extract_with_config has the parameter).
const T_ZERO: usize = usize::MAX;
const VERSIONED: [&str; 4] = ["V2", "V3", "V4", "V4p"];

fn tlabel(t: usize) -> String {
    if t == T_ZERO { "some0".into() } else { format!("{t}") }
}

#[derive(Clone, Debug)]
struct Spec {
    api: Api,
    fix: &'static str,   // archive tag, or the archive-list shape for the multi-archive helpers
    threads: usize,      // 0 = whatever pool the library picks by default (None); T_ZERO = Some(0)
    bat: Bat,
    shape: &'static str, // request shape / predicate / name selection
    skip: bool,
    light: bool,         // long request: fewer repeats in thorough
}

const MISS_AT_12: [&str; 12] = [
    "miss-at:12@0", "miss-at:12@1", "miss-at:12@2", "miss-at:12@3", "miss-at:12@4", "miss-at:12@5", "miss-at:12@6", "miss-at:12@7", "miss-at:12@8", "miss-at:12@9", "miss-at:12@10", "miss-at:12@11",
];

const SMALL_SHAPES: [&str; 20] = [
    "empty", "single", "single-missing", "dup:2", "dup:17", "alt2:40", "pairs:40", "few3:64", "all", "rev", "shuffled", "first:39", "cycle:41", "spellings", "miss-first:40", "miss-middle:40",
    "miss-last:40", "miss-every:12", "miss-alt:40", "miss-dup:40",
];

fn plan(thorough: bool) -> Vec<Spec> {
    let mut v: Vec<Spec> = Vec::new();
    let mut rot = 0usize; // rotates the thread axis where the full product is not taken
    let all_threads: Vec<usize> = THREADS.iter().copied().chain(std::iter::once(0)).collect();
    let mut some_threads = |k: usize| -> Vec<usize> {
        if thorough {
            THREADS.to_vec()
        } else {
            let mut t = Vec::new();
            for _ in 0..k {
                t.push(THREADS[rot % THREADS.len()]);
                rot += 1;
            }
            t
        }
    };
    // A. extract_with_config, <= 1000 names (per-file tasks)
    for shape in SMALL_SHAPES {
        for skip in [false, true] {
            for &t in &all_threads {
                v.push(Spec { api: Api::Ewc, fix: "S", threads: t, bat: Bat::NA, shape, skip, light: false });
            }
        }
    }
    // the damaged archive: whole content in storage order (> 1000 names: batched path) and the neighbourhood of the damage
    // (per-file path), with and without error skipping
    for shape in ["all", "around-damage"] {
        for skip in [true, false] {
            for t in [0usize, 3] {
                v.push(Spec { api: Api::Ewc, fix: "D", threads: t, bat: Bat::F(10), shape, skip, light: true });
            }
        }
    }
    // a never-added name at every position in turn (12-name request)
    for shape in MISS_AT_12 {
        for skip in [false, true] {
            for t in some_threads(1) {
                v.push(Spec { api: Api::Ewc, fix: "S", threads: t, bat: Bat::NA, shape, skip, light: false });
            }
        }
    }
    for shape in ["first:1000", "first:999", "miss-middle:1000", "miss-alt:1000"] {
        for skip in [false, true] {
            for t in some_threads(2) {
                v.push(Spec { api: Api::Ewc, fix: "M", threads: t, bat: Bat::F(10), shape, skip, light: true });
            }
        }
    }
    // B. extract_with_config, > 1000 names (batched path) and > 5000 (batch-size formula)
    let long_shapes: [(&str, &str); 10] = [
        ("M", "first:1001"), ("M", "all"), ("S", "cycle:1001"), ("M", "miss-first:1001"), ("M", "miss-middle:1001"), ("M", "miss-last:1001"), ("M", "miss-alt:1001"), ("S", "miss-every:1001"),
        ("S", "cycle:5001"), ("S", "miss-middle:5001"),
    ];
    for (fix, shape) in long_shapes {
        for (bi, bat) in BATCHES.into_iter().enumerate() {
            // quick: the 5001-name requests (about 40 % of the quick wall time) take every other batch size: 1, 9, 11, N
            if !thorough && shape.ends_with(":5001") && bi % 2 == 1 {
                continue;
            }
            for skip in [false, true] {
                for t in some_threads(1) {
                    v.push(Spec { api: Api::Ewc, fix, threads: t, bat, shape, skip, light: true });
                }
            }
        }
    }
    for bat in [Bat::F(10), Bat::F(1)] {
        v.push(Spec { api: Api::Ewc, fix: "M", threads: 0, bat, shape: "all", skip: true, light: true });
    }
    // batched path: a never-added name on either side of the first and the last batch boundary (batch 10, 1001 names)
    for shape in ["miss-at:1001@9", "miss-at:1001@10", "miss-at:1001@11", "miss-at:1001@989", "miss-at:1001@990", "miss-at:1001@999", "miss-at:1001@1000"] {
        for skip in [false, true] {
            for t in some_threads(1) {
                v.push(Spec { api: Api::Ewc, fix: "M", threads: t, bat: Bat::F(10), shape, skip, light: true });
            }
        }
    }
    // extract_files_batched: a never-added name at every position in turn, batch 5 over 12 names
    for shape in MISS_AT_12 {
        for t in some_threads(1) {
            v.push(Spec { api: Api::Efb, fix: "S", threads: t, bat: Bat::F(5), shape, skip: false, light: false });
        }
    }
    if thorough {
        // the 5200-file archive: every batch size x skip_errors, three of the six thread counts per combination (rotating)
        let mut r3 = 0usize;
        for shape in ["all", "first:5001", "miss-middle:5200"] {
            for bat in BATCHES {
                for skip in [false, true] {
                    for _ in 0..3 {
                        v.push(Spec { api: Api::Ewc, fix: "L", threads: THREADS[r3 % THREADS.len()], bat, shape, skip, light: true });
                        r3 += 1;
                    }
                    r3 += 1; // shift the window so that all thread counts meet all batch sizes
                }
            }
        }
    }
    // the archive whose listfile names only half of its members, through every interface that takes names
    for shape in ["all", "shuffled", "alt2:40", "miss-middle:40"] {
        for t in some_threads(2) {
            v.push(Spec { api: Api::Ewc, fix: "U", threads: t, bat: Bat::NA, shape, skip: shape.starts_with("miss"), light: false });
            v.push(Spec { api: Api::Efp, fix: "U", threads: t, bat: Bat::NA, shape, skip: false, light: false });
            v.push(Spec { api: Api::Pfp, fix: "U", threads: t, bat: Bat::NA, shape, skip: false, light: false });
            v.push(Spec { api: Api::Efb, fix: "U", threads: t, bat: Bat::F(5), shape, skip: false, light: false });
        }
    }
    // the version family (V2 / V3 / V4 with sector checksums and an attributes file, 512-byte / 4 KiB sectors; V4 with 64 KiB
    // sectors and no checksums) through every single-archive interface
    for fix in VERSIONED {
        for shape in ["all", "shuffled", "dup:17", "miss-middle:40", "spellings"] {
            for skip in [false, true] {
                for t in some_threads(1) {
                    v.push(Spec { api: Api::Ewc, fix, threads: t, bat: Bat::NA, shape, skip, light: false });
                }
            }
        }
        for t in some_threads(1) {
            v.push(Spec { api: Api::Efp, fix, threads: t, bat: Bat::NA, shape: "all", skip: false, light: false });
            v.push(Spec { api: Api::Efp, fix, threads: t, bat: Bat::NA, shape: "alt2:40", skip: false, light: false });
            v.push(Spec { api: Api::Efb, fix, threads: t, bat: Bat::F(5), shape: "all", skip: false, light: false });
            v.push(Spec { api: Api::Pfp, fix, threads: t, bat: Bat::NA, shape: "shuffled", skip: false, light: false });
            v.push(Spec { api: Api::Emp, fix, threads: t, bat: Bat::NA, shape: "pred-all", skip: false, light: false });
            v.push(Spec { api: Api::Emp, fix, threads: t, bat: Bat::NA, shape: "pred-specials", skip: false, light: false });
        }
    }
    for (fix, bat) in [("V4", Bat::F(10)), ("V2", Bat::F(9))] {
        for skip in [false, true] {
            for t in some_threads(1) {
                v.push(Spec { api: Api::Ewc, fix, threads: t, bat, shape: if skip { "miss-middle:1001" } else { "cycle:1001" }, skip, light: true });
            }
        }
    }
    // num_threads = Some(0) on all three code paths of extract_with_config (<= 1000 names, > 1000, > 5000)
    for shape in ["empty", "single", "all", "dup:17", "miss-middle:40"] {
        for skip in [false, true] {
            v.push(Spec { api: Api::Ewc, fix: "S", threads: T_ZERO, bat: Bat::NA, shape, skip, light: false });
        }
    }
    for (fix, shape, bats) in [("M", "first:1001", &[Bat::F(10), Bat::F(1)][..]), ("M", "miss-middle:1001", &[Bat::F(10)][..]), ("S", "cycle:5001", &[Bat::F(10), Bat::F(1), Bat::N][..]), ("S", "miss-middle:5001", &[Bat::F(10)][..])] {
        for (bi, &bat) in bats.iter().enumerate() {
            // quick: one batch size per request, and one 5001-name request
            if !thorough && (bi > 0 || shape == "miss-middle:5001") {
                continue;
            }
            for skip in [false, true] {
                v.push(Spec { api: Api::Ewc, fix, threads: T_ZERO, bat, shape, skip, light: true });
            }
        }
    }
    // C. ParallelArchive::extract_files_parallel
    for shape in SMALL_SHAPES {
        for &t in &all_threads {
            v.push(Spec { api: Api::Efp, fix: "S", threads: t, bat: Bat::NA, shape, skip: false, light: false });
        }
    }
    for shape in ["first:1001", "all", "miss-last:1300"] {
        for t in some_threads(2) {
            v.push(Spec { api: Api::Efp, fix: "M", threads: t, bat: Bat::NA, shape, skip: false, light: true });
        }
    }
    // D. ParallelArchive::extract_files_batched
    for shape in ["all", "first:39", "cycle:41", "shuffled", "dup:17", "alt2:40", "pairs:40", "single", "empty", "miss-first:40", "miss-middle:40", "miss-last:40", "first:20", "cycle:100"] {
        for bat in BATCHES {
            for t in some_threads(2) {
                v.push(Spec { api: Api::Efb, fix: "S", threads: t, bat, shape, skip: false, light: false });
            }
        }
    }
    for bat in BATCHES {
        for t in some_threads(1) {
            v.push(Spec { api: Api::Efb, fix: "M", threads: t, bat, shape: "all", skip: false, light: true });
        }
    }
    v.push(Spec { api: Api::Efb, fix: "S", threads: 0, bat: Bat::F(3), shape: "all", skip: false, light: false });
    // E. ParallelArchive::extract_matching_parallel
    for (fix, light) in [("S", false), ("M", true)] {
        for shape in ["pred-all", "pred-none", "pred-one", "pred-suffix", "pred-mod3", "pred-specials"] {
            for &t in &all_threads {
                v.push(Spec { api: Api::Emp, fix, threads: t, bat: Bat::NA, shape, skip: false, light });
            }
        }
    }
    // F. ParallelArchive::process_files_parallel
    for shape in ["empty", "single", "dup:17", "alt2:40", "pairs:40", "few3:64", "all", "shuffled", "cycle:41", "miss-first:40", "miss-middle:40", "miss-last:40", "spellings"] {
        for &t in &all_threads {
            v.push(Spec { api: Api::Pfp, fix: "S", threads: t, bat: Bat::NA, shape, skip: false, light: false });
        }
    }
    for t in some_threads(2) {
        v.push(Spec { api: Api::Pfp, fix: "M", threads: t, bat: Bat::NA, shape: "all", skip: false, light: true });
    }
    // G. multi-archive helpers (fix = archive-list shape, shape = what is asked of each archive)
    let lists = ["l-empty", "l-single", "l-dup5", "l-allP", "l-big-first", "l-big-last", "l-mixed12", "l-n33", "l-bad-first", "l-bad-middle", "l-bad-last", "l-bad-all"];
    for (api, asks) in [
        (Api::Efm, &["common", "most", "absent"][..]),
        (Api::Emfm, &["names0", "names1", "names3dup", "names-most", "names-absent-last"][..]),
        (Api::Search, &["pat-common", "pat-uniq", "pat-empty", "pat-none", "pat-shared"][..]),
        (Api::Pap, &["proc-common", "proc-most"][..]),
    ] {
        for fix in lists {
            for &shape in asks {
                for t in some_threads(2) {
                    v.push(Spec { api, fix, threads: t, bat: Bat::NA, shape, skip: false, light: false });
                }
            }
        }
        v.push(Spec { api, fix: "l-big-first", threads: 0, bat: Bat::NA, shape: asks[0], skip: false, light: false });
    }
    // fixed (seed-independent) permutation: spreads the long requests over the shards and makes the first cases of a
    // shard — the ones written out as samples — a mixture of interfaces
    let mut keyed: Vec<(u64, Spec)> = v.into_iter().enumerate().map(|(i, s)| (mix(i as u64), s)).collect();
    keyed.sort_by_key(|x| x.0);
    keyed.into_iter().map(|x| x.1).collect()
}

// ----------------------------------------------------------------- requests

fn missing_name(k: usize) -> String {
    format!("{MISSING_PREFIX}{k}.bin")
}

fn alt_case(s: &str, upper: bool) -> String {
    if upper { s.to_ascii_uppercase() } else { s.to_ascii_lowercase() }
}

/// The request list of a single-archive case. `missing` = positions deliberately filled with never-added names.
fn build_request(shape: &str, fx: &Fix, rng: &mut Rng) -> Vec<String> {
    // "kind", "kind:N" or "kind:N@K" (K = a position)
    let (kind, n, at) = match shape.split_once(':') {
        Some((k, rest)) => match rest.split_once('@') {
            Some((n, a)) => (k, n.parse::<usize>().unwrap_or(0), a.parse::<usize>().unwrap_or(0)),
            None => (k, rest.parse::<usize>().unwrap_or(0), 0),
        },
        None => (shape, 0, 0),
    };
    let names = &fx.names;
    let mut shuffled: Vec<String> = names.clone();
    rng.shuffle(&mut shuffled);
    let take = |src: &Vec<String>, n: usize| -> Vec<String> { (0..n).map(|i| src[i % src.len()].clone()).collect() };
    match kind {
        "empty" => vec![],
        "single" => vec![rng.pick(names).clone()],
        "single-missing" => vec![missing_name(0)],
        "dup" => vec![rng.pick(names).clone(); n],
        // duplicates in flight at the same time as other names: two names alternating (one of them large), every name
        // twice in a row, and a long list over three names
        "alt2" => {
            let a = names[rng.usize(names.len().min(6))].clone();
            let b = shuffled.iter().find(|x| **x != a).cloned().unwrap_or_else(|| a.clone());
            (0..n).map(|i| if i % 2 == 0 { a.clone() } else { b.clone() }).collect()
        }
        "pairs" => (0..n).map(|i| shuffled[(i / 2) % shuffled.len()].clone()).collect(),
        "few3" => {
            let k = shuffled.len().min(3);
            (0..n).map(|_| shuffled[rng.usize(k)].clone()).collect()
        }
        "all" => names.clone(),
        "around-damage" => {
            // the damaged member, the intact member stored right behind it, and their neighbours, in storage order
            let at = names.iter().position(|x| x == DMG_MULTI).unwrap_or(0);
            let mut v: Vec<String> = names[at.saturating_sub(3)..(at + 5).min(names.len())].to_vec();
            v.push(DMG_EOF.to_string());
            v.extend(names.iter().take(4).cloned());
            v
        }
        "rev" => names.iter().rev().cloned().collect(),
        "shuffled" => shuffled,
        "first" => take(names, n.min(names.len())),
        "cycle" => take(names, n),
        "spellings" => names.iter().enumerate().map(|(i, s)| alt_case(s, i % 2 == 0)).collect(),
        "miss-first" | "miss-middle" | "miss-last" | "miss-alt" | "miss-dup" => {
            let mut v = take(&shuffled, n);
            match kind {
                "miss-first" => v[0] = missing_name(1),
                "miss-middle" => v[n / 2] = missing_name(2),
                "miss-last" => v[n - 1] = missing_name(3),
                "miss-alt" => {
                    for i in (0..n).step_by(2) {
                        v[i] = missing_name(100 + i);
                    }
                }
                _ => {
                    for i in [0, n / 2, n - 1] {
                        v[i] = missing_name(4);
                    }
                }
            }
            v
        }
        "miss-every" => (0..n).map(|i| missing_name(1000 + i % 7)).collect(),
        // one never-added name at exactly position K of an N-name request
        "miss-at" => {
            let mut v = take(&shuffled, n);
            v[at.min(n - 1)] = missing_name(5);
            v
        }
        _ => panic!("harness: unknown request shape {shape}"),
    }
}

fn archive_list(shape: &str, fixes: &[Fix], rng: &mut Rng) -> Vec<usize> {
    let ix = |tag: &str| fixes.iter().position(|f| f.tag == tag).unwrap_or_else(|| panic!("harness: no fixture {tag}"));
    let p: Vec<usize> = (0..6).map(|i| ix(&format!("P{i}"))).collect();
    let (s, m) = (ix("S"), ix("M"));
    match shape {
        "l-empty" => vec![],
        "l-single" => vec![p[2]],
        "l-dup5" => vec![p[1]; 5],
        "l-allP" => p.clone(),
        "l-big-first" => [vec![m, s], p.clone()].concat(),
        "l-big-last" => [p.clone(), vec![s, m]].concat(),
        "l-mixed12" => {
            let pool: Vec<usize> = [p.clone(), vec![s, m]].concat();
            (0..12).map(|_| *rng.pick(&pool)).collect()
        }
        "l-n33" => (0..33).map(|i| if i % 6 == 5 { s } else { p[i % 6] }).collect(),
        "l-bad-first" => vec![p[5], p[0], p[1], p[2], p[3], p[4]],
        "l-bad-middle" => vec![p[0], p[1], p[5], p[2], p[3]],
        "l-bad-last" => vec![m, p[0], p[1], p[2], p[3], p[4], p[5]],
        "l-bad-all" => vec![p[5]; 3],
        _ => panic!("harness: unknown archive list {shape}"),
    }
}

// ------------------------------------------------------------------ outcome

#[derive(Clone, Debug, PartialEq)]
enum SlotR {
    Ok(Vec<u8>),
    Err(String),
}

enum Outcome {
    CallErr(String),                // the whole call returned Err (text kept for the witness)
    Slots(Vec<(String, SlotR)>),    // one entry per returned slot
}

fn digest(o: &Outcome) -> u64 {
    match o {
        // which of several failing names is reported is not part of the statement: only "the call failed"
        Outcome::CallErr(_) => 0xE77,
        Outcome::Slots(v) => {
            let mut h = 0xcbf2_9ce4_8422_2325u64 ^ v.len() as u64;
            for (n, r) in v {
                h = (h ^ fnv64(n.as_bytes())).wrapping_mul(0x0000_0100_0000_01B3);
                let x = match r {
                    SlotR::Ok(d) => fnv64(d) ^ (d.len() as u64).rotate_left(32),
                    SlotR::Err(k) => fnv64(k.as_bytes()) ^ 0xEEEE,
                };
                h = (h ^ x).wrapping_mul(0x0000_0100_0000_01B3);
            }
            h
        }
    }
}

/// Compare one call with the sequential expectation. `skip`: Some(b) for extract_with_config, None for interfaces
/// without the option (they behave as "without error-skipping": any failing name fails the call).
fn check_outcome(c: &mut Case, api: &str, path: &str, req: &[String], exp: &[Exp], skip: Option<bool>, out: &Outcome, ctx: &Value) {
    let any_fail = exp.iter().any(|e| e.is_err());
    let skipping = skip == Some(true);
    c.count("calls_compared", 1);
    match out {
        Outcome::CallErr(text) => {
            if !any_fail {
                c.violate(format!("call-failed-without-failing-name|{api}|{path}"), format!("{api} returned Err ({text}) although every requested name reads sequentially"), json!({"ctx": ctx, "request_len": req.len()}));
            } else if skipping {
                c.violate(format!("skip-errors-call-failed|{api}|{path}"), format!("{api} with skip_errors=true returned Err ({text}) instead of per-slot errors"), json!({"ctx": ctx, "request_len": req.len()}));
            } else {
                c.count("whole_call_err_as_required", 1);
            }
        }
        Outcome::Slots(slots) => {
            if any_fail && !skipping {
                let pos: Vec<usize> = exp.iter().enumerate().filter(|(_, e)| e.is_err()).map(|(i, _)| i).take(5).collect();
                c.violate(
                    format!("no-skip-errors-returned-ok|{api}|{path}"),
                    format!("{api} returned Ok with {} slots although the names at positions {:?}… fail sequentially and error-skipping is off", slots.len(), pos),
                    json!({"ctx": ctx, "request_len": req.len(), "failing_positions": pos}),
                );
                return;
            }
            if slots.len() != req.len() {
                c.violate(format!("result-length|{api}|{path}"), format!("{api} returned {} slots for {} requested names", slots.len(), req.len()), json!({"ctx": ctx, "request_len": req.len(), "result_len": slots.len()}));
                return;
            }
            let known: HashMap<&str, &Exp> = req.iter().map(|s| s.as_str()).zip(exp.iter()).collect();
            for (i, (name, got)) in slots.iter().enumerate() {
                c.count("slots_compared", 1);
                let want = if name == &req[i] {
                    &exp[i]
                } else {
                    c.violate(
                        format!("slot-order|{api}|{path}"),
                        format!("{api}: slot {i} carries name {name:?}, requested name at that index is {:?}", req[i]),
                        json!({"ctx": ctx, "index": i, "request_len": req.len(), "slot_name": name, "requested": req[i]}),
                    );
                    // the payload is still judged against the name the slot claims, if that name was requested at all
                    match known.get(name.as_str()) {
                        Some(e) => *e,
                        None => continue,
                    }
                };
                let leak = skipping && any_fail;
                match (want, got) {
                    (Exp::Ok(w), SlotR::Ok(g)) => {
                        c.count("payload_bytes_compared", g.len() as u64);
                        if **w != *g {
                            let sig = if leak { format!("skip-errors-slot-leak|{api}|{path}") } else { format!("slot-payload|{api}|{path}") };
                            c.violate(
                                sig,
                                format!("{api}: slot {i} ({name:?}) holds {} bytes differing from the sequential read ({} bytes), first difference at {}", g.len(), w.len(), first_diff(g, w)),
                                json!({"ctx": ctx, "index": i, "want": brief(w), "got": brief(g)}),
                            );
                        }
                    }
                    (Exp::Ok(w), SlotR::Err(k)) => {
                        let sig = if leak { format!("skip-errors-slot-leak|{api}|{path}") } else { format!("slot-payload|{api}|{path}") };
                        c.violate(sig, format!("{api}: slot {i} ({name:?}) is Err({k}) although the sequential read returns {} bytes", w.len()), json!({"ctx": ctx, "index": i, "want": brief(w), "got_err": k}));
                    }
                    (Exp::Err(k), SlotR::Ok(g)) => {
                        c.violate(
                            format!("skip-errors-failing-slot-ok|{api}|{path}"),
                            format!("{api}: slot {i} ({name:?}) is Ok({} bytes) although the sequential read fails with {k}", g.len()),
                            json!({"ctx": ctx, "index": i, "got": brief(g), "want_err": k}),
                        );
                    }
                    (Exp::Err(k), SlotR::Err(g)) => {
                        c.count("error_slots_compared", 1);
                        if k != g {
                            c.violate(format!("slot-error-kind|{api}|{path}"), format!("{api}: slot {i} ({name:?}) fails with {g}, the sequential read fails with {k}"), json!({"ctx": ctx, "index": i}));
                        }
                    }
                }
            }
        }
    }
}

// -------------------------------------------------------------------- trace

struct Sched {
    completion: u64,
    assignment: u64,
    max_conc: usize,
    tasks: usize,
    threads_used: usize,
}

fn analyse(ev: &[TaskEvent]) -> Option<Sched> {
    if ev.is_empty() {
        return None;
    }
    let mut completion = 0xcbf2_9ce4_8422_2325u64;
    let mut groups: HashMap<u64, Vec<&str>> = HashMap::new();
    let (mut conc, mut max_conc, mut tasks) = (0usize, 0usize, 0usize);
    for e in ev {
        match e.kind {
            "start" => {
                tasks += 1;
                conc += 1;
                max_conc = max_conc.max(conc);
                groups.entry(e.thread).or_default().push(e.label.as_str());
            }
            "end" => {
                conc = conc.saturating_sub(1);
                completion = (completion ^ fnv64(e.label.as_bytes())).wrapping_mul(0x0000_0100_0000_01B3);
            }
            _ => {}
        }
    }
    // canonical task→thread partition: thread identities are dropped (every call may get a fresh pool)
    let mut parts: Vec<Vec<&str>> = groups.into_values().map(|mut g| { g.sort_unstable(); g }).collect();
    parts.sort();
    let mut assignment = 0xcbf2_9ce4_8422_2325u64;
    for p in &parts {
        assignment = (assignment ^ 0xFF).wrapping_mul(0x0000_0100_0000_01B3);
        for l in p {
            assignment = (assignment ^ fnv64(l.as_bytes())).wrapping_mul(0x0000_0100_0000_01B3);
        }
    }
    Some(Sched { completion, assignment, max_conc, tasks, threads_used: parts.len() })
}

#[derive(Default)]
struct Stats {
    max_conc: usize,
    threads_used: BTreeMap<usize, usize>, // configured threads -> max distinct threads seen running tasks in one call
    conc_by_threads: BTreeMap<usize, usize>,
}

fn trange(t: usize) -> &'static str {
    match t {
        0 => "t-default",
        T_ZERO => "t-some0",
        1 => "t1",
        2..=3 => "t2-3",
        _ => "t7-32",
    }
}

// ---------------------------------------------------------------- execution

struct Prep {
    req: Vec<String>,      // single-archive: requested names; multi: archive paths as strings
    arch: Vec<usize>,      // multi: fixture indices
    ask: Vec<String>,      // multi: names / pattern asked of each archive
    path: &'static str,    // "unbatched" / "batched" / "batched>5000" / "multi"
    fix: usize,            // single-archive: fixture index
}

fn prepare(sp: &Spec, fixes: &[Fix], rng: &mut Rng) -> Prep {
    match sp.api {
        Api::Ewc | Api::Efp | Api::Efb | Api::Pfp => {
            let fi = fixes.iter().position(|f| f.tag == sp.fix).unwrap_or_else(|| panic!("harness: no fixture {}", sp.fix));
            let req = build_request(sp.shape, &fixes[fi], rng);
            let path = match sp.api {
                Api::Ewc if req.len() > 5000 => "batched>5000",
                Api::Ewc if req.len() > 1000 => "batched",
                Api::Efb => "batched",
                _ => "unbatched",
            };
            Prep { req, arch: vec![], ask: vec![], path, fix: fi }
        }
        Api::Emp => {
            let fi = fixes.iter().position(|f| f.tag == sp.fix).unwrap();
            Prep { req: vec![], arch: vec![], ask: vec![], path: "unbatched", fix: fi }
        }
        _ => {
            let arch = archive_list(sp.fix, fixes, rng);
            let ask: Vec<String> = match sp.shape {
                "common" | "names1" | "proc-common" => vec![COMMON.into()],
                "most" | "proc-most" => vec![MOST.into()],
                "absent" => vec![missing_name(7)],
                "names0" => vec![],
                "names3dup" => vec![COMMON.into(), SHARED_A.into(), COMMON.into()],
                "names-most" => vec![COMMON.into(), MOST.into()],
                "names-absent-last" => vec![SHARED_A.into(), COMMON.into(), missing_name(8)],
                "pat-common" => vec!["common".into()],
                "pat-uniq" => vec!["uniq_".into()],
                "pat-empty" => vec!["".into()],
                "pat-none" => vec!["zzz-no-such-thing".into()],
                "pat-shared" => vec!["shared\\".into()],
                _ => panic!("harness: unknown ask {}", sp.shape),
            };
            let req = arch.iter().map(|&i| fixes[i].path.to_string_lossy().into_owned()).collect();
            Prep { req, arch, ask, path: "multi", fix: 0 }
        }
    }
}

fn in_pool<T: Send>(pool: Option<&rayon::ThreadPool>, f: impl FnOnce() -> T + Send) -> T {
    match pool {
        Some(p) => p.install(f),
        None => f(),
    }
}

fn pairs_to_outcome(r: Result<Vec<(String, Vec<u8>)>, Error>) -> Outcome {
    match r {
        Ok(v) => Outcome::Slots(v.into_iter().map(|(n, d)| (n, SlotR::Ok(d))).collect()),
        Err(e) => Outcome::CallErr(e.to_string()),
    }
}

#[allow(clippy::too_many_arguments)]
fn exec(c: &mut Case, sp: &Spec, pr: &Prep, fixes: &mut [Fix], rng: &mut Rng, repeats: usize, st: &mut Stats) {
    let api = sp.api.name();
    let path = pr.path;
    let mut ctx = json!({"archive": sp.fix, "threads": tlabel(sp.threads), "batch": sp.bat.label(), "shape": sp.shape, "skip_errors": sp.skip});
    // the library's extract_with_config builds its own pool; every other interface runs in the ambient pool
    let pool = if sp.threads > 0 && sp.threads != T_ZERO && sp.api != Api::Ewc {
        match rayon::ThreadPoolBuilder::new().num_threads(sp.threads).build() {
            Ok(p) => Some(p),
            Err(e) => {
                c.inconclusive(format!("harness could not build a {}-thread pool: {e}", sp.threads));
                return;
            }
        }
    } else {
        None
    };
    let threads_eff = if sp.threads > 0 && sp.threads != T_ZERO { sp.threads } else { rayon::current_num_threads() };

    // ---- expectation (sequential, computed before any parallel call)
    let mut exp: Vec<Exp> = Vec::new();
    let mut req: Vec<String> = pr.req.clone();
    let mut search_exp: Vec<(String, Vec<String>)> = Vec::new();
    let mut pap_exp: Vec<Result<(String, u64, usize, usize), String>> = Vec::new();
    let mut pa: Option<ParallelArchive> = None;
    let mut pred: Box<dyn Fn(&str) -> bool + Sync> = Box::new(|_| true);
    match sp.api {
        Api::Ewc | Api::Efp | Api::Efb | Api::Pfp | Api::Emp => {
            if sp.api != Api::Ewc {
                match ParallelArchive::open(&fixes[pr.fix].path) {
                    Ok(p) => pa = Some(p),
                    Err(e) => {
                        c.inconclusive(format!("ParallelArchive::open failed on a fixture: {e}"));
                        return;
                    }
                }
            }
            if sp.api == Api::Emp {
                let p = pa.as_ref().unwrap();
                let lf: Vec<String> = p.list_files().to_vec();
                // documented: "lists all files in the archive" — the cached list holds what a sequential list() returns
                let mut a: Vec<&String> = lf.iter().collect();
                let mut b: Vec<&String> = fixes[pr.fix].listing.iter().collect();
                a.sort();
                b.sort();
                c.count("listings_compared", 1);
                if a != b {
                    c.violate(format!("cached-list-differs-from-sequential-list|{api}"), format!("list_files() has {} names, a sequential Archive::list() {}", a.len(), b.len()), json!({"ctx": ctx}));
                }
                let one = lf.get(lf.len() / 3).cloned().unwrap_or_default();
                pred = match sp.shape {
                    "pred-all" => Box::new(|_| true),
                    "pred-none" => Box::new(|_| false),
                    "pred-one" => Box::new(move |n| n == one),
                    "pred-suffix" => Box::new(|n| n.ends_with("1.dat") || n.ends_with("0.bin") || n.ends_with(".txt")),
                    "pred-mod3" => Box::new(|n| fnv64(n.as_bytes()) % 3 == 0),
                    _ => Box::new(|n| n.starts_with('(') || n.starts_with("enc")),
                };
                // the "request" of this interface is the cached list filtered by the predicate, in list order
                req = lf.into_iter().filter(|n| pred(n)).collect();
            }
            for n in &req {
                exp.push(fixes[pr.fix].expect(n));
            }
        }
        Api::Efm => {
            for &i in &pr.arch {
                exp.push(fixes[i].expect(&pr.ask[0]));
            }
        }
        Api::Emfm => {
            // flattened (archive, name) slots; the outer shape is checked separately
            let mut flat = Vec::new();
            for &i in &pr.arch {
                for n in &pr.ask {
                    flat.push(format!("{}::{n}", fixes[i].path.to_string_lossy()));
                    exp.push(fixes[i].expect(n));
                }
            }
            req = flat;
        }
        Api::Search => {
            for &i in &pr.arch {
                let mut m: Vec<String> = fixes[i].listing.iter().filter(|n| n.contains(pr.ask[0].as_str())).cloned().collect();
                m.sort();
                search_exp.push((fixes[i].path.to_string_lossy().into_owned(), m));
            }
        }
        Api::Pap => {
            for &i in &pr.arch {
                let p = fixes[i].path.to_string_lossy().into_owned();
                let ll = fixes[i].listing.len();
                pap_exp.push(match fixes[i].expect(&pr.ask[0]) {
                    Exp::Ok(d) => Ok((p, fnv64(&d), d.len(), ll)),
                    Exp::Err(k) => Err(k),
                });
            }
        }
    }
    let refs: Vec<&str> = pr.req.iter().map(|s| s.as_str()).collect();
    let n = refs.len();
    let batch = sp.bat.resolve(n);
    let want_map: HashMap<&str, &Exp> = if sp.api == Api::Pfp { pr.req.iter().map(|s| s.as_str()).zip(exp.iter()).collect() } else { HashMap::new() };
    let apaths: Vec<PathBuf> = pr.arch.iter().map(|&i| fixes[i].path.clone()).collect();
    let asks: Vec<&str> = pr.ask.iter().map(|s| s.as_str()).collect();
    let units = match sp.api {
        Api::Efb | Api::Ewc if path != "unbatched" => n.div_ceil(batch.max(1)),
        Api::Efm | Api::Emfm | Api::Search | Api::Pap => apaths.len(),
        _ => req.len(),
    };

    let mut first_digest: Option<u64> = None;
    let mut completions: BTreeSet<u64> = BTreeSet::new();
    let mut assignments: BTreeSet<u64> = BTreeSet::new();
    let mut schedules: BTreeSet<(u64, u64)> = BTreeSet::new();
    let mut traced_calls = 0u64;
    let mut err_texts: BTreeSet<String> = BTreeSet::new();
    let pfp_bad_input = AtomicBool::new(false);
    let pfp_inputs = AtomicU64::new(0);

    for k in 0..repeats {
        let dseed = if k == 0 { 0 } else { rng.next_u64() | 1 };
        ctx["repeat"] = json!(k);
        ctx["injected_delays"] = json!(dseed != 0);
        trace_start(dseed);
        let res: Result<Outcome, vh_common::PanicInfo> = trap(|| match sp.api {
            Api::Ewc => {
                let mut cfg = ParallelConfig::default();
                cfg.num_threads = if sp.threads == T_ZERO { Some(0) } else if sp.threads > 0 { Some(sp.threads) } else { None };
                cfg.batch_size = batch;
                cfg.skip_errors = sp.skip;
                match extract_with_config(&fixes[pr.fix].path, &refs, cfg) {
                    Ok(v) => Outcome::Slots(
                        v.into_iter()
                            .map(|(n, r)| {
                                (
                                    n,
                                    match r {
                                        Ok(d) => SlotR::Ok(d),
                                        Err(e) => SlotR::Err(variant(&e)),
                                    },
                                )
                            })
                            .collect(),
                    ),
                    Err(e) => Outcome::CallErr(e.to_string()),
                }
            }
            Api::Efp => pairs_to_outcome(in_pool(pool.as_ref(), || pa.as_ref().unwrap().extract_files_parallel(&refs))),
            Api::Efb => pairs_to_outcome(in_pool(pool.as_ref(), || pa.as_ref().unwrap().extract_files_batched(&refs, batch))),
            Api::Emp => pairs_to_outcome(in_pool(pool.as_ref(), || pa.as_ref().unwrap().extract_matching_parallel(|n| pred(n)))),
            Api::Pfp => pairs_to_outcome(in_pool(pool.as_ref(), || {
                pa.as_ref().unwrap().process_files_parallel(&refs, |name, data| {
                    // the processor must be handed the bytes of exactly the name it is told
                    pfp_inputs.fetch_add(1, Ordering::Relaxed);
                    if let Some(Exp::Ok(w)) = want_map.get(name) {
                        if **w != data {
                            pfp_bad_input.store(true, Ordering::Relaxed);
                        }
                    } else {
                        pfp_bad_input.store(true, Ordering::Relaxed); // called for a name that fails sequentially / was not requested
                    }
                    Ok((name.to_string(), data))
                })
            })),
            Api::Efm => match in_pool(pool.as_ref(), || extract_from_multiple_archives(&apaths, asks[0])) {
                Ok(v) => Outcome::Slots(v.into_iter().map(|(p, d)| (p.to_string_lossy().into_owned(), SlotR::Ok(d))).collect()),
                Err(e) => Outcome::CallErr(e.to_string()),
            },
            Api::Emfm => match in_pool(pool.as_ref(), || extract_multiple_from_multiple_archives(&apaths, &asks)) {
                Ok(v) => {
                    // outer shape: one entry per archive, in request order, each with one entry per name
                    let outer: Vec<(String, usize)> = v.iter().map(|(p, f)| (p.to_string_lossy().into_owned(), f.len())).collect();
                    let mut flat = Vec::new();
                    for (p, files) in v {
                        for (n, d) in files {
                            flat.push((format!("{}::{n}", p.to_string_lossy()), SlotR::Ok(d)));
                        }
                    }
                    // encode the outer shape as leading pseudo-slots so that repeats are compared on it as well
                    let mut all: Vec<(String, SlotR)> = outer.into_iter().map(|(p, l)| (format!("outer::{p}"), SlotR::Err(format!("{l}")))).collect();
                    all.extend(flat);
                    Outcome::Slots(all)
                }
                Err(e) => Outcome::CallErr(e.to_string()),
            },
            Api::Search => match in_pool(pool.as_ref(), || search_in_multiple_archives(&apaths, asks[0])) {
                Ok(v) => Outcome::Slots(
                    v.into_iter()
                        .map(|(p, mut m)| {
                            m.sort();
                            (p.to_string_lossy().into_owned(), SlotR::Ok(m.join("\n").into_bytes()))
                        })
                        .collect(),
                ),
                Err(e) => Outcome::CallErr(e.to_string()),
            },
            Api::Pap => {
                let name = asks[0];
                match in_pool(pool.as_ref(), || {
                    process_archives_parallel(&apaths, |mut a: Archive| {
                        let label = a.path().file_name().map(|s| s.to_string_lossy().into_owned()).unwrap_or_default();
                        let _g = TaskGuard::new(&label);
                        let d = a.read_file(name)?;
                        let ll = a.list()?.len();
                        Ok((a.path().to_string_lossy().into_owned(), fnv64(&d), d.len(), ll))
                    })
                }) {
                    Ok(v) => Outcome::Slots(v.into_iter().map(|(p, h, l, ll)| (p, SlotR::Ok(format!("{h:016x}/{l}/{ll}").into_bytes()))).collect()),
                    Err(e) => Outcome::CallErr(e.to_string()),
                }
            }
        });
        let ev = trace_take();
        c.count("calls", 1);
        c.count(&format!("calls|{api}|{path}"), 1);
        if sp.threads == T_ZERO {
            c.count(&format!("calls_with_num_threads_some0|{path}"), 1);
        }
        if VERSIONED.contains(&sp.fix) {
            c.count(&format!("calls_on_versioned_fixture|{}", sp.fix), 1);
        }
        let out = match res {
            Ok(o) => o,
            Err(p) => {
                c.violate(format!("panic|{api}|{path}|{}", p.sig()), format!("{api} panicked: {} ({})", p.msg.chars().take(200).collect::<String>(), p.file), json!({"ctx": ctx, "repeat": k}));
                return;
            }
        };
        if let Outcome::CallErr(t) = &out {
            err_texts.insert(t.clone());
        }
        // ---- compare with the sequential expectation
        match sp.api {
            Api::Ewc => check_outcome(c, api, path, &req, &exp, Some(sp.skip), &out, &ctx),
            Api::Efp | Api::Efb | Api::Emp | Api::Pfp | Api::Efm => check_outcome(c, api, path, &req, &exp, None, &out, &ctx),
            Api::Emfm => match &out {
                Outcome::Slots(all) => {
                    let no = all.iter().take_while(|(n, _)| n.starts_with("outer::")).count();
                    let (outer, flat) = all.split_at(no);
                    let any_fail = exp.iter().any(|e| e.is_err());
                    if !any_fail {
                        c.count("outer_shapes_compared", 1);
                        if outer.len() != apaths.len() {
                            c.violate(format!("result-length|{api}|multi-outer"), format!("{api} returned {} archive entries for {} requested archives", outer.len(), apaths.len()), json!({"ctx": ctx}));
                        } else {
                            for (i, (p, l)) in outer.iter().enumerate() {
                                if p["outer::".len()..] != *pr.req[i] {
                                    c.violate(format!("slot-order|{api}|multi-outer"), format!("{api}: archive entry {i} is {:?}, requested archive at that index is {:?}", &p["outer::".len()..], pr.req[i]), json!({"ctx": ctx, "index": i}));
                                    break;
                                }
                                if *l != SlotR::Err(format!("{}", asks.len())) {
                                    c.violate(format!("result-length|{api}|multi-inner"), format!("{api}: archive entry {i} holds {:?} files for {} requested names", l, asks.len()), json!({"ctx": ctx, "index": i}));
                                    break;
                                }
                            }
                        }
                    }
                    check_outcome(c, api, path, &req, &exp, None, &Outcome::Slots(flat.to_vec()), &ctx);
                }
                o => check_outcome(c, api, path, &req, &exp, None, o, &ctx),
            },
            Api::Search => {
                // documented: "returns the archives that contain matching files" with their matching names. Entries with an
                // empty match list are therefore neither demanded nor forbidden; the rest must be the requested archives in
                // request order, each with exactly the names a sequential list() + contains() yields (compared as sets).
                c.count("calls_compared", 1);
                match &out {
                    Outcome::CallErr(t) => c.violate(format!("call-failed-without-failing-name|{api}|{path}"), format!("{api} returned Err ({t}) although every archive lists sequentially"), json!({"ctx": ctx})),
                    Outcome::Slots(s) => {
                        let got: Vec<(String, Vec<u8>)> = s.iter().filter_map(|(p, r)| if let SlotR::Ok(d) = r { if d.is_empty() { None } else { Some((p.clone(), d.clone())) } } else { None }).collect();
                        let want: Vec<(String, Vec<u8>)> = search_exp.iter().filter(|(_, m)| !m.is_empty()).map(|(p, m)| (p.clone(), m.join("\n").into_bytes())).collect();
                        c.count("slots_compared", want.len() as u64);
                        if s.len() > apaths.len() || got.len() != want.len() {
                            c.violate(format!("result-length|{api}|{path}"), format!("{api}: {} archives with matches returned ({} entries in all), {} of the {} requested archives have matches", got.len(), s.len(), want.len(), apaths.len()), json!({"ctx": ctx}));
                        } else {
                            for (i, (g, w)) in got.iter().zip(want.iter()).enumerate() {
                                if g.0 != w.0 {
                                    c.violate(format!("slot-order|{api}|{path}"), format!("{api}: {i}-th archive with matches is {:?}, in request order it is {:?}", g.0, w.0), json!({"ctx": ctx, "index": i}));
                                    break;
                                }
                                if g.1 != w.1 {
                                    c.violate(format!("slot-payload|{api}|{path}"), format!("{api}: matches reported for {:?} differ from sequential list()+contains()", g.0), json!({"ctx": ctx, "index": i, "want": String::from_utf8_lossy(&w.1).chars().take(300).collect::<String>(), "got": String::from_utf8_lossy(&g.1).chars().take(300).collect::<String>()}));
                                    break;
                                }
                            }
                        }
                    }
                }
            }
            Api::Pap => {
                let e2: Vec<Exp> = pap_exp.iter().map(|r| match r {
                    Ok((_, h, l, ll)) => Exp::Ok(Arc::new(format!("{h:016x}/{l}/{ll}").into_bytes())),
                    Err(k) => Exp::Err(k.clone()),
                }).collect();
                check_outcome(c, api, path, &pr.req, &e2, None, &out, &ctx);
            }
        }
        if sp.api == Api::Pfp && pfp_bad_input.load(Ordering::Relaxed) {
            c.violate(format!("processor-input|{api}|{path}"), format!("{api} handed the processor bytes that differ from the sequential read of the name passed along, or called it for a failing name"), json!({"ctx": ctx}));
        }
        // ---- scheduling independence of the result
        let d = digest(&out);
        match first_digest {
            None => first_digest = Some(d),
            Some(f) if f != d => {
                c.violate(format!("repeat-differs|{api}|{path}"), format!("{api}: repeat {k} of the same request returned a different result than repeat 0"), json!({"ctx": ctx, "repeat": k, "delay_seed_nonzero": dseed != 0}));
            }
            _ => {}
        }
        // ---- what schedule was this?
        if let Some(s) = analyse(&ev) {
            traced_calls += 1;
            c.count("task_events", ev.len() as u64);
            c.count("tasks_traced", s.tasks as u64);
            completions.insert(s.completion);
            assignments.insert(s.assignment);
            schedules.insert((s.completion, s.assignment));
            st.max_conc = st.max_conc.max(s.max_conc);
            let e = st.threads_used.entry(threads_eff).or_insert(0);
            *e = (*e).max(s.threads_used);
            let e = st.conc_by_threads.entry(threads_eff).or_insert(0);
            *e = (*e).max(s.max_conc);
            if s.threads_used > threads_eff {
                c.count("calls_using_more_threads_than_configured", 1); // information; not part of the statement
            }
        } else {
            c.count("calls_without_task_trace", 1);
        }
        if !c.viol.is_empty() {
            break; // one witness is enough; do not spend the remaining repeats
        }
    }
    c.count("pfp_processor_inputs_checked", pfp_inputs.load(Ordering::Relaxed));
    if err_texts.len() > 1 {
        c.count("whole_call_error_text_varied_between_repeats", 1); // allowed: only "the call fails" is stated
    }
    // ---- schedule diversity of this configuration
    let cls = format!("{api}|{path}|{}", trange(sp.threads));
    c.count(&format!("sched|{cls}|configs"), 1);
    if traced_calls > 0 {
        c.count(&format!("sched|{cls}|traced_calls"), traced_calls);
        c.count(&format!("sched|{cls}|completion_orders"), completions.len() as u64);
        c.count(&format!("sched|{cls}|thread_assignments"), assignments.len() as u64);
        c.count(&format!("sched|{cls}|schedules"), schedules.len() as u64);
        c.count("distinct_completion_orders", completions.len() as u64);
        c.count("distinct_thread_assignments", assignments.len() as u64);
        c.count("distinct_schedules", schedules.len() as u64);
    } else {
        c.count(&format!("sched|{cls}|configs_untraced"), 1);
    }
    let relevant = threads_eff >= 2 && units >= 2;
    if relevant {
        c.count("multi_thread_multi_task_configs", 1);
        if traced_calls == 0 {
            c.count("multi_thread_configs_without_trace_hook", 1);
        } else if traced_calls >= 2 && schedules.len() <= 1 {
            c.count("no_schedule_diversity", 1);
            c.count(&format!("sched|{cls}|no_schedule_diversity"), 1);
            c.note(json!({"no schedule diversity": "every repeat of this multi-thread configuration showed the identical completion order and task→thread partition; held for the input quantifier only", "units": units, "threads": threads_eff}));
        } else if schedules.len() >= 2 {
            c.count("configs_with_schedule_diversity", 1);
        }
    } else {
        c.count("single_thread_or_single_task_configs", 1);
    }
    // a configuration compares something unless its request is empty
    if (req.is_empty() && sp.api != Api::Search) || (sp.api == Api::Search && apaths.is_empty()) {
        c.count("empty_request_configs", 1);
        c.nontrivial = false; // only "an empty request yields an empty result" was compared
    }
}

// ------------------------------------------------------------------- stress

fn start_stress(n: usize, stop: Arc<AtomicBool>) -> Vec<std::thread::JoinHandle<u64>> {
    (0..n)
        .map(|i| {
            let stop = stop.clone();
            std::thread::spawn(move || {
                let mut x = 0x9E37_79B9_7F4A_7C15u64 ^ i as u64;
                let mut rounds = 0u64;
                while !stop.load(Ordering::Relaxed) {
                    for _ in 0..20_000 {
                        x = x.wrapping_mul(0xBF58_476D_1CE4_E5B9).rotate_left(17) ^ 0x94D0_49BB_1331_11EB;
                    }
                    rounds += 1;
                    if rounds % 64 == 0 {
                        std::thread::yield_now();
                    }
                }
                x ^ rounds
            })
        })
        .collect()
}

fn mix(i: u64) -> u64 {
    let mut z = i.wrapping_add(0x9E37_79B9_7F4A_7C15);
    z = (z ^ (z >> 30)).wrapping_mul(0xBF58_476D_1CE4_E5B9);
    z = (z ^ (z >> 27)).wrapping_mul(0x94D0_49BB_1331_11EB);
    z ^ (z >> 31)
}

fn main() {
    let mut run = Run::new();
    let thorough = run.args.thorough();
    let repeats: usize = run.args.get("repeats").and_then(|s| s.parse().ok()).unwrap_or(if thorough { 25 } else { 3 });
    let repeats_light: usize = run.args.get("repeats-light").and_then(|s| s.parse().ok()).unwrap_or(if thorough { 8 } else { 3 });
    let repeats_heavy: usize = run.args.get("repeats-heavy").and_then(|s| s.parse().ok()).unwrap_or(if thorough { 4 } else { 3 });
    let stride: u64 = run.args.get("stride").and_then(|s| s.parse().ok()).unwrap_or(1).max(1);
    let nstress: usize = run.args.get("stress").and_then(|s| s.parse().ok()).unwrap_or(4);
    let dir = PathBuf::from(&run.args.scratch);
    let specs = plan(thorough);
    run.extra("planned_configurations", json!(specs.len()));

    // fixtures: a deterministic function of (tier, seed); built once per worker process
    let mut frng = Rng::for_case(run.args.seed, 0xC09, 7);
    let mut fixes: Vec<Fix> = Vec::new();
    let mut todo: Vec<(String, Vec<Pending>)> = vec![("S".into(), files_small(&mut frng)), ("M".into(), files_many(&mut frng, 1300, "M"))];
    for i in 0..6 {
        todo.push((format!("P{i}"), files_patch(&mut frng, i)));
    }
    {
        // (own generator state: the other fixtures stay what they were)
        let mut urng = Rng::for_case(run.args.seed, 0xC09, 8);
        let mut u = files_small(&mut urng);
        for f in u.iter_mut() {
            f.name = format!("u\\{}", f.name);
        }
        todo.push(("U".into(), u));
    }
    for (k, tag) in VERSIONED.iter().enumerate() {
        // (own generator state each: the other fixtures stay what they were)
        let mut vrng = Rng::for_case(run.args.seed, 0xC09, 20 + k as u64);
        let mut fs = files_small(&mut vrng);
        for f in fs.iter_mut() {
            f.name = format!("{}\\{}", tag.to_ascii_lowercase(), f.name);
        }
        todo.push((tag.to_string(), fs));
    }
    if thorough {
        todo.push(("L".into(), files_many(&mut frng, 5200, "L")));
    }
    for (tag, files) in todo {
        match build_fix(&dir, &tag, files) {
            Ok(f) => fixes.push(f),
            Err(e) => {
                eprintln!("c09: {e}");
                std::process::exit(2);
            }
        }
    }
    match build_damaged_fix(&dir, &mut frng) {
        Ok(f) => fixes.push(f),
        Err(e) => {
            eprintln!("c09: {e}");
            std::process::exit(2);
        }
    }
    if run.args.shard == 0 && run.args.only.is_none() {
        let (eq, ne): (u64, u64) = fixes.iter().fold((0, 0), |a, f| (a.0 + f.src_equal, a.1 + f.src_differs));
        run.extra("baseline_files_equal_to_builder_input", json!(eq));
        run.extra("baseline_files_differing_from_builder_input", json!(ne));
        run.extra("fixture_archives", json!(fixes.iter().map(|f| format!("{}:{} files", f.tag, f.names.len())).collect::<Vec<_>>()));
        let versioned: Vec<String> = fixes.iter().filter(|f| VERSIONED.contains(&f.tag.as_str())).map(|f| {
            let h = f.seq.header();
            let info = f.base.values().filter(|e| e.is_err()).count();
            format!("{}: format {:?}, sector size {} bytes, {} members, {} of them fail in the sequential reader, listing has {} names", f.tag, h.format_version, 512u64 << h.block_size, f.names.len(), info, f.listing.len())
        }).collect();
        run.extra("versioned_fixtures", json!(versioned));
        if let Some(d) = fixes.iter().find(|f| f.tag == "D") {
            let show = |n: &str| match d.base.get(n) { Some(Exp::Err(v)) => format!("Err({v})"), Some(Exp::Ok(b)) => format!("Ok({} bytes)", b.len()), None => "?".into() };
            run.extra("damaged_fixture_sequential_answers", json!({DMG_MULTI: show(DMG_MULTI), DMG_AFTER: show(DMG_AFTER), DMG_EOF: show(DMG_EOF)}));
        }
    }

    // what the fixture phase saw of reads depending on the reading thread's past (one case of its own, first shard)
    {
        let idx = specs.len() as u64;
        if run.want(idx) {
            let dep: Vec<String> = fixes.iter().flat_map(|f| f.history_dep.iter().cloned()).collect();
            run.case(idx, "fixture|sequential-answer-vs-thread-history", json!({"fixture": "D", "members_asked_after_damaged_ones": fixes.iter().find(|f| f.tag == "D").map(|f| f.names.len()).unwrap_or(0)}), |c| {
                c.count("fixture_members_asked_on_a_thread_that_saw_failures", fixes.iter().find(|f| f.tag == "D").map(|f| f.names.len() as u64).unwrap_or(0));
                if !dep.is_empty() {
                    c.violate("sequential-answer-depends-on-thread-history|read_file|after-damaged-member", format!("{} intact member(s) of the damaged fixture stopped reading back on a thread that had read a damaged member before (every read with its own handle): {}", dep.len(), dep[0]), json!({"members": dep.iter().take(8).collect::<Vec<_>>(), "count": dep.len()}));
                }
            });
        }
    }
    let stop = Arc::new(AtomicBool::new(false));
    let stress = start_stress(nstress, stop.clone());
    let mut st = Stats::default();
    for (i, sp) in specs.iter().enumerate() {
        let idx = i as u64;
        if !run.want(idx) || (run.args.only.is_none() && mix(idx) % stride != 0) {
            continue;
        }
        let mut rng = run.rng(idx, 0);
        let pr = prepare(sp, &fixes, &mut rng);
        let class = format!("{}|{}|{}|t{}|b{}|{}|skip{}", sp.api.name(), pr.path, sp.fix, tlabel(sp.threads), sp.bat.label(), sp.shape, sp.skip as u8);
        let missing_pos: Vec<usize> = pr.req.iter().enumerate().filter(|(_, n)| n.starts_with(MISSING_PREFIX)).map(|(i, _)| i).take(6).collect();
        let desc = json!({"interface": sp.api.name(), "path": pr.path, "archive_or_list": sp.fix, "threads": tlabel(sp.threads), "batch": sp.bat.label(), "shape": sp.shape, "skip_errors": sp.skip,
            "request_len": pr.req.len(), "request_head": pr.req.iter().take(4).collect::<Vec<_>>(), "missing_positions_head": missing_pos, "asked_of_each_archive": pr.ask,
            "repeats": if pr.req.len() > 5000 { repeats_heavy } else if sp.light { repeats_light } else { repeats }});
        let r = if pr.req.len() > 5000 { repeats_heavy } else if sp.light { repeats_light } else { repeats };
        run.case(idx, &class, desc, |c| {
            let t = std::time::Instant::now();
            exec(c, sp, &pr, &mut fixes, &mut rng, r, &mut st);
            c.count(&format!("wall_ms|{}|{}", sp.api.name(), pr.path), t.elapsed().as_millis() as u64);
        });
    }
    // H. generations of one archive path: the archive is rebuilt in place (the builder renames a new file over the old one)
    // between parallel calls of the same process; every call opens the path afresh and must answer like a sequential
    // reader opened at the same moment — whatever earlier calls on the same worker threads have seen.
    let gen_base = specs.len() as u64;
    let gen_specs: [(&str, usize); 8] = [("extract_files_parallel", 0), ("extract_files_parallel", 7), ("process_files_parallel", 0), ("process_files_parallel", 3),
        ("extract_files_batched", 0), ("extract_matching_parallel", 0), ("extract_with_config", 0), ("extract_with_config", 3)];
    for (gi, &(api, threads)) in gen_specs.iter().enumerate() {
        let idx = gen_base + gi as u64;
        if !run.want(idx) || (run.args.only.is_none() && mix(idx) % stride != 0) {
            continue;
        }
        let mut rng = run.rng(idx, 0);
        let path = dir.join(format!("c09-gen-{idx}.mpq"));
        let class = format!("{api}|generations-at-one-path|t{threads}");
        let desc = json!({"interface": api, "threads": threads, "what": "3 generations built at one path (changed contents, added and removed names); after each build: fresh ParallelArchive::open + call, compared slot by slot with a fresh sequential reader"});
        run.case(idx, &class, desc, |c| {
            let pool = if threads > 0 { rayon::ThreadPoolBuilder::new().num_threads(threads).build().ok() } else { None };
            let mut previous: HashMap<String, Vec<u8>> = HashMap::new();
            for generation in 0..3usize {
                let n = 160 + 60 * generation;
                let mut b = ArchiveBuilder::new().listfile_option(ListfileOption::Generate);
                let mut names: Vec<String> = Vec::new();
                for k in 0..n {
                    if generation > 0 && k % 11 == generation {
                        continue; // removed in this generation
                    }
                    let name = format!("gen\\file_{k:04}.bin");
                    let len = 200 + (k * 37 + generation * 1013) % 9000;
                    let mut data = gen_content(&mut rng, if k % 3 == 0 { "text" } else { "half" }, len);
                    data.extend_from_slice(format!("|g{generation}|{k}").as_bytes());
                    b = b.add_file_data_with_options(data, &name, if k % 2 == 0 { 0x02 } else { 0x00 }, false, 0);
                    names.push(name);
                }
                if let Err(e) = b.build(&path) {
                    c.inconclusive(format!("fixture build failed: {e}"));
                    return;
                }
                let mut seq = match Archive::open(&path) {
                    Ok(a) => a,
                    Err(e) => {
                        c.inconclusive(format!("sequential open failed: {e}"));
                        return;
                    }
                };
                let mut want: Vec<(String, Vec<u8>)> = Vec::new();
                for nm in &names {
                    match seq.read_file(nm) {
                        Ok(d) => want.push((nm.clone(), d)),
                        Err(e) => {
                            c.inconclusive(format!("sequential read failed: {e}"));
                            return;
                        }
                    }
                }
                let refs: Vec<&str> = names.iter().map(|s| s.as_str()).collect();
                let got: Result<Result<Vec<(String, Vec<u8>)>, Error>, vh_common::PanicInfo> = trap(|| {
                    if api == "extract_with_config" {
                        let mut cfg = ParallelConfig::default();
                        cfg.num_threads = if threads > 0 { Some(threads) } else { None };
                        cfg.batch_size = 16;
                        cfg.skip_errors = false;
                        return extract_with_config(&path, &refs, cfg).and_then(|v| v.into_iter().map(|(n, r)| r.map(|d| (n, d))).collect());
                    }
                    let pa = ParallelArchive::open(&path)?;
                    in_pool(pool.as_ref(), || match api {
                        "extract_files_parallel" => pa.extract_files_parallel(&refs),
                        "extract_files_batched" => pa.extract_files_batched(&refs, 16),
                        "extract_matching_parallel" => pa.extract_matching_parallel(|n| n.starts_with("gen")),
                        _ => pa.process_files_parallel(&refs, |name, data| Ok((name.to_string(), data))),
                    })
                });
                c.count("generation_calls", 1);
                match got {
                    Err(p) => {
                        c.violate(format!("panic|{api}|generations|{}", p.sig()), format!("{api} panicked on generation {generation}: {}", p.msg), json!({"generation": generation}));
                        return;
                    }
                    Ok(Err(e)) => {
                        c.violate(format!("generation-call-fails|{api}|{}", variant(&e)), format!("{api} on a freshly opened generation {generation} (all requested names present for a sequential reader) failed: {e}"), json!({"generation": generation, "threads": threads}));
                        return;
                    }
                    Ok(Ok(v)) => {
                        if v.len() != want.len() {
                            c.violate(format!("generation-slot-count|{api}"), format!("{api}: {} results for {} requested names (generation {generation})", v.len(), want.len()), json!({"generation": generation}));
                            return;
                        }
                        for (k, ((gn, gd), (wn, wd))) in v.iter().zip(&want).enumerate() {
                            c.count("generation_slots_compared", 1);
                            if gn != wn || gd != wd {
                                let stale = previous.get(wn).map(|p| p == gd).unwrap_or(false);
                                let kind = if gn != wn { "name-order" } else if stale { "bytes-of-an-earlier-generation" } else { "bytes-differ-from-sequential" };
                                c.violate(format!("generation-mismatch|{api}|{kind}"), format!("{api}: slot {k} ({wn}) of generation {generation} is not what a sequential reader of the same file returns ({kind})"),
                                    json!({"generation": generation, "slot": k, "name": wn, "threads": threads, "got": brief(gd), "want": brief(wd)}));
                                return;
                            }
                        }
                    }
                }
                previous = want.into_iter().collect();
            }
            let _ = std::fs::remove_file(&path);
        });
    }
    // I. several user threads on ONE shared ParallelArchive: a call's answer may depend neither on what other calls on the
    // same object are doing at that moment (a failing call next to it, another valid call with a different request) nor
    // on what they did before. The disturbing thread loops calls of the same interface with a missing name in the request.
    let conc_base = gen_base + gen_specs.len() as u64;
    let conc_specs: [(&str, usize, &str); 8] = [("extract_files_batched", 0, "failing"), ("extract_files_batched", 4, "failing"), ("extract_files_parallel", 0, "failing"),
        ("process_files_parallel", 0, "failing"), ("extract_files_batched", 0, "valid"), ("extract_files_parallel", 4, "valid"), ("process_files_parallel", 4, "valid"), ("extract_matching_parallel", 0, "failing")];
    for (ci, &(api, threads, other)) in conc_specs.iter().enumerate() {
        let idx = conc_base + ci as u64;
        if !run.want(idx) || (run.args.only.is_none() && mix(idx) % stride != 0) {
            continue;
        }
        let rounds = if thorough { 300 } else { 40 };
        let class = format!("{api}|shared-object-concurrent-calls|t{threads}|other={other}");
        let desc = json!({"interface": api, "threads": threads, "other_thread": other, "rounds": rounds, "what": "main thread: valid calls compared slot by slot with the sequential baseline; a second user thread calls the same ParallelArchive concurrently"});
        let fx = &mut fixes[0];
        let names: Vec<String> = fx.names.iter().filter(|n| !fx.base.get(*n).map(|e| e.is_err()).unwrap_or(false)).cloned().collect();
        let want: Vec<(String, Exp)> = names.iter().map(|n| (n.clone(), fx.expect(n))).collect();
        let path = fx.path.clone();
        run.case(idx, &class, desc, |c| {
            if want.iter().any(|(_, e)| e.is_err()) {
                c.inconclusive("fixture has names the sequential reader cannot read");
                return;
            }
            let pa = match ParallelArchive::open(&path) {
                Ok(p) => Arc::new(p),
                Err(e) => {
                    c.inconclusive(format!("ParallelArchive::open failed on a fixture: {e}"));
                    return;
                }
            };
            let pool = if threads > 0 { rayon::ThreadPoolBuilder::new().num_threads(threads).build().ok().map(Arc::new) } else { None };
            let call = |pa: &ParallelArchive, pool: Option<&rayon::ThreadPool>, req: &[&str]| -> Result<Vec<(String, Vec<u8>)>, Error> {
                in_pool(pool, || match api {
                    "extract_files_parallel" => pa.extract_files_parallel(req),
                    "extract_files_batched" => pa.extract_files_batched(req, 7),
                    "extract_matching_parallel" => pa.extract_matching_parallel(|n| req.iter().any(|r| r.eq_ignore_ascii_case(n))),
                    _ => pa.process_files_parallel(req, |name, data| Ok((name.to_string(), data))),
                })
            };
            let stop2 = Arc::new(AtomicBool::new(false));
            let other_calls = Arc::new(AtomicU64::new(0));
            let disturber = {
                let (pa, stop2, other_calls, pool) = (pa.clone(), stop2.clone(), other_calls.clone(), pool.clone());
                let mut req: Vec<String> = names.iter().rev().cloned().collect();
                if other == "failing" {
                    let at = req.len() / 3;
                    req.insert(at, missing_name(77));
                }
                let api = api.to_string();
                std::thread::spawn(move || {
                    let refs: Vec<&str> = req.iter().map(|s| s.as_str()).collect();
                    while !stop2.load(Ordering::Relaxed) {
                        let p = pool.as_deref();
                        let _ = in_pool(p, || match api.as_str() {
                            "extract_files_parallel" => pa.extract_files_parallel(&refs).map(|_| ()),
                            "extract_files_batched" => pa.extract_files_batched(&refs, 5).map(|_| ()),
                            "extract_matching_parallel" => pa.extract_files_batched(&refs, 5).map(|_| ()),
                            _ => pa.process_files_parallel(&refs, |name, data| Ok((name.to_string(), data))).map(|_| ()),
                        });
                        other_calls.fetch_add(1, Ordering::Relaxed);
                    }
                })
            };
            let refs: Vec<&str> = names.iter().map(|s| s.as_str()).collect();
            let mut listing_order: Option<Vec<String>> = None;
            for round in 0..rounds {
                let got = trap(|| call(&pa, pool.as_deref(), &refs));
                c.count("shared_object_calls", 1);
                let v = match got {
                    Err(p) => {
                        c.violate(format!("panic|{api}|shared-object|{}", p.sig()), format!("{api} panicked while another thread used the same ParallelArchive: {}", p.msg), json!({"round": round}));
                        break;
                    }
                    Ok(Err(e)) => {
                        c.violate(format!("shared-object-call-fails|{api}|other={other}|{}", variant(&e)), format!("a valid {api} call failed ({e}) while another user thread was calling the same ParallelArchive ({other} requests)"), json!({"round": round, "threads": threads}));
                        break;
                    }
                    Ok(Ok(v)) => v,
                };
                // extract_matching_parallel answers in listing order: compare as a map + fixed order across rounds
                if api == "extract_matching_parallel" {
                    let order: Vec<String> = v.iter().map(|x| x.0.clone()).collect();
                    if let Some(o) = &listing_order {
                        if *o != order {
                            c.violate(format!("shared-object-order-changes|{api}"), "the order of results differs between two identical calls".to_string(), json!({"round": round}));
                            break;
                        }
                    } else {
                        listing_order = Some(order);
                    }
                }
                let bad = if v.len() != want.len() {
                    Some(format!("{} results for {} requested names", v.len(), want.len()))
                } else if api == "extract_matching_parallel" {
                    let m: HashMap<&str, &Vec<u8>> = v.iter().map(|(n, d)| (n.as_str(), d)).collect();
                    want.iter().find_map(|(n, e)| match (m.get(n.as_str()), e) {
                        (Some(d), Exp::Ok(w)) if ***d == **w => None,
                        _ => Some(format!("{n} missing or different")),
                    })
                } else {
                    v.iter().zip(&want).enumerate().find_map(|(k, ((gn, gd), (wn, we)))| match we {
                        Exp::Ok(w) if gn == wn && *gd == **w => None,
                        _ => Some(format!("slot {k} ({wn}) is not what a sequential read returns")),
                    })
                };
                c.count("shared_object_slots_compared", want.len() as u64);
                if let Some(why) = bad {
                    let kind = if v.len() != want.len() { "slot-count" } else { "slot-content" };
                    c.violate(format!("shared-object-mismatch|{api}|other={other}|{kind}"), format!("{api}: {why} while another user thread was calling the same ParallelArchive ({other} requests)"), json!({"round": round, "threads": threads, "other_calls_so_far": other_calls.load(Ordering::Relaxed)}));
                    break;
                }
            }
            stop2.store(true, Ordering::Relaxed);
            let _ = disturber.join();
            c.count("shared_object_other_thread_calls", other_calls.load(Ordering::Relaxed));
            if other_calls.load(Ordering::Relaxed) == 0 {
                c.inconclusive("the second thread never completed a call: no concurrency observed");
            }
        });
    }
    // K. a long-lived ParallelArchive across a transient fault: calls that fail because the archive cannot be opened for a
    // moment (file moved away and back; no file descriptor available) are followed by the same call under normal conditions,
    // which must answer exactly like a sequential reader does at that moment — a failure is not remembered.
    let fault_base = conc_base + conc_specs.len() as u64;
    let fault_specs: [(&str, usize, &str); 8] = [("extract_files_parallel", 0, "moved-away"), ("extract_files_parallel", 4, "no-descriptors"), ("extract_files_batched", 0, "moved-away"),
        ("extract_files_batched", 3, "no-descriptors"), ("process_files_parallel", 0, "moved-away"), ("process_files_parallel", 2, "no-descriptors"), ("extract_matching_parallel", 0, "moved-away"),
        ("extract_matching_parallel", 0, "no-descriptors")];
    for (fi, &(api, threads, fault)) in fault_specs.iter().enumerate() {
        let idx = fault_base + fi as u64;
        if !run.want(idx) || (run.args.only.is_none() && mix(idx) % stride != 0) {
            continue;
        }
        let class = format!("{api}|transient-fault-on-long-lived-object|t{threads}|fault={fault}");
        let desc = json!({"interface": api, "threads": threads, "fault": fault, "what": "valid call, the same call while the archive cannot be opened, the same call after the fault has gone: first and last compared slot by slot with the sequential baseline"});
        let fx = &mut fixes[0];
        let names: Vec<String> = fx.names.iter().filter(|n| !fx.base.get(*n).map(|e| e.is_err()).unwrap_or(false)).cloned().collect();
        let want: Vec<(String, Exp)> = names.iter().map(|n| (n.clone(), fx.expect(n))).collect();
        // a private copy of the fixture: the fault must not disturb the other cases of this worker
        let path = dir.join(format!("c09-fault-{idx}.mpq"));
        let src = fx.path.clone();
        run.case(idx, &class, desc, |c| {
            if std::fs::copy(&src, &path).is_err() || want.iter().any(|(_, e)| e.is_err()) {
                c.inconclusive("fixture copy failed or fixture has unreadable names");
                return;
            }
            let pa = match ParallelArchive::open(&path) {
                Ok(p) => p,
                Err(e) => {
                    c.inconclusive(format!("ParallelArchive::open failed on a fixture: {e}"));
                    return;
                }
            };
            let pool = if threads > 0 { rayon::ThreadPoolBuilder::new().num_threads(threads).build().ok() } else { None };
            let refs: Vec<&str> = names.iter().map(|s| s.as_str()).collect();
            let call = |req: &[&str]| -> Result<Vec<(String, Vec<u8>)>, Error> {
                in_pool(pool.as_ref(), || match api {
                    "extract_files_parallel" => pa.extract_files_parallel(req),
                    "extract_files_batched" => pa.extract_files_batched(req, 7),
                    "extract_matching_parallel" => pa.extract_matching_parallel(|n| req.iter().any(|r| r.eq_ignore_ascii_case(n))),
                    _ => pa.process_files_parallel(req, |name, data| Ok((name.to_string(), data))),
                })
            };
            let judge = |c: &mut Case, phase: &str, got: Result<Result<Vec<(String, Vec<u8>)>, Error>, vh_common::PanicInfo>| -> bool {
                c.count(&format!("fault_calls|{phase}"), 1);
                let v = match got {
                    Err(p) => {
                        c.violate(format!("panic|{api}|transient-fault|{}", p.sig()), format!("{api} panicked ({phase}): {}", p.msg), json!({"phase": phase}));
                        return false;
                    }
                    Ok(Err(e)) => {
                        c.violate(format!("after-transient-fault|{api}|fault={fault}|call-fails|{}", variant(&e)), format!("{phase}: a valid {api} call failed ({e}) although a sequential reader reads every requested name"), json!({"phase": phase, "threads": threads}));
                        return false;
                    }
                    Ok(Ok(v)) => v,
                };
                let bad = if v.len() != want.len() {
                    Some(format!("{} results for {} requested names", v.len(), want.len()))
                } else if api == "extract_matching_parallel" {
                    let m: HashMap<&str, &Vec<u8>> = v.iter().map(|(n, d)| (n.as_str(), d)).collect();
                    want.iter().find_map(|(n, e)| match (m.get(n.as_str()), e) {
                        (Some(d), Exp::Ok(w)) if ***d == **w => None,
                        _ => Some(format!("{n} missing or different")),
                    })
                } else {
                    v.iter().zip(&want).enumerate().find_map(|(k, ((gn, gd), (wn, we)))| match we {
                        Exp::Ok(w) if gn == wn && *gd == **w => None,
                        _ => Some(format!("slot {k} ({wn}) is not what a sequential read returns")),
                    })
                };
                c.count("fault_slots_compared", want.len() as u64);
                if let Some(why) = bad {
                    c.violate(format!("after-transient-fault|{api}|fault={fault}|{}", if v.len() != want.len() { "slot-count" } else { "slot-content" }), format!("{phase}: {api}: {why}"), json!({"phase": phase, "threads": threads}));
                    return false;
                }
                true
            };
            if !judge(c, "before the fault", trap(|| call(&refs))) {
                return;
            }
            for round in 0..3 {
                // ---- the fault
                let away = path.with_extension("away");
                let mut old_lim = libc::rlimit { rlim_cur: 0, rlim_max: 0 };
                if fault == "moved-away" {
                    if std::fs::rename(&path, &away).is_err() {
                        c.inconclusive("could not move the archive away");
                        return;
                    }
                } else {
                    unsafe {
                        libc::getrlimit(libc::RLIMIT_NOFILE, &mut old_lim);
                        let lim = libc::rlimit { rlim_cur: 0, rlim_max: old_lim.rlim_max };
                        libc::setrlimit(libc::RLIMIT_NOFILE, &lim);
                    }
                }
                let during = trap(|| call(&refs));
                // ---- the fault goes away
                if fault == "moved-away" {
                    let _ = std::fs::rename(&away, &path);
                } else {
                    unsafe { libc::setrlimit(libc::RLIMIT_NOFILE, &old_lim) };
                }
                match during {
                    Err(p) => {
                        c.violate(format!("panic|{api}|transient-fault|{}", p.sig()), format!("{api} panicked while the archive could not be opened: {}", p.msg), json!({"round": round}));
                        return;
                    }
                    Ok(Err(_)) => c.count("fault_calls_failed_as_a_whole", 1),
                    Ok(Ok(v)) => {
                        // answered from what is already open: every slot that is there must still be right
                        c.count("fault_calls_answered", 1);
                        for (gn, gd) in &v {
                            if let Some((_, Exp::Ok(w))) = want.iter().find(|(n, _)| n == gn) {
                                if *gd != **w {
                                    c.violate(format!("after-transient-fault|{api}|fault={fault}|slot-content-during-fault"), format!("{api} returned wrong bytes for {gn} while the archive could not be opened"), json!({"round": round}));
                                    return;
                                }
                            }
                        }
                    }
                }
                if !judge(c, "after the fault", trap(|| call(&refs))) {
                    return;
                }
            }
            let _ = std::fs::remove_file(&path);
        });
    }
    // L. extract_with_config with error skipping while the process is short of file descriptors: some per-name handles cannot
    // be opened (an I/O-kind failure of those names), the others can. Every slot is there; a slot is either the right bytes
    // or an error; the call as a whole succeeds.
    let starve_base = fault_base + fault_specs.len() as u64;
    for (si, &(threads, spare)) in [(8usize, 2u64), (4, 1), (16, 3), (0, 2)].iter().enumerate() {
        let idx = starve_base + si as u64;
        if !run.want(idx) || (run.args.only.is_none() && mix(idx) % stride != 0) {
            continue;
        }
        let class = format!("extract_with_config|descriptor-starved|t{threads}|spare{spare}");
        let desc = json!({"interface": "extract_with_config", "threads": threads, "spare_descriptors": spare, "skip_errors": true, "what": "240 names (per-file path) while RLIMIT_NOFILE leaves only a few free descriptors"});
        let fx = &mut fixes[0];
        let pool: Vec<String> = fx.names.iter().filter(|n| !fx.base.get(*n).map(|e| e.is_err()).unwrap_or(false)).cloned().collect();
        let names: Vec<String> = (0..240).map(|i| pool[i % pool.len()].clone()).collect();
        let want: Vec<Exp> = names.iter().map(|n| fx.expect(n)).collect();
        let path = fx.path.clone();
        run.case(idx, &class, desc, |c| {
            let refs: Vec<&str> = names.iter().map(|s| s.as_str()).collect();
            let mut cfg = ParallelConfig::new().skip_errors(true);
            if threads > 0 {
                cfg = cfg.threads(threads);
            }
            let maxfd = std::fs::read_dir("/proc/self/fd").map(|d| d.filter_map(|e| e.ok()).filter_map(|e| e.file_name().to_string_lossy().parse::<u64>().ok()).max().unwrap_or(64)).unwrap_or(64);
            let mut old_lim = libc::rlimit { rlim_cur: 0, rlim_max: 0 };
            unsafe {
                libc::getrlimit(libc::RLIMIT_NOFILE, &mut old_lim);
                let lim = libc::rlimit { rlim_cur: maxfd + 1 + spare, rlim_max: old_lim.rlim_max };
                libc::setrlimit(libc::RLIMIT_NOFILE, &lim);
            }
            let got = trap(|| extract_with_config(&path, &refs, cfg));
            unsafe { libc::setrlimit(libc::RLIMIT_NOFILE, &old_lim) };
            c.count("starved_calls", 1);
            match got {
                Err(p) => c.violate(format!("panic|extract_with_config|descriptor-starved|{}", p.sig()), format!("extract_with_config panicked while descriptors were short: {}", p.msg), json!({})),
                Ok(Err(e)) => c.violate(format!("descriptor-starved|extract_with_config|call-fails|{}", variant(&e)), format!("with error skipping the call failed as a whole ({e}) although only some names could not be opened"), json!({"threads": threads, "spare": spare})),
                Ok(Ok(v)) => {
                    if v.len() != names.len() {
                        c.violate("descriptor-starved|extract_with_config|slot-count".to_string(), format!("{} results for {} names", v.len(), names.len()), json!({}));
                        return;
                    }
                    let (mut oks, mut errs) = (0u64, 0u64);
                    for (k, ((gn, gr), w)) in v.iter().zip(&want).enumerate() {
                        match (gr, w) {
                            (Ok(d), Exp::Ok(wd)) if gn == &names[k] && *d == **wd => oks += 1,
                            (Err(_), _) if gn == &names[k] => errs += 1,
                            _ => {
                                c.violate("descriptor-starved|extract_with_config|slot-content".to_string(), format!("slot {k} ({}) holds bytes that are not what a sequential read returns", names[k]), json!({}));
                                return;
                            }
                        }
                    }
                    c.count("starved_slots_ok", oks);
                    c.count("starved_slots_err", errs);
                    if errs == 0 {
                        c.count("starved_calls_where_the_limit_did_not_bite", 1);
                    }
                }
            }
        });
    }
    // M. ParallelArchive::read_file_with_new_handle called directly ("the core method that enables parallel reads"): N user
    // threads (plain std threads, no pool) share one Arc<ParallelArchive>; each walks its own request list — duplicates and
    // never-added names included — and keeps one result per name. Slot by slot that is what a sequential reader answers.
    let direct_base = starve_base + 4;
    let direct_specs: [(&str, usize, &str); 8] = [("S", 2, "own"), ("S", 8, "own"), ("S", 16, "same"), ("U", 4, "own"), ("M", 8, "own"), ("V4", 8, "own"), ("V2", 4, "same"), ("V3", 3, "own")];
    for (di, &(tag, nthreads, lists)) in direct_specs.iter().enumerate() {
        let idx = direct_base + di as u64;
        if !run.want(idx) || (run.args.only.is_none() && mix(idx) % stride != 0) {
            continue;
        }
        let mut rng = run.rng(idx, 0);
        let fi = fixes.iter().position(|f| f.tag == tag).unwrap_or_else(|| panic!("harness: no fixture {tag}"));
        let per_thread = if tag == "M" { 150 } else { 60 };
        // request lists: a window of the shuffled names, the first three names repeated further down, never-added names at
        // the front / in the middle / at the end; "same" = every thread walks the identical list
        let mut shuffled = fixes[fi].names.clone();
        rng.shuffle(&mut shuffled);
        let mut reqs: Vec<Vec<String>> = Vec::new();
        for t in 0..nthreads {
            let start = if lists == "same" { 0 } else { t * 17 };
            let mut r: Vec<String> = (0..per_thread).map(|i| shuffled[(start + i) % shuffled.len()].clone()).collect();
            for k in 0..3 {
                let at = per_thread / 2 + 5 * k;
                r[at] = r[k].clone();
            }
            let miss_at = match (if lists == "same" { 1 } else { t }) % 4 { 0 => vec![0], 1 => vec![per_thread / 3], 2 => vec![per_thread - 1], _ => vec![2, per_thread / 3, per_thread - 2] };
            for m in miss_at {
                r[m] = missing_name(200 + m % 3);
            }
            reqs.push(r);
        }
        let exps: Vec<Vec<Exp>> = reqs.iter().map(|r| r.iter().map(|n| fixes[fi].expect(n)).collect()).collect();
        let path = fixes[fi].path.clone();
        let reps = if thorough { 15 } else { 3 };
        let class = format!("read_file_with_new_handle|user-threads|{tag}|n{nthreads}|{lists}");
        let desc = json!({"interface": "read_file_with_new_handle", "archive": tag, "user_threads": nthreads, "request_lists": lists, "names_per_thread": per_thread, "repeats": reps,
            "request_head_of_thread_0": reqs[0].iter().take(4).collect::<Vec<_>>(), "what": "N std threads share one Arc<ParallelArchive> and call read_file_with_new_handle name by name; every slot compared with the sequential baseline"});
        run.case(idx, &class, desc, |c| {
            let pa = match ParallelArchive::open(&path) {
                Ok(p) => Arc::new(p),
                Err(e) => {
                    c.inconclusive(format!("ParallelArchive::open failed on a fixture: {e}"));
                    return;
                }
            };
            let mut schedules: BTreeSet<(u64, u64)> = BTreeSet::new();
            let mut first: Option<Vec<u64>> = None;
            for k in 0..reps {
                let dseed = if k == 0 { 0 } else { rng.next_u64() | 1 };
                let ctx = json!({"archive": tag, "user_threads": nthreads, "request_lists": lists, "repeat": k, "injected_delays": dseed != 0});
                trace_start(dseed);
                let barrier = Arc::new(std::sync::Barrier::new(nthreads));
                let outs: Vec<Result<Vec<(String, SlotR)>, String>> = std::thread::scope(|sc| {
                    let hs: Vec<_> = reqs
                        .iter()
                        .map(|r| {
                            let (pa, barrier) = (pa.clone(), barrier.clone());
                            sc.spawn(move || {
                                barrier.wait();
                                trap(|| r.iter().map(|n| (n.clone(), match pa.read_file_with_new_handle(n) { Ok(d) => SlotR::Ok(d), Err(e) => SlotR::Err(variant(&e)) })).collect::<Vec<_>>())
                            })
                        })
                        .collect();
                    hs.into_iter().map(|h| match h.join() { Ok(Ok(v)) => Ok(v), Ok(Err(p)) => Err(p.sig()), Err(_) => Err("thread died".to_string()) }).collect()
                });
                let ev = trace_take();
                let mut digests = Vec::new();
                for (t, o) in outs.into_iter().enumerate() {
                    c.count("direct_handle_thread_walks", 1);
                    match o {
                        Err(sig) => {
                            c.violate(format!("panic|read_file_with_new_handle|user-threads|{sig}"), format!("read_file_with_new_handle panicked on user thread {t} of {nthreads}"), json!({"ctx": ctx, "thread": t}));
                            return;
                        }
                        Ok(slots) => {
                            c.count("direct_handle_reads", slots.len() as u64);
                            let out = Outcome::Slots(slots);
                            digests.push(digest(&out));
                            // judged like a call with error skipping: every name has its own slot, a failing name is an Err there
                            check_outcome(c, "read_file_with_new_handle", "user-threads", &reqs[t], &exps[t], Some(true), &out, &ctx);
                        }
                    }
                }
                match &first {
                    None => first = Some(digests),
                    Some(f) if *f != digests => c.violate("repeat-differs|read_file_with_new_handle|user-threads".to_string(), format!("repeat {k} of the same walks returned different results than repeat 0"), json!({"ctx": ctx})),
                    _ => {}
                }
                if let Some(sd) = analyse(&ev) {
                    c.count("task_events", ev.len() as u64);
                    c.count("tasks_traced", sd.tasks as u64);
                    schedules.insert((sd.completion, sd.assignment));
                    st.max_conc = st.max_conc.max(sd.max_conc);
                    if sd.max_conc >= 2 {
                        c.count("direct_handle_repeats_with_overlapping_reads", 1);
                    }
                }
                if !c.viol.is_empty() {
                    return;
                }
            }
            c.count("direct_handle_distinct_schedules", schedules.len() as u64);
        });
    }
    // N. extract_with_config called by two user threads at the same moment on the same archive path, each with its own
    // configuration (set through the builder-style setters threads() / batch_size() / skip_errors()): each call answers for
    // itself, slot by slot like a sequential reader, whatever the other one is doing.
    let pair_base = direct_base + direct_specs.len() as u64;
    // (archive, [threads, batch, skip, request shape] of caller A, the same of caller B); threads 0 = setter not called
    type Side = (usize, usize, bool, &'static str);
    let pair_specs: [(&str, Side, Side); 6] = [
        ("S", (2, 3, true, "miss-alt:40"), (7, 50, false, "rev")),
        ("S", (0, 10, false, "all"), (0, 10, false, "all")),
        ("S", (3, 1, false, "miss-middle:40"), (4, 2, true, "miss-dup:40")),
        ("M", (3, 10, false, "first:1001"), (2, 7, true, "miss-middle:1001")),
        ("M", (4, 9, true, "miss-alt:1001"), (5, 11, false, "shuffled")),
        ("V4", (4, 5, true, "miss-first:40"), (1, 10, false, "shuffled")),
    ];
    for (pi, &(tag, a, b)) in pair_specs.iter().enumerate() {
        let idx = pair_base + pi as u64;
        if !run.want(idx) || (run.args.only.is_none() && mix(idx) % stride != 0) {
            continue;
        }
        let mut rng = run.rng(idx, 0);
        let fi = fixes.iter().position(|f| f.tag == tag).unwrap_or_else(|| panic!("harness: no fixture {tag}"));
        let sides = [a, b];
        let reqs: Vec<Vec<String>> = sides.iter().map(|s| build_request(s.3, &fixes[fi], &mut rng)).collect();
        let exps: Vec<Vec<Exp>> = reqs.iter().map(|r| r.iter().map(|n| fixes[fi].expect(n)).collect()).collect();
        let path = fixes[fi].path.clone();
        let rounds = if thorough { 40 } else if tag == "M" { 4 } else { 8 };
        let side_desc = |s: &Side, n: usize| json!({"threads": if s.0 == 0 { json!("unset") } else { json!(s.0) }, "batch_size": s.1, "skip_errors": s.2, "shape": s.3, "request_len": n});
        let class = format!("extract_with_config|two-user-threads|{tag}|{}|{}", format!("t{}b{}s{}{}", a.0, a.1, a.2 as u8, a.3), format!("t{}b{}s{}{}", b.0, b.1, b.2 as u8, b.3));
        let desc = json!({"interface": "extract_with_config", "archive": tag, "caller_a": side_desc(&a, reqs[0].len()), "caller_b": side_desc(&b, reqs[1].len()), "rounds": rounds,
            "what": "two std threads leave a barrier and call extract_with_config on the same path with different configurations; both results compared with the sequential baseline"});
        run.case(idx, &class, desc, |c| {
            for round in 0..rounds {
                let ctx = json!({"archive": tag, "round": round, "caller_a": side_desc(&a, reqs[0].len()), "caller_b": side_desc(&b, reqs[1].len())});
                let barrier = Arc::new(std::sync::Barrier::new(2));
                let outs: Vec<Result<Outcome, String>> = std::thread::scope(|sc| {
                    let hs: Vec<_> = (0..2)
                        .map(|w| {
                            let (barrier, path, req, side) = (barrier.clone(), &path, &reqs[w], sides[w]);
                            sc.spawn(move || {
                                let refs: Vec<&str> = req.iter().map(|s| s.as_str()).collect();
                                let mut cfg = ParallelConfig::new().batch_size(side.1).skip_errors(side.2);
                                if side.0 > 0 {
                                    cfg = cfg.threads(side.0);
                                }
                                barrier.wait();
                                trap(|| match extract_with_config(path, &refs, cfg) {
                                    Ok(v) => Outcome::Slots(v.into_iter().map(|(n, r)| (n, match r { Ok(d) => SlotR::Ok(d), Err(e) => SlotR::Err(variant(&e)) })).collect()),
                                    Err(e) => Outcome::CallErr(e.to_string()),
                                })
                            })
                        })
                        .collect();
                    hs.into_iter().map(|h| match h.join() { Ok(Ok(o)) => Ok(o), Ok(Err(p)) => Err(p.sig()), Err(_) => Err("thread died".to_string()) }).collect()
                });
                for (w, o) in outs.into_iter().enumerate() {
                    c.count("two_caller_calls", 1);
                    c.count(&format!("two_caller_calls|{}", if reqs[w].len() > 1000 { "batched" } else { "unbatched" }), 1);
                    match o {
                        Err(sig) => {
                            c.violate(format!("panic|extract_with_config|two-user-threads|{sig}"), format!("extract_with_config panicked in caller {} while another thread was calling it on the same archive", ["A", "B"][w]), json!({"ctx": ctx}));
                            return;
                        }
                        Ok(out) => check_outcome(c, "extract_with_config", "two-user-threads", &reqs[w], &exps[w], Some(sides[w].2), &out, &ctx),
                    }
                }
                if !c.viol.is_empty() {
                    return;
                }
            }
        });
    }
    stop.store(true, Ordering::Relaxed);
    for h in stress {
        let _ = h.join();
    }
    run.extra("max_concurrent_tasks", json!(st.max_conc));
    for (t, n) in &st.threads_used {
        run.extra(&format!("max_threads_running_tasks|configured={t}"), json!(n));
    }
    for (t, n) in &st.conc_by_threads {
        run.extra(&format!("max_concurrent_tasks|configured={t}"), json!(n));
    }
    run.done();
}
