//! C20 helper — the library's own view of MPQ archives the CLI is run on (DESIGN.md §6 C20).
//!
//! `c20_lib --view LIST.json --journal FILE [--start K]`
//!     LIST = [{"id":…, "path":…, "tmp":<path the rebuild verdict may write to>, "compare_with":<path>|null}]
//!     one line per archive ({"e":"B","i":k} first, so that a crash is attributed to the archive being viewed):
//!       open          Archive::open                                   (mpq info / list / tree / debug)
//!       info          get_info(): file_count, format                  (mpq info, `Number of files`)
//!       find          find_file(probe)                                 (mpq info <archive> <file>)
//!       list          Archive::list() names                            (mpq list, mpq tree)
//!       validate      ParallelArchive::open + extract_with_config(list_files, skip_errors=true): names that failed   (mpq validate)
//!       extract_all   names = parse_listfile(read_file("(listfile)")) else list(); extract_with_config(names, skip_errors=false)  (mpq extract, no names)
//!       files         per listed name: readable?, sha256-free content digest (fnv64), size, position, stored size, flags
//!       rebuild       rebuild_archive(path, tmp, options as the CLI builds them)   (mpq rebuild)
//!       compare       compare_archives(path, compare_with, …defaults)            (mpq compare)
//!       chain         PatchChain::add_archive(path, 0) + list()                    (mpq patch-chain)
//!
//! `c20_lib --build SPEC.json --journal FILE`
//!     SPEC = [{"path":…, "version":1..4, "compression":"none|zlib|bzip2|lzma", "files":[{"name":"Dir\\Sub\\a.txt","src":<path>}]}]
//!     archives whose names have directory components (the CLI's `create` stores base names only), for the
//!     `--preserve-paths` half of the extract oracle.

use serde_json::{Value, json};
use std::collections::BTreeMap;
use std::io::Write;
use std::path::Path;
use vh_common::{fnv64, trap};
use wow_mpq::single_archive_parallel::{ParallelArchive, ParallelConfig, extract_with_config};
use wow_mpq::{Archive, ArchiveBuilder, FormatVersion, PatchChain, RebuildOptions};

fn args() -> BTreeMap<String, String> {
    let a: Vec<String> = std::env::args().skip(1).collect();
    let mut m = BTreeMap::new();
    let mut i = 0;
    while i < a.len() {
        if let Some(k) = a[i].strip_prefix("--") {
            m.insert(k.to_string(), a.get(i + 1).cloned().unwrap_or_default());
            i += 2;
        } else {
            i += 1;
        }
    }
    m
}

fn short(e: impl std::fmt::Display) -> String {
    let mut s = e.to_string();
    s.truncate(200);
    s
}

/// Result<T, E> inside a panic trap -> (Option<T>, verdict json)
fn call<T, E: std::fmt::Display>(f: impl FnOnce() -> Result<T, E>) -> (Option<T>, Value) {
    match trap(f) {
        Ok(Ok(v)) => (Some(v), json!({"v": "ok"})),
        Ok(Err(e)) => (None, json!({"v": "err", "msg": short(e)})),
        Err(p) => (None, json!({"v": "panic", "msg": p.sig()})),
    }
}

fn view_one(it: &Value) -> Value {
    let path = it["path"].as_str().unwrap_or("").to_string();
    let mut out = json!({"id": it["id"], "path": path});
    let (ar, open_v) = call(|| Archive::open(&path));
    out["open"] = open_v;
    if let Some(mut ar) = ar {
        // info
        let (info, v) = call(|| ar.get_info());
        out["info"] = v;
        if let Some(info) = info {
            out["info"]["file_count"] = json!(info.file_count);
            out["info"]["format"] = json!(format!("{:?}", info.format_version));
        }
        // find_file(probe): `mpq info <archive> <file>`
        if let Some(probe) = it["probe"].as_str() {
            let (found, v) = call(|| ar.find_file(probe));
            out["find"] = match found {
                Some(Some(_)) => v,
                Some(None) => json!({"v": "err", "msg": "find_file returned None (file not in archive)"}),
                None => v,
            };
        }
        // list
        let (entries, v) = call(|| ar.list());
        out["list"] = v;
        if let Some(entries) = entries {
            let names: Vec<String> = entries.iter().map(|e| e.name.clone()).collect();
            let mut files = serde_json::Map::new();
            for n in &names {
                let fi = trap(|| ar.find_file(n)).ok().and_then(|r| r.ok()).flatten();
                let (data, rv) = call(|| ar.read_file(n));
                let mut f = json!({"read": rv});
                if let Some(d) = data {
                    f["size"] = json!(d.len());
                    f["digest"] = json!(format!("{:016x}", fnv64(&d)));
                }
                if let Some(fi) = fi {
                    f["pos"] = json!(fi.file_pos);
                    f["csize"] = json!(fi.compressed_size);
                    f["flags"] = json!(fi.flags);
                }
                files.insert(n.clone(), f);
            }
            out["list"]["names"] = json!(names);
            out["files"] = Value::Object(files);
        }
        // the name source of `mpq extract` without explicit names
        let names_v = trap(|| -> Result<Vec<String>, wow_mpq::Error> {
            match ar.read_file("(listfile)") {
                Ok(data) => match wow_mpq::special_files::parse_listfile(&data) {
                    Ok(n) => Ok(n),
                    Err(_) => Ok(ar.list()?.into_iter().map(|e| e.name).collect()),
                },
                Err(_) => Ok(ar.list()?.into_iter().map(|e| e.name).collect()),
            }
        });
        match names_v {
            Ok(Ok(names)) => {
                let refs: Vec<&str> = names.iter().map(|s| s.as_str()).collect();
                let (res, v) = call(|| extract_with_config(&path, &refs, ParallelConfig::new().batch_size(10).skip_errors(false)));
                out["extract_all"] = v;
                out["extract_all"]["names"] = json!(names);
                if let Some(res) = res {
                    let failed: Vec<String> = res.iter().filter(|(_, r)| r.is_err()).map(|(n, _)| n.clone()).collect();
                    if !failed.is_empty() {
                        out["extract_all"] = json!({"v": "err", "msg": format!("{} file(s) failed", failed.len()), "names": names, "failed": failed});
                    }
                }
            }
            Ok(Err(e)) => out["extract_all"] = json!({"v": "err", "msg": short(e)}),
            Err(p) => out["extract_all"] = json!({"v": "panic", "msg": p.sig()}),
        }
    }
    // validate: ParallelArchive::open + extract_with_config(skip_errors = true)
    let (pa, pv) = call(|| ParallelArchive::open(&path));
    match pa {
        None => out["validate"] = pv,
        Some(pa) => {
            let files: Vec<&str> = pa.list_files().iter().map(|s| s.as_str()).collect();
            let (res, v) = call(|| extract_with_config(&path, &files, ParallelConfig::new().skip_errors(true)));
            out["validate"] = v;
            if let Some(res) = res {
                let failed: Vec<String> = res.iter().filter(|(_, r)| r.is_err()).map(|(n, _)| n.clone()).collect();
                out["validate"]["files"] = json!(files.len());
                if !failed.is_empty() {
                    out["validate"] = json!({"v": "err", "msg": format!("{} of {} file(s) unreadable", failed.len(), files.len()), "failed": failed, "files": files.len()});
                }
            }
        }
    }
    // rebuild, with the options `mpq rebuild <src> <dst>` passes by default
    if let Some(tmp) = it["tmp"].as_str() {
        let _ = std::fs::remove_file(tmp);
        let opts = RebuildOptions { preserve_format: true, target_format: None, preserve_order: true, skip_encrypted: false, skip_signatures: true, verify: false, override_compression: None, override_block_size: None, list_only: false };
        let (sum, v) = call(|| wow_mpq::rebuild_archive(path.as_str(), tmp, opts, None));
        out["rebuild"] = v;
        if let Some(s) = sum {
            out["rebuild"]["source_files"] = json!(s.source_files);
            out["rebuild"]["extracted_files"] = json!(s.extracted_files);
            out["rebuild"]["skipped_files"] = json!(s.skipped_files);
        }
        let _ = std::fs::remove_file(tmp);
    }
    if let Some(other) = it["compare_with"].as_str() {
        let (r, v) = call(|| wow_mpq::compare_archives(path.as_str(), other, false, false, false, false, None));
        out["compare"] = v;
        if let Some(r) = r {
            out["compare"]["identical"] = json!(r.identical);
        }
    }
    let (_, v) = call(|| -> Result<usize, wow_mpq::Error> {
        let mut chain = PatchChain::new();
        chain.add_archive(&path, 0)?;
        Ok(chain.list()?.len())
    });
    out["chain"] = v;
    out
}

fn view(a: &BTreeMap<String, String>) {
    let list: Vec<Value> = serde_json::from_str(&std::fs::read_to_string(a.get("view").unwrap()).expect("list")).expect("list json");
    let start: usize = a.get("start").and_then(|s| s.parse().ok()).unwrap_or(0);
    let mut j = std::fs::OpenOptions::new().create(true).append(true).open(a.get("journal").expect("--journal")).expect("journal");
    for (k, it) in list.iter().enumerate() {
        if k < start {
            continue;
        }
        writeln!(j, "{}", json!({"e": "B", "i": k})).ok();
        j.flush().ok();
        let mut v = view_one(it);
        v["e"] = json!("A");
        v["i"] = json!(k);
        writeln!(j, "{v}").ok();
        j.flush().ok();
    }
    writeln!(j, "{}", json!({"e": "D", "n": list.len()})).ok();
}

fn build(a: &BTreeMap<String, String>) {
    let list: Vec<Value> = serde_json::from_str(&std::fs::read_to_string(a.get("build").unwrap()).expect("spec")).expect("spec json");
    let mut j = std::fs::OpenOptions::new().create(true).append(true).open(a.get("journal").expect("--journal")).expect("journal");
    for (k, it) in list.iter().enumerate() {
        let path = it["path"].as_str().unwrap_or("").to_string();
        let ver = match it["version"].as_u64().unwrap_or(1) {
            1 => FormatVersion::V1,
            2 => FormatVersion::V2,
            3 => FormatVersion::V3,
            _ => FormatVersion::V4,
        };
        let comp = match it["compression"].as_str().unwrap_or("zlib") {
            "none" => 0,
            "bzip2" => wow_mpq::compression::flags::BZIP2,
            "lzma" => wow_mpq::compression::flags::LZMA,
            _ => wow_mpq::compression::flags::ZLIB,
        };
        let (_, v) = call(|| -> Result<(), String> {
            let mut b = ArchiveBuilder::new().version(ver).default_compression(comp).listfile_option(wow_mpq::ListfileOption::Generate);
            for f in it["files"].as_array().cloned().unwrap_or_default() {
                let data = std::fs::read(f["src"].as_str().unwrap_or("")).map_err(|e| e.to_string())?;
                b = b.add_file_data(data, f["name"].as_str().unwrap_or(""));
            }
            b.build(Path::new(&path)).map_err(|e| e.to_string())
        });
        writeln!(j, "{}", json!({"e": "K", "i": k, "path": path, "build": v})).ok();
    }
    writeln!(j, "{}", json!({"e": "D", "n": list.len()})).ok();
}

fn main() {
    vh_common::install_panic_trap();
    let a = args();
    if a.contains_key("build") {
        build(&a);
    } else {
        view(&a);
    }
}
