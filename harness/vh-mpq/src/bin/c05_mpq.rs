//! C05 — parsers are total: worker for MPQ archives, (attributes)/(listfile) payloads and PTCH patch files.
//! The format definitions (seeds + drivers) live in `../c05_fmt_mpq.rs`, the engine in `vh-formats/src/c05_common.rs`.

#[path = "../../../vh-formats/src/c05_common.rs"]
mod c05_common;
#[path = "../c05_fmt_mpq.rs"]
mod fmt_mpq;

#[global_allocator]
static A: c05_common::SiteAlloc = c05_common::SiteAlloc;

fn main() {
    c05_common::worker_main(fmt_mpq::formats(), 2000, 50_000);
}
