//! C03 — lossless codecs invert exactly, never expand, accept their own output. DESIGN.md §6 C03.

use serde_json::json;
use vh_common::{Case, Run, brief, first_diff, gen_content, trap};
use wow_mpq::compression::decompress_secure;
use wow_mpq::{SecurityLimits, SessionTracker, compress, decompress};

const LOSSLESS: &[(u8, &str)] = &[(0x02, "zlib"), (0x10, "bzip2"), (0x12, "lzma"), (0x20, "sparse"), (0x08, "pkware"), (0x22, "sparse+zlib"), (0x30, "sparse+bzip2")];
const LOSSY: &[(u8, &str)] = &[(0x40, "adpcm-mono"), (0x80, "adpcm-stereo"), (0x42, "adpcm-mono+zlib"), (0x41, "adpcm-mono+huffman"), (0x81, "adpcm-stereo+huffman"), (0x82, "adpcm-stereo+zlib"), (0x50, "adpcm-mono+bzip2"), (0x90, "adpcm-stereo+bzip2"), (0x60, "adpcm-mono+sparse"), (0xA0, "adpcm-stereo+sparse"), (0x48, "adpcm-mono+pkware"), (0x88, "adpcm-stereo+pkware")];
const COMPRESS_ONLY_ERR: &[(u8, &str)] = &[(0x01, "huffman"), (0x04, "implode")];
const CLASSES: &[&str] = &["zero", "ff", "period2", "period3", "period255", "runs", "litruns", "random", "text", "half", "sparse", "tailz1", "tailz2", "tailz3", "tailz129"];

/// vh_common's content classes plus `tailz<k>`: sparse content that ends in a non-zero byte followed by exactly k zero bytes
/// (run-length coders end their last run at the buffer end: the encoder's final marker and the decoder's clamp must agree).
fn content(rng: &mut vh_common::Rng, class: &str, len: usize) -> Vec<u8> {
    if let Some(k) = class.strip_prefix("tailz").and_then(|k| k.parse::<usize>().ok()) {
        let mut d = gen_content(rng, "sparse", len);
        if len > k {
            d[len - k - 1] = 0x55;
            for b in &mut d[len - k..] {
                *b = 0;
            }
        }
        return d;
    }
    gen_content(rng, class, len)
}

fn lengths(thorough: bool) -> Vec<usize> {
    let mut v: Vec<usize> = (0..=40).collect();
    v.extend([127, 128, 129, 130, 131, 255, 256, 257, 258, 259]);
    let top = if thorough { 21 } else { 17 };
    for p in 6..=top {
        let b = 1usize << p;
        for d in [-2i64, -1, 0, 1, 2] {
            v.push((b as i64 + d) as usize);
        }
    }
    v.sort();
    v.dedup();
    v
}

fn ratio_class(inlen: usize, outlen: usize) -> &'static str {
    if outlen == 0 {
        return "r?";
    }
    let r = inlen / outlen;
    if r > 1000 { "ratio>1000" } else { "ratio<=1000" }
}

fn check_lossless(c: &mut Case, m: u8, mname: &str, class: &str, d: &[u8]) {
    let len = d.len();
    let r = trap(|| compress(d, m));
    let out = match r {
        Err(p) => {
            c.violate(format!("compress-panic|{mname}|{}", p.sig()), format!("compress(len {len}, {mname}) panicked: {}", p.msg), json!({"class": class, "len": len}));
            return;
        }
        Ok(Err(_)) => {
            c.count(&format!("compress_err|{mname}"), 1);
            return;
        }
        Ok(Ok(o)) => o,
    };
    c.count(&format!("compress_ok|{mname}"), 1);
    // size rule: never longer than the input
    if out.len() > len {
        c.violate(format!("stored-form-longer-than-input|{mname}"), format!("compress(len {len}, {mname}, class {class}) produced {} bytes", out.len()), json!({"class": class, "len": len, "out": out.len()}));
    }
    if out == d {
        c.count("stored_raw", 1);
        return; // stored raw — nothing to invert
    }
    // "when compression does not shrink the data it is stored raw": a form that differs from the input must be shorter
    if out.len() >= len {
        c.violate(format!("not-stored-raw-although-not-smaller|{mname}"), format!("compress(len {len}, {mname}, class {class}) returned a {}-byte form that is not the raw input", out.len()), json!({"class": class, "len": len, "out": out.len()}));
    }
    if out.is_empty() || out[0] != m {
        c.violate(format!("method-byte-missing|{mname}"), format!("compress output differs from input but does not start with the method byte {m:#x} (len {len}, class {class})"), json!({"head": out.first()}));
        return;
    }
    let rc = ratio_class(len, out.len() - 1);
    // decompress with the true length under default limits, both entry points
    // decompress_secure also takes the file's name: the codec contract may not depend on it for sizes this small
    // (the nested-archive heuristic only concerns outputs > 50 MB)
    for (ai, api) in ["decompress", "decompress_secure", "decompress_secure:name.mpq", "decompress_secure:Dir\\data.ZIP", "decompress_secure:a.rar", "decompress_secure:b.7z", "decompress_secure:c.txt"].into_iter().enumerate() {
        if ai == 1 || ai == 4 {
            // what the codec answers may not depend on what the same thread decoded before: between two valid round trips the
            // same selector is offered damaged streams (truncated, first byte altered, bytes that are no stream at all);
            // what these calls answer is not judged here (errors expected; crashes are C05's subject)
            let body = &out[1..];
            let mut damaged: Vec<Vec<u8>> = vec![body[..body.len() / 2].to_vec(), b"this is not a compressed stream at all, just text".to_vec()];
            if !body.is_empty() {
                let mut f = body.to_vec();
                let at = f.len() / 3;
                f[at] ^= 0x5A;
                damaged.push(f);
            }
            for dmg in &damaged {
                c.count("disturbing_decompress_calls", 1);
                match trap(|| decompress(dmg, m, len)) {
                    Ok(Err(_)) => c.count("disturbing_decompress_calls_failed", 1),
                    _ => {}
                }
            }
        }
        let r = trap(|| {
            if api == "decompress" {
                decompress(&out[1..], m, len)
            } else {
                let st = SessionTracker::new();
                let name = api.split_once(':').map(|x| x.1);
                decompress_secure(&out[1..], m, len, name, &st, &SecurityLimits::default())
            }
        });
        c.count("decompress_calls", 1);
        match r {
            Err(p) => c.violate(format!("decompress-panic|{mname}|{}", p.sig()), format!("{api}(compress(len {len}, class {class}), {mname}) panicked: {}", p.msg), json!({"class": class, "len": len})),
            Ok(Err(e)) => {
                let msg = format!("{e}");
                let kind = if msg.contains("ratio") || msg.contains("bomb") { "bomb-ratio" } else if msg.contains("nested") { "nested-archive-name" } else { "other" };
                c.violate(
                    format!("own-output-rejected|{mname}|{kind}|{rc}"),
                    format!("{api} rejected compress()'s own output: {msg} (len {len}, class {class}, compressed {})", out.len() - 1),
                    json!({"class": class, "len": len, "compressed": out.len() - 1, "err": msg}),
                );
            }
            Ok(Ok(back)) => {
                if back != d {
                    let fd = first_diff(&back, d);
                    c.violate(
                        format!("roundtrip-mismatch|{mname}|{}", if back.len() != len { "len" } else { "bytes" }),
                        format!("decompress(compress(d)) != d: len {len} class {class}, got {} bytes, first difference at {fd}", back.len()),
                        json!({"class": class, "len": len, "in": brief(d), "got": brief(&back)}),
                    );
                } else {
                    c.count("roundtrips_ok", 1);
                }
            }
        }
    }
}

/// Selector 0 ("no compression"): nothing can shrink, so the stored form is the input itself (the general oracle of
/// `check_lossless` already says so: never longer, raw or method byte + exact inverse); and the way back through both entry
/// points with selector 0 and the true length returns the input. An empty stored form is never offered to a decompressor
/// (every selector answers "empty compressed data"), so the way back starts at one byte.
fn check_none(c: &mut Case, class: &str, d: &[u8]) {
    let len = d.len();
    check_lossless(c, 0x00, "none", class, d);
    let out = match trap(|| compress(d, 0x00)) {
        Ok(Ok(o)) => o,
        _ => return, // panic / refusal: judged (or tallied) by check_lossless above
    };
    if out != d {
        return; // judged by check_lossless
    }
    c.count("none_identity_ok", 1);
    if len == 0 {
        c.count("none_empty_not_offered", 1);
        return;
    }
    for api in ["decompress", "decompress_secure"] {
        let r = trap(|| {
            if api == "decompress" {
                decompress(&out, 0x00, len)
            } else {
                let st = SessionTracker::new();
                decompress_secure(&out, 0x00, len, None, &st, &SecurityLimits::default())
            }
        });
        c.count("none_wayback_calls", 1);
        match r {
            Err(p) => c.violate(format!("decompress-panic|none|{}", p.sig()), format!("{api}(d, 0, len {len}) panicked: {}", p.msg), json!({"class": class, "len": len})),
            Ok(Err(e)) => c.violate("own-output-rejected|none|other|ratio<=1000".to_string(), format!("{api} with selector 0 rejected the stored form of compress(d, 0): {e} (len {len}, class {class})"), json!({"class": class, "len": len, "err": e.to_string()})),
            Ok(Ok(back)) => {
                if back != d {
                    c.violate(
                        format!("roundtrip-mismatch|none|{}", if back.len() != len { "len" } else { "bytes" }),
                        format!("{api}(compress(d, 0), 0, len) != d: len {len} class {class}, got {} bytes, first difference at {}", back.len(), first_diff(&back, d)),
                        json!({"class": class, "len": len, "in": brief(d), "got": brief(&back)}),
                    );
                } else {
                    c.count("none_wayback_ok", 1);
                }
            }
        }
    }
}

/// One unit of the threaded workload: a stored form the decompressor accepts when it is offered alone, and what it answers then.
struct ThreadItem {
    m: u8,
    mname: &'static str,
    len: usize,
    body: Vec<u8>,
    alone: Vec<u8>,
}

/// What one thread saw: (calls, calls answered as alone, bytes returned by decompress_secure, deviations (item, entry point, kind, text)).
type ThreadSeen = (u64, u64, u64, Vec<(usize, &'static str, String, String)>);

fn thread_body(items: &[ThreadItem], st: &SessionTracker, lim: &SecurityLimits, t: usize, rounds: usize) -> ThreadSeen {
    let (mut calls, mut same, mut produced) = (0u64, 0u64, 0u64);
    let mut dev: Vec<(usize, &'static str, String, String)> = Vec::new();
    let n = items.len();
    for round in 0..rounds {
        for k in 0..n {
            // every thread walks the list from another place and with another stride, so different codecs run at the same time
            let at = (t * 5 + round * 3 + k * (1 + 2 * (t % 3))) % n;
            let it = &items[at];
            for api in ["decompress_secure", "decompress"] {
                if api == "decompress" && (k + t + round) % 3 != 0 {
                    continue;
                }
                let r = trap(|| if api == "decompress" { decompress(&it.body, it.m, it.len) } else { decompress_secure(&it.body, it.m, it.len, None, st, lim) });
                calls += 1;
                match r {
                    Ok(Ok(b)) => {
                        if api == "decompress_secure" {
                            produced += b.len() as u64;
                        }
                        if b == it.alone {
                            same += 1;
                        } else {
                            dev.push((at, api, "differs-from-single-thread".to_string(), format!("{} bytes, first difference at {}", b.len(), first_diff(&b, &it.alone))));
                        }
                    }
                    Ok(Err(e)) => dev.push((at, api, "failed-but-succeeds-alone".to_string(), e.to_string())),
                    Err(p) => dev.push((at, api, format!("panic|{}", p.sig()), p.msg.clone())),
                }
            }
        }
    }
    (calls, same, produced, dev)
}

fn check_lossy(c: &mut Case, m: u8, mname: &str, d: &[u8], probe: &str) {
    let len = d.len();
    let r = trap(|| compress(d, m));
    let out = match r {
        Err(p) => {
            c.violate(format!("compress-panic|{mname}|{}", p.sig()), format!("compress(len {len}, {mname}) panicked: {}", p.msg), json!({"len": len}));
            return;
        }
        Ok(Err(_)) => {
            c.count(&format!("compress_err|{mname}"), 1);
            return;
        }
        Ok(Ok(o)) => o,
    };
    c.count(&format!("compress_ok|{mname}"), 1);
    if out.len() > len {
        c.violate(format!("stored-form-longer-than-input|{mname}"), format!("compress(len {len}, {mname}) produced {} bytes", out.len()), json!({"len": len}));
    }
    if out == d || out.is_empty() || out[0] != m {
        return;
    }
    match trap(|| decompress(&out[1..], m, len)) {
        Err(p) => c.violate(format!("decompress-panic|{mname}|{}", p.sig()), format!("decompress panicked: {}", p.msg), json!({"len": len})),
        Ok(Err(e)) => c.violate(format!("own-output-rejected|{mname}|lossy"), format!("decompress rejected compress()'s own output: {e} (len {len}, {probe})"), json!({"len": len})),
        Ok(Ok(back)) => {
            c.count("lossy_roundtrips", 1);
            if back.len() != len {
                c.violate(format!("lossy-length-changed|{mname}"), format!("ADPCM changed the length {len} -> {} ({probe})", back.len()), json!({"len": len}));
                return;
            }
            // channel interleaving: stereo input with a constant left channel and a ramp right channel
            // (the transient probes only under the stereo selectors: a mono coder sees them as one wildly alternating channel)
            if (probe == "stereo-probe" || (probe.starts_with("stereo-") && m & 0x80 != 0)) && len >= 64 {
                let n = len / 4;
                let (mut l_err, mut r_err) = (0i64, 0i64);
                for i in 8..n {
                    let l = i16::from_le_bytes([back[4 * i], back[4 * i + 1]]) as i64;
                    let r = i16::from_le_bytes([back[4 * i + 2], back[4 * i + 3]]) as i64;
                    let lw = i16::from_le_bytes([d[4 * i], d[4 * i + 1]]) as i64;
                    let rw = i16::from_le_bytes([d[4 * i + 2], d[4 * i + 3]]) as i64;
                    l_err += (l - lw).abs();
                    r_err += (r - rw).abs();
                    // swapped hypothesis
                    let _ = (l - rw, r - lw);
                }
                let (mut sl, mut sr) = (0i64, 0i64);
                for i in 8..n {
                    let l = i16::from_le_bytes([back[4 * i], back[4 * i + 1]]) as i64;
                    let r = i16::from_le_bytes([back[4 * i + 2], back[4 * i + 3]]) as i64;
                    let lw = i16::from_le_bytes([d[4 * i], d[4 * i + 1]]) as i64;
                    let rw = i16::from_le_bytes([d[4 * i + 2], d[4 * i + 3]]) as i64;
                    sl += (l - rw).abs();
                    sr += (r - lw).abs();
                }
                c.count("interleave_probes", 1);
                if sl + sr < l_err + r_err {
                    c.violate(format!("adpcm-channels-swapped|{mname}"), format!("decoded stereo stream matches the source better with channels swapped (straight error {}, swapped error {})", l_err + r_err, sl + sr), json!({"len": len}));
                }
            }
        }
    }
}

fn main() {
    let mut run = Run::new();
    let thorough = run.args.thorough();
    let lens = lengths(thorough);
    run.extra("lengths", json!(lens.len()));
    let mut idx = 0u64;
    // lossless: one case per (selector, class), all lengths inside (small lengths are cheap; large ones dominate)
    for &(m, mname) in LOSSLESS {
        for &class in CLASSES {
            // split the length ladder into chunks so shards balance
            for (ci, chunk) in lens.chunks(24).enumerate() {
                let i = idx;
                idx += 1;
                if !run.want(i) {
                    continue;
                }
                let mut rng = run.rng(i, 0);
                let chunk = chunk.to_vec();
                run.case(i, &format!("{mname}|{class}|chunk{ci}"), json!({"selector": mname, "class": class, "lengths": chunk}), |c| {
                    for &len in &chunk {
                        let d = content(&mut rng, class, len);
                        c.count("triples", 1);
                        check_lossless(c, m, mname, class, &d);
                    }
                });
            }
        }
    }
    // random (length, class) points beyond the ladder, seeded
    let nrand = if thorough { 6000u64 } else { 1800 };
    for k in 0..nrand {
        let i = idx;
        idx += 1;
        if !run.want(i) {
            continue;
        }
        let mut rng = run.rng(i, 1);
        let (m, mname) = LOSSLESS[rng.usize(LOSSLESS.len())];
        let class = CLASSES[rng.usize(CLASSES.len())];
        let top = if thorough { 1usize << 20 } else { 1usize << 16 };
        let len = match k % 3 { 0 => rng.usize(600), 1 => rng.usize(70_000), _ => rng.usize(top) };
        run.case(i, &format!("{mname}|{class}|random-len|2^{}", (len.max(1)).ilog2()), json!({"selector": mname, "class": class, "len": len}), |c| {
            let d = content(&mut rng, class, len);
            c.count("triples", 1);
            check_lossless(c, m, mname, class, &d);
        });
    }
    // break-even inputs: incompressible head + compressible tail grown until compression first pays off
    for &(m, mname) in LOSSLESS {
        for rep in 0..(if thorough { 40u64 } else { 6 }) {
            let i = idx;
            idx += 1;
            if !run.want(i) {
                continue;
            }
            let mut rng = run.rng(i, 2);
            run.case(i, &format!("{mname}|break-even|rep{}", rep % 6), json!({"selector": mname, "what": "lengths around the point where 1 + compressed == input length"}), |c| {
                for d in vh_mpq::cfggen::break_even_contents(&mut rng, m) {
                    c.count("triples", 1);
                    c.count("break_even_inputs", 1);
                    check_lossless(c, m, mname, "break-even", &d);
                }
            });
        }
    }
    // ratio windows: the decompressor's safety limits are stated as whole ratios (T:1); inputs are steered so that
    // len / compressed lands just below, exactly on, inside the open window (T, T+1) and just above T for the limits the
    // default policy uses. What the limit refuses above T is the known bomb-ratio finding; everything at or below it
    // (the window included: the policy compares the truncated quotient) is the compressor's own output and must be accepted.
    for &(m, mname) in LOSSLESS {
        for (wi, &(t, fill, start)) in [(1000usize, 0u8, 60_000usize), (1000, 0x41, 300_000), (1000, 0, 1_000_000), (999, 0, 200_000), (500, 0x7F, 100_000), (2000, 0, 150_000)].iter().enumerate() {
            let i = idx;
            idx += 1;
            if !run.want(i) {
                continue;
            }
            if m == 0x08 && !thorough && wi >= 2 {
                continue; // PKWare is slow
            }
            run.case(i, &format!("{mname}|ratio-window|T{t}|fill{fill:02x}|start{start}"), json!({"selector": mname, "threshold": t, "fill": fill, "start_len": start}), |c| {
                // seven positions relative to the threshold: T*c-1, T*c, T*c+1, middle of the window, T*c+c-1, (T+1)*c, (T+1)*c+1
                for pos in 0..7usize {
                    // find a fixed point of n -> want(compressed(n)): secant steps while far away (for zlib / LZMA the
                    // compressed size grows with n, so plain iteration contracts too slowly), plain iteration close by
                    let mut n = start;
                    let mut landed = false;
                    let mut prev: Option<(i64, i64)> = None;
                    for _ in 0..40 {
                        let d = vec![fill; n];
                        let out = match trap(|| compress(&d, m)) {
                            Ok(Ok(o)) if o != d && o.len() > 1 => o,
                            _ => break,
                        };
                        let cs = out.len() - 1;
                        let want = match pos {
                            0 => t * cs - 1,
                            1 => t * cs,
                            2 => t * cs + 1,
                            3 => t * cs + cs / 2,
                            4 => t * cs + cs - 1,
                            5 => (t + 1) * cs,
                            _ => (t + 1) * cs + 1,
                        };
                        if want == n {
                            landed = true;
                            break;
                        }
                        let g = want as i64 - n as i64;
                        let next = match prev {
                            Some((pn, pg)) if g.abs() > 4 * cs as i64 && g != pg => n as i64 - g * (n as i64 - pn) / (g - pg),
                            _ => want as i64,
                        };
                        prev = Some((n as i64, g));
                        if next < 1 || next > (1i64 << 23) {
                            break;
                        }
                        n = next as usize;
                    }
                    if !landed {
                        c.count("ratio_window_not_reached", 1);
                        continue;
                    }
                    let d = vec![fill; n];
                    c.count("triples", 1);
                    c.count("ratio_window_inputs", 1);
                    c.count(&format!("ratio_window_inputs|T{t}|pos{pos}"), 1);
                    check_lossless(c, m, mname, "ratio-window", &d);
                }
            });
        }
    }
    // the top of the range in every tier: "up to the largest configurable sector or single-unit file" — units large enough
    // that a codec's internal block structure (bzip2's 100..900 kB blocks, LZMA dictionary, zlib window) is crossed
    for &(m, mname) in LOSSLESS {
        for (bi, &(len, class)) in [(700_001usize, "text"), (1usize << 21, "half"), (1_300_000usize, "litruns"), ((1usize << 21) + 1, "text"), (1usize << 22, "text"), ((1usize << 22) - 1, "half"), (5 * (1usize << 20) + 123, "half"), (1usize << 23, "text")].iter().enumerate() {
            let i = idx;
            idx += 1;
            if !run.want(i) {
                continue;
            }
            if m == 0x08 && !thorough && bi >= 2 {
                continue; // PKWare is slow; two large units per run in the quick tier
            }
            if bi >= 4 && !thorough && !matches!(m, 0x02 | 0x10 | 0x20) {
                continue; // units of 4..8 MiB (sector shift 13 and up): zlib, bzip2, sparse in the quick tier, every codec in thorough
            }
            let mut rng = run.rng(i, 3);
            run.case(i, &format!("{mname}|{class}|large-unit"), json!({"selector": mname, "class": class, "len": len}), |c| {
                let d = gen_content(&mut rng, class, len);
                c.count("triples", 1);
                c.count("large_units", 1);
                check_lossless(c, m, mname, class, &d);
            });
        }
    }
    // the legacy entry point has no session: identical calls must keep giving the identical answer however much the process
    // has decompressed before (more than the 1 GiB per-session cap in total)
    {
        let i = idx;
        idx += 1;
        if run.want(i) {
            let mut rng = run.rng(i, 4);
            run.case(i, "legacy-entry|cumulative-output-over-session-cap", json!({"what": "560 x decompress() of one 2 MiB unit (zlib and sparse alternating)"}), |c| {
                let d = gen_content(&mut rng, "half", 1 << 21);
                let forms: Vec<(u8, Vec<u8>)> = [0x02u8, 0x20].iter().filter_map(|&m| compress(&d, m).ok().filter(|o| o.len() < d.len() && o[0] == m).map(|o| (m, o))).collect();
                if forms.is_empty() {
                    c.nontrivial = false;
                    return;
                }
                let mut first_ok = vec![false; forms.len()];
                let mut total = 0u64;
                for round in 0..560usize {
                    let k = round % forms.len();
                    let (m, out) = &forms[k];
                    match trap(|| decompress(&out[1..], *m, d.len())) {
                        Ok(Ok(b)) if b == d => {
                            first_ok[k] = true;
                            total += b.len() as u64;
                        }
                        Ok(Ok(_)) => {
                            c.violate("roundtrip-mismatch|legacy-entry|repeated-call", format!("decompress() call #{round} returned different bytes than the input"), json!({"round": round}));
                            break;
                        }
                        Ok(Err(e)) => {
                            if first_ok[k] {
                                c.violate("own-output-rejected|legacy-entry|after-cumulative-output", format!("decompress() accepted this unit before and refuses the identical call #{round} after {total} bytes of output in the process: {e}"), json!({"round": round, "total": total, "err": e.to_string()}));
                            }
                            break;
                        }
                        Err(p) => {
                            c.violate(format!("decompress-panic|legacy-entry|{}", p.sig()), format!("decompress panicked: {}", p.msg), json!({"round": round}));
                            break;
                        }
                    }
                }
                c.count("legacy_cumulative_bytes", total);
            });
        }
    }
    // selectors whose compressor is expected to refuse
    for &(m, mname) in COMPRESS_ONLY_ERR {
        let i = idx;
        idx += 1;
        let mut rng = run.rng(i, 0);
        run.case(i, &format!("{mname}|compress-refuses"), json!({"selector": mname}), |c| {
            for &len in &[0usize, 1, 5, 100, 4096] {
                let d = gen_content(&mut rng, "text", len);
                c.count("triples", 1);
                check_lossless(c, m, mname, "text", &d);
            }
        });
    }
    // lossy ADPCM
    for &(m, mname) in LOSSY {
        for probe in ["sine", "stereo-probe", "stereo-transient-left", "stereo-transient-right", "stereo-transients-both", "random"] {
            let i = idx;
            idx += 1;
            let mut rng = run.rng(i, 0);
            run.case(i, &format!("{mname}|{probe}"), json!({"selector": mname, "probe": probe}), |c| {
                for &len in &[0usize, 2, 4, 6, 8, 64, 200, 1000, 4096, 4098, 65536] {
                    let d: Vec<u8> = match probe {
                        "sine" => (0..len / 2).flat_map(|k| (((k as f32 * 0.05).sin() * 9000.0) as i16).to_le_bytes()).collect(),
                        "stereo-probe" => (0..len / 4).flat_map(|k| { let l = 1000i16; let r = ((k % 200) as i16 - 100) * 80; let mut v = l.to_le_bytes().to_vec(); v.extend(r.to_le_bytes()); v }).collect(),
                        // loud onsets: sample-to-sample jumps far above the current step size, in one channel or both, the two
                        // channels kept far apart (left positive, right negative) so a swap is unmistakable
                        p if p.starts_with("stereo-transient") => {
                            let (tl, tr) = (p != "stereo-transient-right", p != "stereo-transient-left");
                            let mut lv = 300i32;
                            let mut rv = -300i32;
                            (0..len / 4)
                                .flat_map(|k| {
                                    if k > 0 && k % 37 == 0 && tl {
                                        lv = 4000 + ((k as i32 * 7919) % 24000);
                                    } else if k % 37 == 20 && tl {
                                        lv = 300;
                                    }
                                    if k > 0 && k % 41 == 0 && tr {
                                        rv = -(4000 + ((k as i32 * 104729) % 24000));
                                    } else if k % 41 == 25 && tr {
                                        rv = -300;
                                    }
                                    let l = (lv + (k as i32 % 5) * 10) as i16;
                                    let r = (rv - (k as i32 % 7) * 10) as i16;
                                    let mut v = l.to_le_bytes().to_vec();
                                    v.extend(r.to_le_bytes());
                                    v
                                })
                                .collect()
                        }
                        _ => rng.bytes(len / 2 * 2),
                    };
                    c.count("triples", 1);
                    check_lossy(c, m, mname, &d, probe);
                }
            });
        }
    }
    // a shared session is charged for what was decompressed: calls that pass the plausibility checks and then fail inside the
    // codec produced nothing, so however many of them a session has seen, the compressor's own output is still accepted
    {
        let i = idx;
        idx += 1;
        if run.want(i) {
            let mut rng = run.rng(i, 6);
            run.case(i, "shared-session|failed-calls-then-own-output", json!({"what": "1300 calls on damaged 1 MiB units (and 14 on damaged units declaring 90 MiB) on one SessionTracker, then valid units of every lossless codec"}), |c| {
                let st = SessionTracker::new();
                let lim = SecurityLimits::default();
                let d = gen_content(&mut rng, "text", 1 << 20);
                let mut failed = 0u64;
                let mut produced = 0u64;
                for &m in &[0x02u8, 0x10] {
                    let Ok(out) = compress(&d, m) else { continue };
                    if out.len() >= d.len() || out[0] != m {
                        continue;
                    }
                    let mut bad = out[1..].to_vec();
                    let mid = bad.len() / 2;
                    let end = mid + 64.min(bad.len() - mid);
                    for b in bad[mid..end].iter_mut() {
                        *b ^= 0xA5;
                    }
                    for round in 0..650 {
                        // some of the damaged units declare a much larger size
                        let declared = if round % 50 == 7 { 90 << 20 } else { d.len() };
                        match trap(|| decompress_secure(&bad, m, declared, None, &st, &lim)) {
                            Ok(Ok(b)) => produced += b.len() as u64,
                            Ok(Err(_)) => failed += 1,
                            Err(p) => {
                                c.violate(format!("decompress-panic|shared-session|{}", p.sig()), format!("decompress_secure panicked on a damaged unit: {}", p.msg), json!({"round": round}));
                                return;
                            }
                        }
                    }
                }
                c.count("shared_session_failed_calls", failed);
                c.count("shared_session_bytes_from_damaged_units", produced);
                let (charged, _, _) = st.get_stats();
                if charged > produced {
                    c.violate("session-charged-for-failed-calls".to_string(), format!("after {failed} failed calls (and {produced} bytes actually returned) the session reports {charged} bytes decompressed"), json!({"failed": failed, "produced": produced, "charged": charged}));
                }
                if produced >= (1u64 << 30) - (8 << 20) {
                    c.nontrivial = false; // the damaged units decoded after all: the cap may legitimately be reached
                    return;
                }
                let v = gen_content(&mut rng, "text", 2 << 20);
                for &(m, mname) in LOSSLESS {
                    let Ok(out) = compress(&v, m) else { continue };
                    if out.len() >= v.len() || out[0] != m {
                        continue;
                    }
                    c.count("shared_session_valid_units", 1);
                    match trap(|| decompress_secure(&out[1..], m, v.len(), None, &st, &lim)) {
                        Ok(Ok(b)) if b == v => {}
                        Ok(Ok(_)) => c.violate(format!("roundtrip-mismatch|{mname}|shared-session-after-failed-calls"), "wrong bytes".to_string(), json!({})),
                        Ok(Err(e)) => c.violate(
                            format!("own-output-rejected|{mname}|shared-session-after-failed-calls"),
                            format!("after {failed} failed calls that produced nothing, the session refuses the compressor's own 2 MiB unit: {e}"),
                            json!({"failed": failed, "charged": charged, "err": e.to_string()}),
                        ),
                        // (the same signature as on the one-call path: the PKWare decoder's panic is one defect, recorded there)
                        Err(p) => c.violate(format!("decompress-panic|{mname}|{}", p.sig()), p.msg.clone(), json!({})),
                    }
                }
            });
        }
    }
    // selector 0 (no compression): stored as given for every class and length of the ladder (and two large units), and
    // accepted on the way back with selector 0
    for &class in CLASSES {
        let i = idx;
        idx += 1;
        if !run.want(i) {
            continue;
        }
        let mut rng = run.rng(i, 8);
        let mut ls = lens.clone();
        if class == "text" || class == "half" {
            ls.extend([700_001usize, (1usize << 21) + 1]);
        }
        run.case(i, &format!("none|{class}|ladder"), json!({"selector": "none", "class": class, "lengths": ls.len()}), |c| {
            for &len in &ls {
                let d = content(&mut rng, class, len);
                c.count("triples", 1);
                c.count("none_inputs", 1);
                check_none(c, class, &d);
            }
        });
    }
    // several threads, one SessionTracker: decompress_secure takes the tracker by shared reference (it is Sync), so one session
    // may serve parallel readers. What a call answers may not depend on what other threads decode at the same time: every
    // thread must get, for every unit, the bytes the same call returns alone (lossless and ADPCM selectors alike: decoding is
    // deterministic), and no call may fail that succeeds alone. The workload stays below half of the session's cumulative cap.
    {
        let i = idx;
        idx += 1;
        if run.want(i) {
            let mut rng = run.rng(i, 7);
            let nthreads = if thorough { 12usize } else { 8 };
            let want_rounds = if thorough { 6usize } else { 3 };
            run.case(i, "shared-session|threads", json!({"what": "round trips of every lossless and ADPCM selector (PKWare excluded: its decoder's panic is recorded on the one-call path) from several threads on one shared SessionTracker, legacy decompress() calls in between", "threads": nthreads, "rounds_wanted": want_rounds}), |c| {
                let lim = SecurityLimits::default();
                let mut items: Vec<ThreadItem> = Vec::new();
                let mut offered = 0u64;
                let mut push = |c: &mut Case, m: u8, mname: &'static str, d: Vec<u8>, lossless: bool| {
                    offered += 1;
                    let Ok(Ok(out)) = trap(|| compress(&d, m)) else { return };
                    if out == d || out.len() < 2 || out[0] != m {
                        c.count("threads_units_stored_raw", 1);
                        return;
                    }
                    let body = out[1..].to_vec();
                    let fresh = SessionTracker::new();
                    match trap(|| decompress_secure(&body, m, d.len(), None, &fresh, &lim)) {
                        Ok(Ok(alone)) if !lossless || alone == d => items.push(ThreadItem { m, mname, len: d.len(), body, alone }),
                        // refused / wrong / panicking alone: the subject of the one-call legs, not of this one
                        _ => c.count("threads_units_not_accepted_alone", 1),
                    }
                };
                let mut sizes = vec![1_000usize, 40_000, 300_000];
                if thorough {
                    sizes.push(1 << 20);
                }
                for &(m, mname) in LOSSLESS {
                    if m & 0x08 != 0 {
                        continue;
                    }
                    for (k, &len) in sizes.iter().enumerate() {
                        let class = ["text", "half", "sparse", "runs", "litruns"][(k + m as usize) % 5];
                        let d = content(&mut rng, class, len);
                        push(c, m, mname, d, true);
                    }
                }
                for &(m, mname) in LOSSY {
                    if m & 0x08 != 0 {
                        continue;
                    }
                    for &len in &[4096usize, 65536] {
                        let d: Vec<u8> = (0..len / 4)
                            .flat_map(|k| {
                                let l = ((k as f32 * 0.05).sin() * 9000.0) as i16;
                                let r = ((k % 200) as i16 - 100) * 80;
                                let mut v = l.to_le_bytes().to_vec();
                                v.extend(r.to_le_bytes());
                                v
                            })
                            .collect();
                        push(c, m, mname, d, false);
                    }
                }
                let _ = offered;
                let per_round: u64 = items.iter().map(|it| it.len as u64).sum();
                if items.len() < 8 || per_round == 0 {
                    c.inconclusive("fewer than 8 units were accepted alone");
                    return;
                }
                // the budget, made explicit: everything the threads can have charged to the session stays at or below half the cap
                let cap = lim.max_session_decompressed;
                let rounds = want_rounds.min((cap / 2 / (nthreads as u64 * per_round)) as usize);
                if rounds == 0 {
                    c.inconclusive("the workload does not fit below the session cap");
                    return;
                }
                let st = SessionTracker::new();
                let seen: Vec<ThreadSeen> = std::thread::scope(|s| {
                    let hs: Vec<_> = (0..nthreads).map(|t| { let (items, st, lim) = (&items, &st, &lim); s.spawn(move || thread_body(items, st, lim, t, rounds)) }).collect();
                    hs.into_iter().map(|h| h.join().unwrap_or_else(|_| (0, 0, 0, vec![(0, "thread", "panic|outside-call".to_string(), "a worker thread died outside a trapped call".to_string())]))).collect()
                });
                let mut produced = 0u64;
                let mut reported: Vec<String> = Vec::new();
                for (t, (calls, same, bytes, dev)) in seen.iter().enumerate() {
                    c.count("threads_calls", *calls);
                    c.count("threads_calls_same_as_alone", *same);
                    produced += *bytes;
                    for (at, api, kind, text) in dev {
                        let it = &items[*at];
                        let sig = format!("threads-shared-session|{}|{}|{kind}", it.mname, if *api == "decompress" { "legacy-entry" } else { "secure-entry" });
                        c.count("threads_deviations", 1);
                        if reported.contains(&sig) {
                            continue;
                        }
                        reported.push(sig.clone());
                        c.violate(sig, format!("thread {t} of {nthreads}: {api}({}, len {}) answers otherwise than the same call alone: {kind}: {text}", it.mname, it.len), json!({"selector": it.mname, "len": it.len, "threads": nthreads, "rounds": rounds, "kind": kind}));
                    }
                }
                let sels: std::collections::BTreeSet<&str> = items.iter().map(|it| it.mname).collect();
                c.count("threads_n", nthreads as u64);
                c.count("threads_rounds", rounds as u64);
                c.count("threads_units", items.len() as u64);
                c.count("threads_selectors", sels.len() as u64);
                c.count("threads_session_bytes", produced);
                let (charged, _, _) = st.get_stats();
                if charged > produced {
                    c.violate("threads-shared-session|session-charged-more-than-returned".to_string(), format!("{nthreads} threads got {produced} bytes back from decompress_secure in total, the shared session reports {charged}"), json!({"produced": produced, "charged": charged}));
                }
            });
        }
    }
    // the session cap itself, observed as an allowed error
    {
        let i = idx;
        run.case(i, "session-cap", json!({"what": "one shared SessionTracker until the 1 GiB cap answers with an error"}), |c| {
            let st = SessionTracker::new();
            let lim = SecurityLimits::default();
            let d = vec![7u8; 1 << 20];
            let out = compress(&d, 0x02).unwrap_or_default();
            let mut errs = 0;
            let mut oks = 0;
            for _ in 0..1100 {
                match decompress_secure(&out[1..], 0x02, d.len(), None, &st, &lim) {
                    Ok(b) => {
                        oks += 1;
                        if b != d {
                            c.violate("roundtrip-mismatch|zlib|shared-session", "shared-session decompress returned wrong bytes", json!({}));
                            break;
                        }
                    }
                    Err(_) => {
                        errs += 1;
                        break;
                    }
                }
            }
            c.count("session_cap_oks", oks);
            c.count("session_cap_errs", errs);
        });
    }
    run.done();
}
