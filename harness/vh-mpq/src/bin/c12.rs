//! C12 — all-or-nothing archive writes (DESIGN.md §6 C12, §3 M5).
//!
//! This worker performs exactly ONE operation per process; the Python supervisor (lib/props/c12.py)
//! runs it under `strace -e inject=…` / RLIMIT_FSIZE and judges the destination path post-mortem
//! with a *separate* `--verify` process.
//!
//!   c12 --scenario <name> --dest <path> [--seed N]      run the operation under test between two marker syscalls
//!   c12 --make-old --scenario <name> --dest <path>      set-up step: write the pre-existing destination
//!                                                       (build-…-present: an older valid archive with different content;
//!                                                        compact-…: an archive with deleted entries, made with MutableArchive add/remove)
//!   c12 --verify <archive> --scenario <name>            exit 0 iff the archive opens and every expected file reads back; exit 3 otherwise
//!   c12 --describe --scenario <name>                    print the scenario's configuration and file set as JSON
//!
//!   c12 --make-aux --scenario <name> --aux <dir>         set-up step: files the operation READS (source files on disk, an external
//!                                                       listfile, the source archive of a rebuild); operation runs get the same --aux <dir>
//!
//! scenario := build-v<1..4>-<absent|present>-<small|big>[-attrs|-extlist|-nolist|-disk]
//!           | compact-v<1..4>[-pending|-attrs]
//!           | rebuild-v<1..4>-<absent|present|same>[-verify]      (wow_mpq::rebuild_archive; same: target path == source path)
//!           | create-v<1..4>-<absent|present>                     (OpenOptions::version(v).create(path): empty archive, then opened)
//! The file set is a deterministic function of (seed, scenario); seed = --seed or $VERIF_SEED or 1.

use serde_json::json;
use std::collections::BTreeMap;
use std::path::{Path, PathBuf};
use vh_common::{Rng, brief, gen_content, trap};
use vh_mpq::cfggen::{Cfg, FileSpec, add_files};
use wow_mpq::{AddFileOptions, Archive, ListfileOption, MutableArchive, OpenOptions, RebuildOptions, rebuild_archive};

const EXIT_OK: i32 = 0;
const EXIT_USAGE: i32 = 2;
const EXIT_VERIFY_BAD: i32 = 3;
const EXIT_OP_ERR: i32 = 4;
const EXIT_OP_PANIC: i32 = 5;
const EXIT_SETUP_BAD: i32 = 6;

#[derive(Clone, Copy, Debug, PartialEq, Eq)]
enum Op {
    Build,
    Compact,
    Rebuild,
    Create,
}

#[derive(Clone, Debug)]
struct Scenario {
    name: String,
    op: Op,
    version: u8,
    present: bool,
    big: bool,
    /// compact with unflushed (content-neutral) modifications pending in the session: a file added and removed again
    pending: bool,
    /// build: "" | "attrs" (sector CRCs + full attributes file) | "extlist" (ListfileOption::External) | "nolist" | "disk" (files
    /// registered by path, read during build); compact: "" | "attrs"
    opt: String,
    /// rebuild: RebuildOptions.verify
    verify: bool,
    /// rebuild: the target path is the source path
    same: bool,
}

impl Scenario {
    fn compact(&self) -> bool {
        self.op == Op::Compact
    }
    fn needs_aux(&self) -> bool {
        matches!(self.opt.as_str(), "extlist" | "disk") || (self.op == Op::Rebuild && !self.same)
    }
}

fn parse_scenario(s: &str) -> Option<Scenario> {
    let p: Vec<&str> = s.split('-').collect();
    let ver = |t: &str| -> Option<u8> { t.strip_prefix('v')?.parse::<u8>().ok().filter(|v| (1..=4).contains(v)) };
    let state = |t: &str| match t {
        "absent" => Some(false),
        "present" => Some(true),
        _ => None,
    };
    let base = Scenario { name: s.to_string(), op: Op::Build, version: 1, present: true, big: false, pending: false, opt: String::new(), verify: false, same: false };
    match p.as_slice() {
        ["build", v, st, kind, rest @ ..] => {
            let big = match *kind {
                "small" => false,
                "big" => true,
                _ => return None,
            };
            let opt = match rest {
                [] => "",
                [o @ ("attrs" | "extlist" | "nolist" | "disk")] => *o,
                _ => return None,
            };
            Some(Scenario { version: ver(v)?, present: state(st)?, big, opt: opt.to_string(), ..base })
        }
        ["compact", v] => Some(Scenario { op: Op::Compact, version: ver(v)?, ..base }),
        ["compact", v, "pending"] => Some(Scenario { op: Op::Compact, version: ver(v)?, pending: true, ..base }),
        ["compact", v, "attrs"] => Some(Scenario { op: Op::Compact, version: ver(v)?, opt: "attrs".into(), ..base }),
        ["rebuild", v, st, rest @ ..] => {
            let verify = match rest {
                [] => false,
                ["verify"] => true,
                _ => return None,
            };
            let same = *st == "same";
            Some(Scenario { op: Op::Rebuild, version: ver(v)?, present: if same { true } else { state(st)? }, verify, same, ..base })
        }
        ["create", v, st] => Some(Scenario { op: Op::Create, version: ver(v)?, present: state(st)?, ..base }),
        _ => None,
    }
}

fn lane(s: &str) -> u64 {
    vh_common::fnv64(s.as_bytes())
}

/// `n` files with plain ASCII names that are pairwise not substrings of one another (same shape, distinct index).
fn gen_files(rng: &mut Rng, role: &str, sizes: &[usize]) -> Vec<FileSpec> {
    const CLASSES: &[&str] = &["random", "text", "half", "runs", "sparse", "period3"];
    const EXTS: &[&str] = &["blp", "m2x", "txt", "dbc", "wav"];
    let off = rng.usize(CLASSES.len());
    sizes
        .iter()
        .enumerate()
        .map(|(i, &len)| {
            let class = CLASSES[(i + off) % CLASSES.len()];
            let name = format!("Data\\C12{}\\{}{:02}_{:06x}.{}", role, role, i, rng.next_u32() & 0xFF_FFFF, EXTS[(i + off) % EXTS.len()]);
            FileSpec { name, class, data: gen_content(rng, class, len) }
        })
        .collect()
}

struct Plan {
    cfg: Cfg,
    /// files the operation under test writes (build) / files that are live after the set-up (compact)
    expect: Vec<FileSpec>,
    /// build-present: content of the older archive; compact: the initially built set
    old_files: Vec<FileSpec>,
    old_cfg: Cfg,
    /// compact set-up: names removed after the initial build / files added through MutableArchive
    removed: Vec<String>,
    added: Vec<FileSpec>,
}

fn plan(sc: &Scenario, seed: u64, variant: &str) -> Plan {
    // content depends on (seed, compact?, size class) only, so the same new archive is expected in the
    // dest-absent and dest-present variant of a build scenario
    let key = match sc.op {
        Op::Compact => "compact".to_string(),
        Op::Rebuild => "rebuild".to_string(),
        Op::Create => "create".to_string(),
        Op::Build => format!("build-{}", if sc.big { "big" } else { "small" }),
    };
    let mut rng = Rng::for_case(seed, lane(&key), sc.version as u64);
    let methods = [0x02u8, 0x00, 0x10];
    let mut cfg = Cfg {
        version: sc.version,
        shift: if sc.big { 0 } else { 3 },
        method: *rng.pick(&methods),
        enc: rng.usize(2) as u8,
        crc: false,
        attr: 0,
        listfile: true,
        tblcomp: sc.version >= 3 && rng.bool(),
    };
    match sc.opt.as_str() {
        // sector checksums and an (attributes) file with CRC32 + MD5 + timestamps: one more pass and one more member at the end of the build
        "attrs" => {
            cfg.crc = true;
            cfg.attr = 2;
        }
        "nolist" => cfg.listfile = false,
        _ => {}
    }
    let mut orng = Rng::for_case(seed, lane("old"), sc.version as u64);
    let old_cfg = Cfg { version: sc.version, shift: 3, method: 0x02, enc: 0, crc: false, attr: 0, listfile: true, tblcomp: false };
    if sc.compact() {
        // initial set of 5, then +2 added, 2 of the initial and 1 of the added removed
        // three small members (two of them get removed) and two multi-sector members that stay (sector table, per-sector
        // reads during compaction)
        let mut sizes: Vec<usize> = (0..5).map(|_| 1 + rng.usize(700)).collect();
        for s in sizes.iter_mut().skip(3) {
            *s = 2 * 4096 + 1 + rng.usize(9000);
        }
        let initial = gen_files(&mut rng, "i", &sizes);
        let asz: Vec<usize> = (0..2).map(|_| 1 + rng.usize(500)).collect();
        // variant "remove-only": no additions (used when add+flush does not yield a readable archive on this tree)
        let mut added = gen_files(&mut rng, "a", &asz);
        let r0 = rng.usize(3);
        let r1 = (r0 + 1 + rng.usize(2)) % 3;
        let ra = rng.usize(2);
        let mut removed = vec![initial[r0].name.clone(), initial[r1].name.clone(), added[ra].name.clone()];
        if variant == "remove-only" {
            added.clear();
            removed.truncate(2);
        }
        let mut expect: Vec<FileSpec> = initial.iter().filter(|f| !removed.contains(&f.name)).cloned().collect();
        expect.extend(added.iter().filter(|f| !removed.contains(&f.name)).cloned());
        let at = sc.opt == "attrs";
        let ccfg = Cfg { version: sc.version, shift: 3, method: 0x02, enc: 0, crc: at, attr: if at { 2 } else { 0 }, listfile: true, tblcomp: false };
        return Plan { cfg: ccfg.clone(), expect, old_files: initial, old_cfg: ccfg, removed, added };
    }
    let osz: Vec<usize> = (0..3).map(|_| 1 + orng.usize(300)).collect();
    let old_files = gen_files(&mut orng, "o", &osz);
    if sc.op == Op::Rebuild {
        // the source archive: four small members and one multi-sector member, listfile present; rebuild_archive reads every member
        // and writes a complete archive at the target path. `same`: bzip2 in the source, so that the rebuilt archive (zlib) differs
        let mut sizes: Vec<usize> = (0..5).map(|_| 1 + rng.usize(600)).collect();
        sizes[3] = 2 * 4096 + 1 + rng.usize(6000);
        let src = gen_files(&mut rng, "s", &sizes);
        let scfg = Cfg { version: sc.version, shift: 3, method: if sc.same { 0x10 } else { 0x02 }, enc: 0, crc: false, attr: 0, listfile: true, tblcomp: false };
        let (old_files, old_cfg) = if sc.same { (src.clone(), scfg.clone()) } else { (old_files, old_cfg) };
        return Plan { cfg: scfg, expect: src, old_files, old_cfg, removed: vec![], added: vec![] };
    }
    if sc.op == Op::Create {
        return Plan { cfg, expect: vec![], old_files, old_cfg, removed: vec![], added: vec![] };
    }
    let expect = if sc.big {
        let s = cfg.sector_size();
        gen_files(&mut rng, "n", &[3 * s + 7])
    } else {
        let mut sizes: Vec<usize> = (0..5).map(|_| 1 + rng.usize(400)).collect();
        if rng.bool() {
            sizes[rng.usize(5)] = 0;
        }
        gen_files(&mut rng, "n", &sizes)
    };
    Plan { cfg, expect, old_files, old_cfg, removed: vec![], added: vec![] }
}

fn marker(which: &str) {
    // traced by the supervisor (`-e trace=…,access`) but never part of the injected set
    let p = std::ffi::CString::new(format!("/verif-marker-{which}")).unwrap();
    unsafe {
        libc::syscall(libc::SYS_access, p.as_ptr(), 0 as libc::c_int);
    }
}

/// Read-back oracle (same shape as C01's): the archive opens, every expected file is found with the right
/// size and reads back byte-identical, and list() names every expected file. Returns the list of complaints.
fn verify(path: &Path, expect: &[FileSpec]) -> Vec<String> {
    verify_with(path, expect, true, false)
}

/// `check_list`: list() must name every expected file (off for archives built without a listfile, which cannot name their members);
/// `no_user_files`: list() must name nothing but the special files (the freshly created empty archive).
fn verify_with(path: &Path, expect: &[FileSpec], check_list: bool, no_user_files: bool) -> Vec<String> {
    let mut bad = Vec::new();
    let r = trap(|| {
        let mut bad = Vec::new();
        let mut ar = match Archive::open(path) {
            Ok(a) => a,
            Err(e) => return vec![format!("open failed: {e}")],
        };
        for f in expect {
            match ar.find_file(&f.name) {
                Ok(Some(i)) => {
                    if i.file_size != f.data.len() as u64 {
                        bad.push(format!("{}: size {} != {}", f.name, i.file_size, f.data.len()));
                    }
                }
                Ok(None) => {
                    bad.push(format!("{}: not found", f.name));
                    continue;
                }
                Err(e) => {
                    bad.push(format!("{}: find_file error {e}", f.name));
                    continue;
                }
            }
            match ar.read_file(&f.name) {
                Ok(d) if d == f.data => {}
                Ok(d) => bad.push(format!("{}: content differs ({} bytes read, {} expected, first diff {})", f.name, d.len(), f.data.len(), vh_common::first_diff(&d, &f.data))),
                Err(e) => bad.push(format!("{}: read error {e}", f.name)),
            }
        }
        if !check_list {
            return bad;
        }
        match ar.list() {
            Ok(entries) => {
                let got: std::collections::BTreeSet<String> = entries.iter().map(|e| e.name.to_ascii_uppercase().replace('/', "\\")).collect();
                if no_user_files {
                    if let Some(e) = entries.iter().find(|e| !matches!(e.name.as_str(), "(listfile)" | "(attributes)" | "(signature)" | "(user data)")) {
                        bad.push(format!("holds the user file {:?}: not the freshly created empty archive", e.name));
                    }
                    for e in &entries {
                        if let Err(er) = ar.read_file(&e.name) {
                            bad.push(format!("{}: read error {er}", e.name));
                        }
                    }
                }
                for f in expect {
                    if !got.contains(&f.name.to_ascii_uppercase()) {
                        bad.push(format!("{}: missing from list()", f.name));
                    }
                }
            }
            Err(e) => bad.push(format!("list() failed: {e}")),
        }
        bad
    });
    match r {
        Ok(b) => bad.extend(b),
        Err(p) => bad.push(format!("panic while reading back: {}", p.msg)),
    }
    bad
}

fn make_old(sc: &Scenario, pl: &Plan, dest: &Path) -> Result<(), String> {
    let b = add_files(pl.old_cfg.builder(), &pl.old_cfg, &pl.old_files);
    b.build(dest).map_err(|e| format!("initial build failed: {e}"))?;
    if sc.compact() {
        let mut m = MutableArchive::open(dest).map_err(|e| format!("MutableArchive::open: {e}"))?;
        for f in &pl.added {
            m.add_file_data(&f.data, &f.name, AddFileOptions::default()).map_err(|e| format!("add_file_data({}): {e}", f.name))?;
        }
        for n in &pl.removed {
            m.remove_file(n).map_err(|e| format!("remove_file({n}): {e}"))?;
        }
        m.flush().map_err(|e| format!("flush: {e}"))?;
        drop(m);
        let bad = verify(dest, &pl.expect);
        if !bad.is_empty() {
            return Err(format!("set-up archive does not read back: {}", bad.join("; ")));
        }
    } else {
        let bad = verify(dest, &pl.old_files);
        if !bad.is_empty() {
            return Err(format!("old archive does not read back: {}", bad.join("; ")));
        }
    }
    Ok(())
}

fn verify_scenario(sc: &Scenario, pl: &Plan, path: &Path) -> Vec<String> {
    verify_with(path, &pl.expect, sc.opt != "nolist", sc.op == Op::Create)
}

fn aux_src(aux: &Path, i: usize) -> PathBuf {
    aux.join(format!("src_{i:02}.bin"))
}

/// Files the operation under test reads: written once per scenario, before any faulted run, never inside the window.
fn make_aux(sc: &Scenario, pl: &Plan, aux: &Path) -> Result<(), String> {
    std::fs::create_dir_all(aux).map_err(|e| format!("create {}: {e}", aux.display()))?;
    if sc.opt == "disk" {
        for (i, f) in pl.expect.iter().enumerate() {
            std::fs::write(aux_src(aux, i), &f.data).map_err(|e| format!("write source file {i}: {e}"))?;
        }
    }
    if sc.opt == "extlist" {
        let mut t = String::new();
        for f in &pl.expect {
            t.push_str(&f.name);
            t.push_str("\r\n");
        }
        t.push_str("(listfile)\r\n");
        std::fs::write(aux.join("extlist.txt"), t).map_err(|e| format!("write external listfile: {e}"))?;
    }
    if sc.op == Op::Rebuild && !sc.same {
        let src = aux.join("source.mpq");
        add_files(pl.cfg.builder(), &pl.cfg, &pl.expect).build(&src).map_err(|e| format!("source archive build failed: {e}"))?;
        let bad = verify(&src, &pl.expect);
        if !bad.is_empty() {
            return Err(format!("source archive does not read back: {}", bad.join("; ")));
        }
    }
    Ok(())
}

/// The builder of a build scenario, files registered (in memory, or by path for `disk`: the first through add_file with the
/// builder's default compression, the others through add_file_with_options / add_file_with_encryption).
fn scenario_builder(sc: &Scenario, pl: &Plan, aux: &Path) -> wow_mpq::ArchiveBuilder {
    let mut b = pl.cfg.builder();
    if sc.opt == "extlist" {
        b = b.listfile_option(ListfileOption::External(aux.join("extlist.txt")));
    }
    if sc.opt != "disk" {
        return add_files(b, &pl.cfg, &pl.expect);
    }
    for (i, f) in pl.expect.iter().enumerate() {
        let p = aux_src(aux, i);
        b = match (i, pl.cfg.enc) {
            (0, 0) => b.add_file(&p, &f.name),
            (_, 0) => b.add_file_with_options(&p, &f.name, pl.cfg.method, false, 0),
            (_, 1) => b.add_file_with_options(&p, &f.name, pl.cfg.method, true, 0),
            _ => b.add_file_with_encryption(&p, &f.name, pl.cfg.method, true, 0),
        };
    }
    b
}

/// Several builds aimed at one destination at the same time (threads released by a barrier). Whatever each of them reports,
/// the destination afterwards is one of the complete archives or the previous content. One JSON line per round.
fn concurrent_builds(seed: u64, rounds: u64, dir: &Path) {
    let names = ["build-v1-present-small", "build-v2-present-big", "build-v4-present-small", "build-v3-present-big", "build-v1-present-big", "build-v2-present-small"];
    for r in 0..rounds {
        let nthreads = 2 + (r % 2) as usize;
        let scs: Vec<Scenario> = (0..nthreads).map(|t| parse_scenario(names[(r as usize + 2 * t + t * t) % names.len()]).unwrap()).collect();
        // (same size class + same version would mean the same content: keep the plans pairwise different)
        let plans: Vec<Plan> = scs.iter().enumerate().map(|(t, sc)| plan(sc, seed.wrapping_add(1000 * r + 77 * t as u64), "full")).collect();
        let dest = dir.join(format!("conc-{r}.mpq"));
        let _ = std::fs::remove_file(&dest);
        let with_old = r % 3 != 2;
        let mut old_bytes = None;
        if with_old {
            if let Err(e) = make_old(&scs[0], &plans[0], &dest) {
                println!("{}", json!({"round": r, "setup": e}));
                continue;
            }
            old_bytes = std::fs::read(&dest).ok();
        }
        let barrier = std::sync::Barrier::new(nthreads);
        let statuses: Vec<String> = std::thread::scope(|sc| {
            let hs: Vec<_> = plans
                .iter()
                .map(|pl| {
                    let (barrier, dest) = (&barrier, &dest);
                    sc.spawn(move || {
                        let b = add_files(pl.cfg.builder(), &pl.cfg, &pl.expect);
                        barrier.wait();
                        match trap(|| b.build(dest)) {
                            Ok(Ok(())) => "ok".to_string(),
                            Ok(Err(e)) => format!("err:{}", one_line(&e.to_string())),
                            Err(p) => format!("panic:{}", one_line(&p.msg)),
                        }
                    })
                })
                .collect();
            hs.into_iter().map(|h| h.join().unwrap_or_else(|_| "thread-died".into())).collect()
        });
        let now = std::fs::read(&dest).ok();
        let mut state = "other".to_string();
        let mut complaints = Vec::new();
        if now.is_none() {
            state = "absent".into();
        } else if now == old_bytes {
            state = "old".into();
        } else {
            for (t, pl) in plans.iter().enumerate() {
                let bad = verify(&dest, &pl.expect);
                if bad.is_empty() {
                    state = format!("complete-{t}");
                    break;
                }
                complaints.push(one_line(&bad.join("; ")));
            }
        }
        let leftovers: Vec<String> = std::fs::read_dir(dir).map(|d| d.filter_map(|e| e.ok()).map(|e| e.file_name().to_string_lossy().into_owned()).filter(|n| n.contains(&format!("conc-{r}.")) && *n != format!("conc-{r}.mpq")).collect()).unwrap_or_default();
        println!("{}", json!({"round": r, "threads": nthreads, "scenarios": scs.iter().map(|s| s.name.clone()).collect::<Vec<_>>(), "had_old": with_old, "statuses": statuses, "dest": state, "complaints": complaints, "leftovers": leftovers}));
        let _ = std::fs::remove_file(&dest);
        for l in leftovers {
            let _ = std::fs::remove_file(dir.join(l));
        }
    }
}

fn one_line(s: &str) -> String {
    s.replace(['\n', '\r'], " ").chars().take(300).collect()
}

fn main() {
    let argv: Vec<String> = std::env::args().skip(1).collect();
    let mut opt: BTreeMap<String, String> = BTreeMap::new();
    let mut i = 0;
    while i < argv.len() {
        let k = argv[i].trim_start_matches("--").to_string();
        match k.as_str() {
            "make-old" | "describe" | "make-aux" => {
                opt.insert(k, "1".into());
                i += 1;
            }
            _ => {
                opt.insert(k, argv.get(i + 1).cloned().unwrap_or_default());
                i += 2;
            }
        }
    }
    vh_common::install_panic_trap();
    vh_common::init_log();
    let seed: u64 = opt.get("seed").and_then(|s| s.parse().ok()).or_else(|| std::env::var("VERIF_SEED").ok().and_then(|s| s.parse().ok())).unwrap_or(1);
    if let Some(rounds) = opt.get("concurrent").and_then(|s| s.parse::<u64>().ok()) {
        let dir = PathBuf::from(opt.get("dest").cloned().unwrap_or_else(|| ".".into()));
        concurrent_builds(seed, rounds, &dir);
        std::process::exit(EXIT_OK);
    }
    let Some(sc) = opt.get("scenario").and_then(|s| parse_scenario(s)) else {
        eprintln!("usage: c12 --scenario <build-v{{1..4}}-{{absent|present}}-{{small|big}} | compact-v{{1|4}}> (--dest <path> [--make-old] | --verify <archive> | --describe)");
        std::process::exit(EXIT_USAGE);
    };
    let variant = opt.get("variant").cloned().unwrap_or_else(|| "full".to_string());
    let pl = plan(&sc, seed, &variant);

    if opt.contains_key("describe") {
        let fl = |v: &[FileSpec]| v.iter().map(|f| json!({"name": f.name, "class": f.class, "data": brief(&f.data)})).collect::<Vec<_>>();
        println!(
            "{}",
            json!({"scenario": sc.name, "seed": seed, "dest_present": sc.present, "variant": variant, "op": format!("{:?}", sc.op).to_lowercase(), "option": sc.opt, "rebuild_verify": sc.verify, "target_is_source": sc.same, "cfg": pl.cfg.to_json(), "expect": fl(&pl.expect),
                   "old_files": fl(&pl.old_files), "removed": pl.removed, "added": fl(&pl.added)})
        );
        std::process::exit(EXIT_OK);
    }

    if let Some(a) = opt.get("verify") {
        let bad = verify_scenario(&sc, &pl, Path::new(a));
        if bad.is_empty() {
            println!("VERIFY-OK files={}", pl.expect.len());
            std::process::exit(EXIT_OK);
        }
        println!("VERIFY-BAD {}", one_line(&bad.join("; ")));
        std::process::exit(EXIT_VERIFY_BAD);
    }

    let aux = opt.get("aux").map(PathBuf::from);
    if opt.contains_key("make-aux") {
        let Some(aux) = aux else {
            eprintln!("--aux required");
            std::process::exit(EXIT_USAGE);
        };
        match trap(|| make_aux(&sc, &pl, &aux)) {
            Ok(Ok(())) => {
                println!("SETUP-OK aux");
                std::process::exit(EXIT_OK);
            }
            Ok(Err(e)) => println!("SETUP-BAD {}", one_line(&e)),
            Err(p) => println!("SETUP-BAD panic: {}", one_line(&p.msg)),
        }
        std::process::exit(EXIT_SETUP_BAD);
    }
    let Some(dest) = opt.get("dest").map(PathBuf::from) else {
        eprintln!("--dest required");
        std::process::exit(EXIT_USAGE);
    };

    if opt.contains_key("make-old") {
        match trap(|| make_old(&sc, &pl, &dest)) {
            Ok(Ok(())) => {
                println!("SETUP-OK variant={variant}");
                std::process::exit(EXIT_OK);
            }
            Ok(Err(e)) => {
                println!("SETUP-BAD {}", one_line(&e));
                std::process::exit(EXIT_SETUP_BAD);
            }
            Err(p) => {
                println!("SETUP-BAD panic: {}", one_line(&p.msg));
                std::process::exit(EXIT_SETUP_BAD);
            }
        }
    }

    // ---- the operation under test, bracketed by the two marker syscalls
    let code;
    let aux = match (sc.needs_aux(), aux) {
        (true, None) => {
            println!("SETUP-BAD scenario {} needs --aux <dir>", sc.name);
            std::process::exit(EXIT_SETUP_BAD);
        }
        (_, a) => a.unwrap_or_default(),
    };
    if sc.op == Op::Rebuild {
        let src = if sc.same { dest.clone() } else { aux.join("source.mpq") };
        let mut o = RebuildOptions::default();
        o.verify = sc.verify;
        marker("begin");
        let r = trap(|| rebuild_archive(&src, &dest, o, None));
        marker("end");
        code = report(r.map(|x| x.map(|_| ()).map_err(|e| e.to_string())));
    } else if sc.op == Op::Create {
        let o = OpenOptions::new().version(pl.cfg.fmt_version());
        marker("begin");
        let r = trap(|| o.create(&dest).map(drop));
        marker("end");
        code = report(r.map(|x| x.map_err(|e| e.to_string())));
    } else if sc.compact() {
        let mut m = match MutableArchive::open(&dest) {
            Ok(m) => m,
            Err(e) => {
                println!("SETUP-BAD cannot open {} for compaction: {}", dest.display(), one_line(&e.to_string()));
                std::process::exit(EXIT_SETUP_BAD);
            }
        };
        if sc.pending {
            // unflushed modifications that leave the content as it is: the session is dirty when compact starts (and when the
            // handle is dropped after a failed compact)
            let data = vh_common::gen_content(&mut Rng::for_case(seed, lane("pending"), sc.version as u64), "text", 3000);
            let name = "Data\\C12p\\pending_only.txt";
            if let Err(e) = m.add_file_data(&data, name, AddFileOptions::default()).and_then(|_| m.remove_file(name)) {
                println!("SETUP-BAD pending modifications failed: {}", one_line(&e.to_string()));
                std::process::exit(EXIT_SETUP_BAD);
            }
        }
        marker("begin");
        let r = trap(|| m.compact());
        marker("end");
        code = report(r.map(|x| x.map_err(|e| e.to_string())));
        drop(m);
    } else {
        let b = scenario_builder(&sc, &pl, &aux);
        marker("begin");
        let r = trap(|| b.build(&dest));
        marker("end");
        code = report(r.map(|x| x.map_err(|e| e.to_string())));
    }
    std::process::exit(code);
}

fn report(r: Result<Result<(), String>, vh_common::PanicInfo>) -> i32 {
    match r {
        Ok(Ok(())) => {
            println!("BUILD-OK");
            EXIT_OK
        }
        Ok(Err(e)) => {
            println!("BUILD-ERR {}", one_line(&e));
            EXIT_OP_ERR
        }
        Err(p) => {
            println!("BUILD-PANIC {}", one_line(&format!("{} @ {}", p.msg, p.func)));
            EXIT_OP_PANIC
        }
    }
}
