//! C08 — patch-chain lookup returns the highest-priority version whatever the history; binary patches are applied and
//! verified against the digest they declare, or an error — never unverified bytes. DESIGN.md §6 C08.
//!
//! --mode chain : operation histories on `PatchChain` against a (priority desc, add-sequence asc) list model, on four
//!                small archives this worker builds itself with ArchiveBuilder (always with a listfile: an archive
//!                without a listfile cannot contribute names to a chain by design and is outside the workload);
//!                sequential vs parallel construction; many tied archives loaded in parallel.
//! --mode patch : manifests written by lib/props/c08.py into --dir: generated PTCH patches (COPY / BSD0) driven
//!                through `PatchFile::parse` + `patch::apply_patch` (well-formed, every header field altered, payload
//!                bytes altered, bsdiff40 header/control fields at boundary values, truncations, altered base files)
//!                and chains whose winning entry is a PATCH_FILE stored by the reference MPQ writer.
//! Monitors on the patch path: panic trap (M1) and the heap-request monitor (M3, single request >= 256 MiB;
//! requests >= 1 GiB are refused so the machine never pays for them).

use md5::{Digest, Md5};
use serde_json::{Value, json};
use std::collections::{BTreeMap, BTreeSet};
use std::path::{Path, PathBuf};
use vh_common::{Case, Rng, Run, alloc, brief, first_diff, hex, trap, unhex};
use wow_mpq::patch::{PatchFile, apply_patch};
use wow_mpq::verif_hooks::{trace_start, trace_take};
use wow_mpq::{ArchiveBuilder, FormatVersion, ListfileOption, PatchChain};

#[global_allocator]
static A: alloc::Counting = alloc::Counting;

const BIG_REQUEST: usize = 256 << 20;

fn norm(n: &str) -> String {
    n.replace('/', "\\").to_ascii_uppercase()
}

fn is_special(n: &str) -> bool {
    n.starts_with('(') && n.ends_with(')')
}

fn md5_of(b: &[u8]) -> [u8; 16] {
    let mut h = Md5::new();
    h.update(b);
    h.finalize().into()
}

// ===================================================================== part A: chain histories

struct ArcSpec {
    path: PathBuf,
    /// literal name -> content
    files: Vec<(String, Vec<u8>)>,
    /// MPQ format version the archive was built with (1..=4; 3 and 4 carry HET/BET tables)
    version: u8,
    /// per entry of `files`: stored encrypted
    encrypted: Vec<bool>,
}

fn format_version(v: u8) -> FormatVersion {
    match v {
        2 => FormatVersion::V2,
        3 => FormatVersion::V3,
        4 => FormatVersion::V4,
        _ => FormatVersion::V1,
    }
}

struct Universe {
    arcs: Vec<ArcSpec>,
    /// normalised key -> spellings to query
    keys: BTreeMap<String, Vec<String>>,
    absent: Vec<String>,
    /// format versions / encryption of the archives (for class strings and descriptions)
    tag: String,
}

impl Universe {
    fn is_encrypted(&self, arc: usize, key: &str) -> bool {
        self.arcs[arc].files.iter().position(|(n, _)| norm(n) == key).map(|j| self.arcs[arc].encrypted[j]).unwrap_or(false)
    }
    fn content(&self, arc: usize, key: &str) -> Option<&Vec<u8>> {
        self.arcs[arc].files.iter().find(|(n, _)| norm(n) == key).map(|(_, d)| d)
    }
    /// `versions[i % len]` = format version of archive i (library-built); `encrypted`: every second entry of an archive is
    /// stored encrypted by the builder (alternately with the plain and the position-dependent FIX_KEY key, zlib / stored),
    /// so that the chain's reads go through the key derivation of the archive reader.
    fn build(dir: &Path, tag: &str, specs: Vec<Vec<(String, Vec<u8>)>>, absent: &[&str], versions: &[u8], encrypted: bool) -> Result<Universe, String> {
        let mut arcs = vec![];
        let mut keys: BTreeMap<String, Vec<String>> = BTreeMap::new();
        for (i, files) in specs.into_iter().enumerate() {
            let path = dir.join(format!("{tag}{i}.mpq"));
            let version = versions[i % versions.len()];
            let mut b = ArchiveBuilder::new().listfile_option(ListfileOption::Generate);
            if version != 1 {
                b = b.version(format_version(version));
            }
            let enc_flags: Vec<bool> = (0..files.len()).map(|j| encrypted && (i + j) % 2 == 0).collect();
            for (j, (n, d)) in files.iter().enumerate() {
                b = if enc_flags[j] {
                    b.add_file_data_with_encryption(d.clone(), n, if (i + j) % 3 == 0 { 0 } else { 0x02 }, (i + j) % 4 == 0, 0)
                } else {
                    b.add_file_data(d.clone(), n)
                };
                let k = norm(n);
                let e = keys.entry(k).or_default();
                for sp in [n.clone(), n.to_ascii_uppercase(), n.to_ascii_lowercase(), n.replace('\\', "/")] {
                    if !e.contains(&sp) {
                        e.push(sp);
                    }
                }
            }
            b.build(&path).map_err(|e| format!("ArchiveBuilder failed for {tag}{i}: {e}"))?;
            arcs.push(ArcSpec { path, files, version, encrypted: enc_flags });
        }
        Ok(Universe { arcs, keys, absent: absent.iter().map(|s| s.to_string()).collect(), tag: format!("v{}{}", versions.iter().map(|v| v.to_string()).collect::<String>(), if encrypted { "+enc" } else { "" }) })
    }
}

fn content_for(arc: usize, name: &str) -> Vec<u8> {
    // every (archive, name) pair has its own content, so a read identifies the archive it came from
    let mut v = format!("[archive {arc}] {name} :: ").into_bytes();
    let extra = (arc * 37 + name.len() * 11) % 300;
    for k in 0..extra {
        v.push(b'a' + ((k * 7 + arc) % 26) as u8);
    }
    v
}

/// The version / encryption configurations of the four-archive universe: the first is the builder's default (all V1, nothing
/// encrypted); the others mix V1..V4 (V3/V4 = HET/BET tables: Archive::list and find_file take another path there) and
/// store every second entry encrypted.
const UNIVERSES: [([u8; 4], bool); 4] = [([1, 1, 1, 1], false), ([2, 3, 4, 1], true), ([4, 4, 3, 3], false), ([3, 2, 1, 4], true)];

fn universe_of(idx: u64) -> usize {
    // a fixed function of the case index, unrelated to the digits of the history encoding
    let mut z = idx.wrapping_add(0x9E37_79B9_7F4A_7C15);
    z = (z ^ (z >> 30)).wrapping_mul(0xBF58_476D_1CE4_E5B9);
    z = (z ^ (z >> 27)).wrapping_mul(0x94D0_49BB_1331_11EB);
    ((z ^ (z >> 31)) % UNIVERSES.len() as u64) as usize
}

fn four_archives(dir: &Path, k: usize) -> Result<Universe, String> {
    // overlapping and disjoint names, case variants and (at query time) slash variants
    let names: [&[&str]; 4] = [
        &["common.txt", "Data\\Shared.bin", "only0.txt", "dir\\File.TXT", "pair01.dat"],
        &["common.txt", "DATA\\SHARED.BIN", "only1.txt", "pair01.dat", "pair12.dat", "Sound\\Música\\tema_día.mp3"],
        &["Common.TXT", "data\\shared.bin", "only2.txt", "pair12.dat", "Pair23.DAT", "Sound\\Música\\tema_día.mp3", "Fonts\\шрифт.ttf"],
        &["common.txt", "only3.txt", "dir\\file.txt", "pair23.dat", "Straße\\größe.txt"],
    ];
    let specs = names.iter().enumerate().map(|(i, ns)| ns.iter().map(|n| (n.to_string(), content_for(i, n))).collect()).collect();
    let (versions, enc) = UNIVERSES[k];
    Universe::build(dir, &format!("a{k}-"), specs, &["nosuch.txt", "common.tx", "only4.txt", "Data\\Shared.bi", "dir\\", "ommon.txt"], &versions, enc)
}

fn many_tied_archives(dir: &Path, n: usize) -> Result<Universe, String> {
    let specs = (0..n).map(|i| vec![("common.txt".to_string(), content_for(i, "common.txt")), (format!("u{i}.txt"), content_for(i, "u"))]).collect();
    // formats cycle through V1..V4 along the archives
    Universe::build(dir, "t", specs, &["u9999.txt"], &[1, 2, 3, 4], false)
}

#[derive(Clone, Debug)]
struct MEntry {
    arc: usize,
    prio: i32,
    seq: u64,
    /// the current priority was assigned by set_priority (ties involving this entry are not fixed by the statement)
    by_set: bool,
}

#[derive(Clone, Debug, Default)]
struct Model {
    entries: Vec<MEntry>,
    next_seq: u64,
}

impl Model {
    fn has(&self, arc: usize) -> bool {
        self.entries.iter().any(|e| e.arc == arc)
    }
    fn add(&mut self, arc: usize, prio: i32) {
        self.entries.push(MEntry { arc, prio, seq: self.next_seq, by_set: false });
        self.next_seq += 1;
    }
    fn remove(&mut self, arc: usize) -> bool {
        let n = self.entries.len();
        self.entries.retain(|e| e.arc != arc);
        n != self.entries.len()
    }
    fn set_prio(&mut self, arc: usize, prio: i32) -> bool {
        for e in self.entries.iter_mut() {
            if e.arc == arc {
                e.prio = prio;
                e.by_set = true;
                return true;
            }
        }
        false
    }
    /// (archives that may legitimately win `key`, whether the top priority is shared)
    fn allowed(&self, uni: &Universe, key: &str) -> (Vec<usize>, bool) {
        let cands: Vec<&MEntry> = self.entries.iter().filter(|e| uni.content(e.arc, key).is_some()).collect();
        let Some(top) = cands.iter().map(|e| e.prio).max() else { return (vec![], false) };
        let tied: Vec<&&MEntry> = cands.iter().filter(|e| e.prio == top).collect();
        let ok = tied.iter().filter(|c| c.by_set || !tied.iter().any(|d| !d.by_set && d.seq < c.seq)).map(|c| c.arc).collect();
        (ok, tied.len() > 1)
    }
    fn shape(&self) -> String {
        let mut v = self.entries.clone();
        v.sort_by(|a, b| b.prio.cmp(&a.prio).then(a.seq.cmp(&b.seq)));
        v.iter().map(|e| format!("A{}@{}{}", e.arc, e.prio, if e.by_set { "s" } else { "" })).collect::<Vec<_>>().join(",")
    }
}

#[derive(Clone, Debug, PartialEq)]
enum Op {
    Add(usize, i32),
    Remove(usize),
    SetPrio(usize, i32),
    Clear,
}

const PRIOS: [i32; 3] = [-5, 0, 7];
const ALPHABET: usize = 29;

fn op_from_letter(k: usize) -> Op {
    match k {
        0..=11 => Op::Add(k / 3, PRIOS[k % 3]),
        12..=15 => Op::Remove(k - 12),
        16..=27 => Op::SetPrio((k - 16) / 3, PRIOS[(k - 16) % 3]),
        _ => Op::Clear,
    }
}

fn op_kind(op: &Op) -> &'static str {
    match op {
        Op::Add(..) => "add",
        Op::Remove(..) => "remove",
        Op::SetPrio(..) => "set_priority",
        Op::Clear => "clear",
    }
}

fn op_json(op: &Op) -> Value {
    match op {
        Op::Add(i, p) => json!(format!("add(A{i},{p})")),
        Op::Remove(i) => json!(format!("remove(A{i})")),
        Op::SetPrio(i, p) => json!(format!("set_priority(A{i},{p})")),
        Op::Clear => json!("clear"),
    }
}

fn kinds_set(ops: &[Op]) -> String {
    let s: BTreeSet<&str> = ops.iter().map(op_kind).collect();
    s.into_iter().collect::<Vec<_>>().join("+")
}

/// Compare every observable of the chain with the model. `ctx` = semantic context for signatures (op kinds / api).
fn compare_all(c: &mut Case, chain: &mut PatchChain, model: &Model, uni: &Universe, ctx: &str, step: &Value) {
    let path_of = |a: usize| uni.arcs[a].path.as_path();
    c.count(&format!("comparisons_on_archives|{}", uni.tag), 1);
    // what read_file answered per queried name (None = error), for the batch entry point below
    let mut single: Vec<(&str, Option<Vec<u8>>)> = Vec::new();
    for (key, spellings) in &uni.keys {
        let (allowed, tie) = model.allowed(uni, key);
        let tie_s = if tie { "tie" } else { "no-tie" };
        for sp in spellings {
            c.count("lookups_compared", 1);
            let rd = trap(|| chain.read_file(sp));
            if let Ok(r) = &rd {
                single.push((sp.as_str(), r.as_ref().ok().cloned()));
            }
            match rd {
                Err(p) => c.violate(format!("chain-read|panic|{}|{ctx}", p.func), format!("read_file({sp:?}) panicked: {}", p.msg), json!({"at": step})),
                Ok(Ok(bytes)) => {
                    if let Some(w) = allowed.iter().find(|a| uni.content(**a, key) == Some(&bytes)) {
                        c.count(&format!("reads_won_by_archive_format|v{}", uni.arcs[*w].version), 1);
                        if uni.is_encrypted(*w, key) {
                            c.count("reads_won_by_encrypted_entry", 1);
                        }
                    }
                    if allowed.is_empty() {
                        c.violate(format!("chain-read|found-but-in-no-archive|{ctx}"), format!("read_file({sp:?}) returned {} bytes although no archive of the chain contains the name", bytes.len()),
                                  json!({"at": step, "model": model.shape(), "got": brief(&bytes)}));
                    } else if !allowed.iter().any(|a| uni.content(*a, key) == Some(&bytes)) {
                        let from = (0..uni.arcs.len()).find(|a| uni.content(*a, key) == Some(&bytes));
                        let what = if from.is_some() { "wrong-winner" } else { "bytes-of-no-archive" };
                        c.violate(format!("chain-read|{what}|{tie_s}|{ctx}"),
                                  format!("read_file({sp:?}) returned the content of {} but the model's winner is archive {:?} (chain: {})", from.map(|a| format!("archive {a}")).unwrap_or("no archive".into()), allowed, model.shape()),
                                  json!({"at": step, "model": model.shape(), "allowed": allowed, "got_from": from}));
                    }
                }
                Ok(Err(e)) => {
                    if !allowed.is_empty() {
                        c.violate(format!("chain-read|not-found|{ctx}"), format!("read_file({sp:?}) failed ({e}) although archive {:?} of the chain contains it (chain: {})", allowed, model.shape()),
                                  json!({"at": step, "model": model.shape()}));
                    }
                }
            }
            c.count("contains_compared", 1);
            if chain.contains_file(sp) == allowed.is_empty() {
                c.violate(format!("chain-contains|{}|{ctx}", if allowed.is_empty() { "true-for-absent" } else { "false-for-present" }),
                          format!("contains_file({sp:?}) = {} but the model says {}", allowed.is_empty(), !allowed.is_empty()), json!({"at": step, "model": model.shape()}));
            }
            c.count("find_archive_compared", 1);
            match chain.find_file_archive(sp) {
                None => {
                    if !allowed.is_empty() {
                        c.violate(format!("chain-find-archive|none-for-present|{ctx}"), format!("find_file_archive({sp:?}) = None, model: archive {:?}", allowed), json!({"at": step, "model": model.shape()}));
                    }
                }
                Some(p) => {
                    if !allowed.iter().any(|a| path_of(*a) == p) {
                        c.violate(format!("chain-find-archive|{}|{tie_s}|{ctx}", if allowed.is_empty() { "some-for-absent" } else { "wrong-archive" }),
                                  format!("find_file_archive({sp:?}) = {}, model: archive {:?} (chain: {})", p.display(), allowed, model.shape()), json!({"at": step, "model": model.shape()}));
                    }
                }
            }
        }
    }
    for sp in &uni.absent {
        c.count("absent_lookups_compared", 1);
        let r = trap(|| chain.read_file(sp));
        if let Ok(r) = &r {
            single.push((sp.as_str(), r.as_ref().ok().cloned()));
        }
        if matches!(r, Ok(Ok(_))) || r.is_err() || chain.contains_file(sp) || chain.find_file_archive(sp).is_some() {
            c.violate(format!("chain-read|found-but-in-no-archive|{ctx}"), format!("the name {sp:?} is in no archive but the chain finds it (or panics)"), json!({"at": step, "model": model.shape()}));
        }
    }
    // the batch entry point: one slot per requested name, in request order, each equal to what read_file gives
    check_extract_files(c, chain, &single, ctx, step);
    // list(): as a set of normalised names == union over the model's archives (specials aside); every listed literal name exists in some chain archive
    c.count("lists_compared", 1);
    let mut want: BTreeSet<String> = BTreeSet::new();
    let mut literal: BTreeSet<&str> = BTreeSet::new();
    for e in &model.entries {
        for (n, _) in &uni.arcs[e.arc].files {
            want.insert(norm(n));
            literal.insert(n.as_str());
        }
    }
    match trap(|| chain.list()) {
        Err(p) => c.violate(format!("chain-list|panic|{}|{ctx}", p.func), format!("list() panicked: {}", p.msg), json!({"at": step})),
        Ok(Err(e)) => c.violate(format!("chain-list|error|{ctx}"), format!("list() failed: {e}"), json!({"at": step, "model": model.shape()})),
        Ok(Ok(entries)) => {
            let got: BTreeSet<String> = entries.iter().filter(|f| !is_special(&f.name)).map(|f| norm(&f.name)).collect();
            c.count("list_names_compared", got.len() as u64);
            if let Some(m) = want.difference(&got).next() {
                c.violate(format!("chain-list|missing-name|{ctx}"), format!("list() lacks {m:?} (chain: {})", model.shape()), json!({"at": step, "model": model.shape(), "got": got}));
            }
            if let Some(x) = got.difference(&want).next() {
                c.violate(format!("chain-list|extra-name|{ctx}"), format!("list() contains {x:?} which no archive of the chain holds (chain: {})", model.shape()), json!({"at": step, "model": model.shape()}));
            }
            if let Some(f) = entries.iter().find(|f| !is_special(&f.name) && !literal.contains(f.name.as_str())) {
                c.violate(format!("chain-list|invented-spelling|{ctx}"), format!("list() returns the spelling {:?} which no archive of the chain lists", f.name), json!({"at": step}));
            }
        }
    }
    c.count("counts_compared", 1);
    if chain.archive_count() != model.entries.len() {
        c.violate(format!("chain-count|{ctx}"), format!("archive_count() = {} but the model holds {} archives ({})", chain.archive_count(), model.entries.len(), model.shape()), json!({"at": step}));
    }
    for a in 0..uni.arcs.len().min(8) {
        c.count("priorities_compared", 1);
        let want = model.entries.iter().find(|e| e.arc == a).map(|e| e.prio);
        let got = chain.get_priority(path_of(a));
        if got != want {
            c.violate(format!("chain-get-priority|{ctx}"), format!("get_priority(A{a}) = {got:?}, model {want:?} ({})", model.shape()), json!({"at": step}));
        }
        // get_archive: Some exactly for the members, and it is the archive opened from that path
        c.count("get_archive_compared", 1);
        match chain.get_archive(path_of(a)) {
            None if want.is_some() => c.violate(format!("chain-get-archive|none-for-member|{ctx}"), format!("get_archive(A{a}) = None although the archive is in the chain ({})", model.shape()), json!({"at": step})),
            Some(_) if want.is_none() => c.violate(format!("chain-get-archive|some-for-non-member|{ctx}"), format!("get_archive(A{a}) = Some although the archive is not in the chain ({})", model.shape()), json!({"at": step})),
            Some(ar) if ar.path() != path_of(a) => c.violate(format!("chain-get-archive|other-archive|{ctx}"), format!("get_archive(A{a}) returned the archive opened from {}", ar.path().display()), json!({"at": step})),
            _ => {}
        }
    }
    c.count("get_archive_compared", 1);
    if chain.get_archive(uni.arcs[0].path.with_extension("never-added")).is_some() {
        c.violate(format!("chain-get-archive|some-for-non-member|{ctx}"), "get_archive of a path that was never added returned an archive".to_string(), json!({"at": step}));
    }
    // get_chain_info: one record per archive of the chain, with its priority, highest priority first; among archives of
    // equal priority whose priority was given by an add, the earlier added stands first (the order lookups are decided by)
    c.count("chain_infos_compared", 1);
    match trap(|| chain.get_chain_info()) {
        Err(p) => c.violate(format!("chain-info|panic|{}|{ctx}", p.func), format!("get_chain_info() panicked: {}", p.msg), json!({"at": step})),
        Ok(infos) => {
            c.count("chain_info_records_compared", infos.len() as u64);
            let got: Vec<(Option<usize>, i32)> = infos.iter().map(|i| ((0..uni.arcs.len()).find(|a| path_of(*a) == i.path.as_path()), i.priority)).collect();
            let show = got.iter().map(|(a, p)| format!("{}@{p}", a.map(|a| format!("A{a}")).unwrap_or("?".into()))).collect::<Vec<_>>().join(",");
            let mut gs: Vec<(Option<usize>, i32)> = got.clone();
            gs.sort();
            let mut ws: Vec<(Option<usize>, i32)> = model.entries.iter().map(|e| (Some(e.arc), e.prio)).collect();
            ws.sort();
            if gs != ws {
                c.violate(format!("chain-info|members|{ctx}"), format!("get_chain_info() = [{show}] but the chain consists of [{}]", model.shape()), json!({"at": step, "model": model.shape()}));
            } else if got.windows(2).any(|w| w[0].1 < w[1].1) {
                c.violate(format!("chain-info|order|no-tie|{ctx}"), format!("get_chain_info() = [{show}] is not ordered by descending priority"), json!({"at": step, "model": model.shape()}));
            } else {
                let seq_of = |a: Option<usize>| model.entries.iter().find(|e| Some(e.arc) == a).map(|e| (e.seq, e.by_set));
                for i in 0..got.len() {
                    for j in i + 1..got.len() {
                        if got[i].1 == got[j].1 {
                            if let (Some((si, bi)), Some((sj, bj))) = (seq_of(got[i].0), seq_of(got[j].0)) {
                                if !bi && !bj && si > sj {
                                    c.violate(format!("chain-info|order|tie|{ctx}"), format!("get_chain_info() = [{show}]: among archives of equal priority the later added one stands first ({})", model.shape()), json!({"at": step, "model": model.shape()}));
                                }
                            }
                        }
                    }
                }
            }
            for i in &infos {
                if let Some(a) = (0..uni.arcs.len()).find(|a| path_of(*a) == i.path.as_path()) {
                    c.count(&format!("chain_info_format|built=v{}|reported={:?}", uni.arcs[a].version, i.format_version), 1);
                }
            }
        }
    }
}

/// `PatchChain::extract_files` against the single reads made just before on the same chain.
fn check_extract_files(c: &mut Case, chain: &mut PatchChain, single: &[(&str, Option<Vec<u8>>)], ctx: &str, step: &Value) {
    let names: Vec<&str> = single.iter().map(|(n, _)| *n).collect();
    c.count("extract_files_calls", 1);
    match trap(|| chain.extract_files(&names)) {
        Err(p) => c.violate(format!("chain-extract-files|panic|{}|{ctx}", p.func), format!("extract_files panicked: {}", p.msg), json!({"at": step})),
        Ok(slots) => {
            if slots.len() != names.len() {
                c.violate(format!("chain-extract-files|slot-count|{ctx}"), format!("extract_files of {} names returned {} slots", names.len(), slots.len()), json!({"at": step}));
                return;
            }
            for ((want_name, want), (name, got)) in single.iter().zip(slots.iter()) {
                c.count("extract_files_slots_compared", 1);
                if name != want_name {
                    c.violate(format!("chain-extract-files|slot-order|{ctx}"), format!("extract_files: the slot for {want_name:?} carries the name {name:?}"), json!({"at": step}));
                    return;
                }
                match (want, got) {
                    (Some(a), Ok(b)) if a == b => c.count("extract_files_slots_ok_equal", 1),
                    (None, Err(_)) => c.count("extract_files_slots_err_equal", 1),
                    (Some(_), Ok(_)) => c.violate(format!("chain-extract-files|other-bytes-than-read_file|{ctx}"), format!("extract_files: the slot for {name:?} differs from what read_file returns"), json!({"at": step})),
                    (Some(_), Err(e)) => c.violate(format!("chain-extract-files|error-where-read_file-succeeds|{ctx}"), format!("extract_files: the slot for {name:?} is an error ({e}) although read_file succeeds"), json!({"at": step})),
                    (None, Ok(b)) => c.violate(format!("chain-extract-files|bytes-where-read_file-fails|{ctx}"), format!("extract_files: the slot for {name:?} holds {} bytes although read_file fails", b.len()), json!({"at": step})),
                }
            }
        }
    }
}

fn has_dup_add(ops: &[Op]) -> bool {
    let mut m = Model::default();
    for op in ops {
        match op {
            Op::Add(i, p) => {
                if m.has(*i) {
                    return true;
                }
                m.add(*i, *p);
            }
            Op::Remove(i) => {
                m.remove(*i);
            }
            Op::SetPrio(i, p) => {
                m.set_prio(*i, *p);
            }
            Op::Clear => m.entries.clear(),
        }
    }
    false
}

fn run_history(c: &mut Case, uni: &Universe, ops: &[Op], shapes: &mut BTreeSet<String>) {
    if has_dup_add(ops) {
        c.skip("adds an archive that is already in the chain (outside the workload: the statement speaks of a set of archives)");
        c.nontrivial = false;
        return;
    }
    let ctx = format!("ops={}", kinds_set(ops));
    let mut chain = PatchChain::new();
    let mut model = Model::default();
    c.count("histories", 1);
    for (k, op) in ops.iter().enumerate() {
        let step = json!({"step": k, "op": op_json(op)});
        c.count(&format!("op_{}", op_kind(op)), 1);
        match op {
            Op::Add(i, p) => {
                match trap(|| chain.add_archive(&uni.arcs[*i].path, *p)) {
                    Ok(Ok(())) => model.add(*i, *p),
                    Ok(Err(e)) => {
                        c.violate(format!("chain-op|add-archive-failed|{ctx}"), format!("add_archive(A{i},{p}) failed: {e}"), step.clone());
                        return;
                    }
                    Err(pn) => {
                        c.violate(format!("chain-op|panic|{}|{ctx}", pn.func), format!("add_archive panicked: {}", pn.msg), step.clone());
                        return;
                    }
                }
            }
            Op::Remove(i) => {
                let want = model.remove(*i);
                match trap(|| chain.remove_archive(&uni.arcs[*i].path)) {
                    Ok(Ok(b)) if b == want => {}
                    Ok(Ok(b)) => c.violate(format!("chain-op|remove-returned-{b}|{ctx}"), format!("remove_archive(A{i}) returned {b}, model: {want}"), step.clone()),
                    Ok(Err(e)) => c.violate(format!("chain-op|remove-failed|{ctx}"), format!("remove_archive(A{i}) failed: {e}"), step.clone()),
                    Err(pn) => {
                        c.violate(format!("chain-op|panic|{}|{ctx}", pn.func), format!("remove_archive panicked: {}", pn.msg), step.clone());
                        return;
                    }
                }
            }
            Op::SetPrio(i, p) => {
                let present = model.set_prio(*i, *p);
                match trap(|| chain.set_priority(&uni.arcs[*i].path, *p)) {
                    Ok(Ok(())) => {
                        if !present {
                            c.count("set_priority_on_absent_ok", 1);
                        }
                    }
                    Ok(Err(e)) => {
                        if present {
                            c.violate(format!("chain-op|set-priority-failed|{ctx}"), format!("set_priority(A{i},{p}) failed on an archive of the chain: {e}"), step.clone());
                        } else {
                            c.count("set_priority_on_absent_err", 1);
                        }
                    }
                    Err(pn) => {
                        c.violate(format!("chain-op|panic|{}|{ctx}", pn.func), format!("set_priority panicked: {}", pn.msg), step.clone());
                        return;
                    }
                }
            }
            Op::Clear => {
                chain.clear();
                model.entries.clear();
            }
        }
        c.count("operations", 1);
        compare_all(c, &mut chain, &model, uni, &ctx, &step);
    }
    shapes.insert(model.shape());
}

fn permutations(n: usize) -> Vec<Vec<usize>> {
    fn rec(cur: &mut Vec<usize>, used: &mut Vec<bool>, n: usize, out: &mut Vec<Vec<usize>>) {
        if cur.len() == n {
            out.push(cur.clone());
            return;
        }
        for i in 0..n {
            if !used[i] {
                used[i] = true;
                cur.push(i);
                rec(cur, used, n, out);
                cur.pop();
                used[i] = false;
            }
        }
    }
    let mut out = vec![];
    rec(&mut vec![], &mut vec![false; n], n, &mut out);
    out
}

/// Distinct assignments of the multiset {-5,0,0,7} to four archives, plus all-equal.
fn prio_assignments() -> Vec<[i32; 4]> {
    let base = [-5, 0, 0, 7];
    let mut s: BTreeSet<[i32; 4]> = BTreeSet::new();
    for p in permutations(4) {
        s.insert([base[p[0]], base[p[1]], base[p[2]], base[p[3]]]);
    }
    let mut v: Vec<[i32; 4]> = s.into_iter().collect();
    v.push([0, 0, 0, 0]);
    v
}

struct ParStats {
    open_orders: BTreeMap<String, BTreeSet<String>>,
    threads: BTreeMap<String, usize>,
}

/// Build a chain from `inputs` through `api` and compare with the model of sequential adds in input order and
/// with a chain really built by sequential add_archive calls.
fn run_parallel_case(c: &mut Case, uni: &Universe, inputs: &[(usize, i32)], api: &str, prefix: usize, delay_seeds: &[u64], st: &mut ParStats) {
    let mut model = Model::default();
    for (a, p) in inputs {
        model.add(*a, *p);
    }
    let paths: Vec<(PathBuf, i32)> = inputs.iter().map(|(a, p)| (uni.arcs[*a].path.clone(), *p)).collect();
    let mut seq_chain = PatchChain::new();
    for (p, pr) in &paths {
        if let Err(e) = seq_chain.add_archive(p, *pr) {
            c.violate(format!("chain-op|add-archive-failed|api={api}"), format!("add_archive failed: {e}"), json!({}));
            return;
        }
    }
    let ctx = format!("api={api}");
    for (rep, ds) in delay_seeds.iter().enumerate() {
        c.count(&format!("constructions_{api}"), 1);
        let step = json!({"api": api, "rep": rep, "delay_seed": ds, "inputs": inputs.iter().map(|(a, p)| format!("A{a}@{p}")).collect::<Vec<_>>()});
        let built = match api {
            "sequential" => {
                let mut ch = PatchChain::new();
                let mut r = Ok(());
                for (p, pr) in &paths {
                    r = r.and(ch.add_archive(p, *pr));
                }
                r.map(|_| ch)
            }
            "from_archives_parallel" => {
                trace_start(*ds);
                let r = trap(|| PatchChain::from_archives_parallel(paths.clone()));
                let ev = trace_take();
                record_events(st, api, &ev, &paths);
                match r {
                    Ok(r) => r,
                    Err(p) => {
                        c.violate(format!("chain-op|panic|{}|{ctx}", p.func), format!("from_archives_parallel panicked: {}", p.msg), step.clone());
                        return;
                    }
                }
            }
            _ => {
                let mut ch = PatchChain::new();
                let mut r = Ok(());
                for (p, pr) in &paths[..prefix] {
                    r = r.and(ch.add_archive(p, *pr));
                }
                trace_start(*ds);
                let r2 = trap(|| ch.add_archives_parallel(paths[prefix..].to_vec()));
                let ev = trace_take();
                record_events(st, api, &ev, &paths[prefix..]);
                match r2 {
                    Ok(r2) => r.and(r2).map(|_| ch),
                    Err(p) => {
                        c.violate(format!("chain-op|panic|{}|{ctx}", p.func), format!("add_archives_parallel panicked: {}", p.msg), step.clone());
                        return;
                    }
                }
            }
        };
        let mut chain = match built {
            Ok(ch) => ch,
            Err(e) => {
                c.violate(format!("chain-op|construction-failed|{ctx}"), format!("{api} failed on existing archives: {e}"), step.clone());
                return;
            }
        };
        compare_all(c, &mut chain, &model, uni, &ctx, &step);
        // the same observable map as sequential adds in input order
        for (key, sps) in &uni.keys {
            let sp = &sps[0];
            c.count("parallel_vs_sequential_compared", 1);
            let a = seq_chain.read_file(sp).ok();
            let b = chain.read_file(sp).ok();
            let fa = seq_chain.find_file_archive(sp).map(|p| p.to_path_buf());
            let fb = chain.find_file_archive(sp).map(|p| p.to_path_buf());
            if a != b || fa != fb {
                c.violate(format!("chain-parallel-ne-sequential|{api}"), format!("{api}: {key:?} resolves to {:?}, sequential add_archive in input order resolves to {:?}", fb, fa), step.clone());
            }
        }
    }
}

/// A load in which one input cannot be opened. The statement fixes what lookups return for the archives *in* the chain;
/// which of a failed batch's archives are in the chain afterwards is taken from the chain's own answer
/// (`get_priority` per path) — atomic or partial, both are accepted — and every observable must then agree with it.
#[allow(clippy::too_many_arguments)]
fn run_failed_load_case(c: &mut Case, uni: &Universe, perm: &[usize], asg: &[i32; 4], api: &str, prefix: usize, pos: usize, bkind: &str, bpath: &Path) {
    let ctx = format!("api={api}|failed-load");
    let inputs: Vec<(usize, i32)> = perm.iter().map(|a| (*a, asg[*a])).collect();
    let mut chain = PatchChain::new();
    let mut model = Model::default();
    for (a, p) in &inputs[..prefix] {
        if chain.add_archive(&uni.arcs[*a].path, *p).is_err() {
            c.violate(format!("chain-op|add-archive-failed|{ctx}"), "add_archive failed on an existing archive".to_string(), json!({}));
            return;
        }
        model.add(*a, *p);
    }
    let rest = &inputs[prefix..];
    let mut batch: Vec<(PathBuf, i32, Option<usize>)> = rest.iter().map(|(a, p)| (uni.arcs[*a].path.clone(), *p, Some(*a))).collect();
    let at = pos.min(batch.len());
    batch.insert(at, (bpath.to_path_buf(), 3, None));
    let step = json!({"api": api, "bad": bkind, "batch": batch.iter().map(|(p, pr, _)| format!("{}@{pr}", p.file_name().map(|n| n.to_string_lossy().to_string()).unwrap_or_default())).collect::<Vec<_>>()});
    c.count(&format!("failed_loads|{api}|{bkind}"), 1);
    match api {
        "from_archives_parallel" => {
            let all: Vec<(PathBuf, i32)> = inputs[..prefix].iter().map(|(a, p)| (uni.arcs[*a].path.clone(), *p)).chain(batch.iter().map(|(p, pr, _)| (p.clone(), *pr))).collect();
            match trap(|| PatchChain::from_archives_parallel(all)) {
                Err(p) => c.violate(format!("chain-op|panic|{}|{ctx}", p.func), format!("from_archives_parallel panicked on an unopenable input: {}", p.msg), step.clone()),
                Ok(Err(_)) => c.count("failed_load_reported", 1),
                Ok(Ok(mut ch)) => {
                    // the statement does not forbid skipping what cannot be opened; the chain must then behave as the chain of the rest
                    c.count("failed_load_accepted", 1);
                    let mut m2 = Model::default();
                    for (a, p) in &inputs {
                        if ch.get_priority(&uni.arcs[*a].path).is_some() {
                            m2.add(*a, *p);
                        }
                    }
                    compare_all(c, &mut ch, &m2, uni, &ctx, &step);
                }
            }
            return;
        }
        "add_archives_parallel" => {
            let r = trap(|| chain.add_archives_parallel(batch.iter().map(|(p, pr, _)| (p.clone(), *pr)).collect::<Vec<_>>()));
            match r {
                Err(p) => {
                    c.violate(format!("chain-op|panic|{}|{ctx}", p.func), format!("add_archives_parallel panicked on an unopenable input: {}", p.msg), step.clone());
                    return;
                }
                Ok(Err(_)) => c.count("failed_load_reported", 1),
                Ok(Ok(())) => c.count("failed_load_accepted", 1),
            }
        }
        _ => {
            for (p, pr, _) in &batch {
                match trap(|| chain.add_archive(p, *pr)) {
                    Err(pn) => {
                        c.violate(format!("chain-op|panic|{}|{ctx}", pn.func), format!("add_archive panicked on an unopenable input: {}", pn.msg), step.clone());
                        return;
                    }
                    Ok(Err(_)) => c.count("failed_load_reported", 1),
                    Ok(Ok(())) => {}
                }
            }
        }
    }
    // membership as the chain reports it, in input order
    for (_, pr, a) in &batch {
        if let Some(a) = a {
            if chain.get_priority(&uni.arcs[*a].path).is_some() {
                model.add(*a, *pr);
            }
        }
    }
    c.count("failed_load_members_after", model.entries.len() as u64);
    compare_all(c, &mut chain, &model, uni, &ctx, &json!({"after": "failed load", "load": step}));
    if !c.viol.is_empty() {
        return;
    }
    // the chain stays usable: the remaining archives one by one, then a removal
    for (a, p) in &inputs {
        if !model.has(*a) {
            match trap(|| chain.add_archive(&uni.arcs[*a].path, *p)) {
                Ok(Ok(())) => model.add(*a, *p),
                Ok(Err(e)) => {
                    c.violate(format!("chain-op|add-archive-failed|{ctx}"), format!("add_archive(A{a}) failed after a failed load: {e}"), step.clone());
                    return;
                }
                Err(pn) => {
                    c.violate(format!("chain-op|panic|{}|{ctx}", pn.func), format!("add_archive panicked after a failed load: {}", pn.msg), step.clone());
                    return;
                }
            }
            compare_all(c, &mut chain, &model, uni, &ctx, &json!({"after": format!("add(A{a}) following the failed load"), "load": step}));
        }
    }
    let victim = inputs[0].0;
    let want = model.remove(victim);
    match trap(|| chain.remove_archive(&uni.arcs[victim].path)) {
        Ok(Ok(b)) if b == want => compare_all(c, &mut chain, &model, uni, &ctx, &json!({"after": format!("remove(A{victim}) following the failed load"), "load": step})),
        other => c.violate(format!("chain-op|remove-after-failed-load|{ctx}"), format!("remove_archive(A{victim}) after a failed load: {:?}", other.map(|r| r.map_err(|e| e.to_string())).map_err(|p| p.msg)), step.clone()),
    }
}

/// Archives whose file disappears (or is replaced on disk) while the chain holds them open: the chain consists of the archives
/// that were added; operations that need nothing from the file system (re-prioritising, removing another archive, lookups)
/// go on answering from them.
fn run_unlinked_case(c: &mut Case, uni: &Universe, dir: &Path, idx: u64, perm: &[usize], asg: &[i32; 4], victim: usize, how: &str, newprio: i32) {
    let ctx = format!("ops=set_priority|file-{how}-while-open");
    let mut arcs = Vec::new();
    for (a, spec) in uni.arcs.iter().enumerate() {
        let pth = dir.join(format!("u{idx}-{a}.mpq"));
        if std::fs::copy(&spec.path, &pth).is_err() {
            c.inconclusive("could not copy a fixture archive");
            return;
        }
        arcs.push(ArcSpec { path: pth, files: spec.files.clone(), version: spec.version, encrypted: spec.encrypted.clone() });
    }
    let u2 = Universe { arcs, keys: uni.keys.clone(), absent: uni.absent.clone(), tag: uni.tag.clone() };
    let mut chain = PatchChain::new();
    let mut model = Model::default();
    for a in perm {
        if chain.add_archive(&u2.arcs[*a].path, asg[*a]).is_err() {
            c.violate(format!("chain-op|add-archive-failed|{ctx}"), "add_archive failed on an existing archive".to_string(), json!({}));
            return;
        }
        model.add(*a, asg[*a]);
    }
    compare_all(c, &mut chain, &model, &u2, &ctx, &json!({"step": "all added"}));
    // the file goes away (Unix: the open handle keeps the data) or another archive is renamed over it
    let vp = u2.arcs[victim].path.clone();
    let ok = match how {
        "unlinked" => std::fs::remove_file(&vp).is_ok(),
        _ => {
            let other = dir.join(format!("u{idx}-replacement.mpq"));
            std::fs::copy(&uni.arcs[(victim + 1) % uni.arcs.len()].path, &other).is_ok() && std::fs::rename(&other, &vp).is_ok()
        }
    };
    if !ok {
        c.inconclusive("could not unlink / replace the archive file");
        return;
    }
    c.count(&format!("files_{how}_while_open"), 1);
    let step = json!({"victim": format!("A{victim}"), "how": how, "new_priority": newprio});
    match trap(|| chain.set_priority(&vp, newprio)) {
        Ok(Ok(())) => {
            model.set_prio(victim, newprio);
        }
        Ok(Err(e)) => {
            c.violate(format!("chain-op|set-priority-failed|{ctx}"), format!("set_priority(A{victim},{newprio}) failed on an archive of the chain whose file was {how} after it had been added: {e}"), step.clone());
        }
        Err(p) => {
            c.violate(format!("chain-op|panic|{}|{ctx}", p.func), format!("set_priority panicked: {}", p.msg), step.clone());
            return;
        }
    }
    compare_all(c, &mut chain, &model, &u2, &ctx, &step);
    let other = (victim + 2) % u2.arcs.len();
    if let Ok(Ok(())) = trap(|| chain.set_priority(&u2.arcs[other].path, -newprio)) {
        model.set_prio(other, -newprio);
        compare_all(c, &mut chain, &model, &u2, &ctx, &json!({"after": format!("set_priority(A{other})"), "first": step}));
    }
    let third = (victim + 1) % u2.arcs.len();
    let want = model.remove(third);
    match trap(|| chain.remove_archive(&u2.arcs[third].path)) {
        Ok(Ok(b)) if b == want => compare_all(c, &mut chain, &model, &u2, &ctx, &json!({"after": format!("remove(A{third})"), "first": step})),
        other => c.violate(format!("chain-op|remove-after-{how}|{ctx}"), format!("remove_archive(A{third}): {:?}", other.map(|r| r.map_err(|e| e.to_string())).map_err(|p| p.msg)), step.clone()),
    }
    for a in &u2.arcs {
        let _ = std::fs::remove_file(&a.path);
    }
}

fn record_events(st: &mut ParStats, api: &str, ev: &[wow_mpq::verif_hooks::TaskEvent], inputs: &[(PathBuf, i32)]) {
    let opens: Vec<&wow_mpq::verif_hooks::TaskEvent> = ev.iter().filter(|e| e.kind == "open").collect();
    if opens.is_empty() {
        return;
    }
    // open order expressed in input positions (which input was opened 1st, 2nd, ...); for long inputs the first 8
    let order: Vec<String> = opens.iter().take(8).map(|e| inputs.iter().position(|(p, _)| p.to_string_lossy() == e.label.as_str()).map(|i| i.to_string()).unwrap_or("?".into())).collect();
    st.open_orders.entry(api.to_string()).or_default().insert(order.join(">"));
    let th: BTreeSet<u64> = opens.iter().map(|e| e.thread).collect();
    let m = st.threads.entry(api.to_string()).or_insert(0);
    *m = (*m).max(th.len());
}

const H3_END: u64 = 29 + 29 * 29 + 29 * 29 * 29;

fn history_from_index(idx: u64) -> Vec<Op> {
    let a = ALPHABET as u64;
    let (len, mut k) = if idx < a { (1, idx) } else if idx < a + a * a { (2, idx - a) } else { (3, idx - a - a * a) };
    let mut v = vec![];
    for _ in 0..len {
        v.push(op_from_letter((k % a) as usize));
        k /= a;
    }
    v.reverse();
    v
}

/// A random history that never adds an archive already in the chain.
fn random_history(rng: &mut Rng, len: usize) -> Vec<Op> {
    let mut m = Model::default();
    let mut v = vec![];
    while v.len() < len {
        let op = op_from_letter(rng.usize(ALPHABET));
        match &op {
            Op::Add(i, p) => {
                if m.has(*i) {
                    continue;
                }
                m.add(*i, *p);
            }
            Op::Remove(i) => {
                m.remove(*i);
            }
            Op::SetPrio(i, p) => {
                m.set_prio(*i, *p);
            }
            Op::Clear => {
                if rng.chance(3, 4) {
                    continue; // keep chains populated most of the time
                }
                m.entries.clear();
            }
        }
        v.push(op);
    }
    v
}

fn mode_chain(run: &mut Run) {
    let thorough = run.args.thorough();
    let dir = PathBuf::from(&run.args.scratch);
    let mut unis: Vec<Universe> = vec![];
    for k in 0..UNIVERSES.len() {
        match four_archives(&dir, k) {
            Ok(u) => unis.push(u),
            Err(e) => {
                eprintln!("c08: cannot build the archive universe {k}: {e}");
                std::process::exit(2);
            }
        }
    }
    let mut shapes: BTreeSet<String> = BTreeSet::new();
    // ---- all histories of length <= 3
    for idx in 0..H3_END {
        if !run.want(idx) {
            continue;
        }
        let ops = history_from_index(idx);
        let uni = &unis[universe_of(idx)];
        let class = format!("H|{}|{}", ops.iter().map(op_kind).collect::<Vec<_>>().join(","), uni.tag);
        let desc = json!({"history": ops.iter().map(op_json).collect::<Vec<_>>(), "archives": uni.tag});
        run.case(idx, &class, desc, |c| run_history(c, uni, &ops, &mut shapes));
    }
    // ---- insertion orders x priority assignments x construction api
    let perms = permutations(4);
    let assigns = prio_assignments();
    let apis = ["sequential", "from_archives_parallel", "add_archives_parallel"];
    let mut st = ParStats { open_orders: BTreeMap::new(), threads: BTreeMap::new() };
    let mut idx = H3_END;
    for (pi, perm) in perms.iter().enumerate() {
        for (ai, asg) in assigns.iter().enumerate() {
            for api in apis {
                if run.want(idx) {
                    let inputs: Vec<(usize, i32)> = perm.iter().map(|a| (*a, asg[*a])).collect();
                    let prefix = (pi + ai) % 3;
                    let seeds = [0u64, 1 + idx * 3 + run.args.seed * 1000, 2 + idx * 7 + run.args.seed * 1000];
                    let uni = &unis[universe_of(idx)];
                    let class = format!("P|{api}|order={}|prio={:?}|{}", perm.iter().map(|x| x.to_string()).collect::<String>(), asg, uni.tag);
                    let desc = json!({"api": api, "inputs": inputs.iter().map(|(a, p)| format!("A{a}@{p}")).collect::<Vec<_>>(), "sequential_prefix": if api == "add_archives_parallel" { prefix } else { 0 }, "archives": uni.tag});
                    run.case(idx, &class, desc, |c| run_parallel_case(c, uni, &inputs, api, prefix, if api == "sequential" { &seeds[..1] } else { &seeds[..] }, &mut st));
                }
                idx += 1;
            }
        }
    }
    // ---- many tied archives loaded in parallel (a stable order among equals is needed beyond what four archives can show)
    let mt_cases = 12u64;
    if (idx..idx + mt_cases).any(|i| run.want(i)) {
        let n = 48;
        match many_tied_archives(&dir, n) {
            Err(e) => {
                eprintln!("c08: {e}");
                std::process::exit(2);
            }
            Ok(uni2) => {
                for k in 0..mt_cases {
                    let i = idx + k;
                    if !run.want(i) {
                        continue;
                    }
                    let mut rng = run.rng(i, 0);
                    let api = if k % 2 == 0 { "from_archives_parallel" } else { "add_archives_parallel" };
                    let pat = k / 2 % 3;
                    let mut order: Vec<usize> = (0..n).collect();
                    rng.shuffle(&mut order);
                    let inputs: Vec<(usize, i32)> = order.iter().enumerate().map(|(pos, a)| (*a, match pat {
                        0 => 0,
                        1 => [0, 0, 0, 7, 0, -5][pos % 6],
                        _ => [7, 7, 0][pos % 3],
                    })).collect();
                    let prefix = if k >= 6 { 5 } else { 0 };
                    let class = format!("T|{api}|n={n}|pattern={pat}|prefix={prefix}");
                    let desc = json!({"api": api, "archives": n, "priority_pattern": pat, "order_head": &order[..8], "sequential_prefix": prefix});
                    let seeds = [0u64, 11 + i + run.args.seed * 1000];
                    run.case(i, &class, desc, |c| run_parallel_case(c, &uni2, &inputs, api, prefix, &seeds, &mut st));
                }
            }
        }
    }
    idx += mt_cases;
    // ---- sampled length-4 histories and random length-12 histories (quick: 12 000 + 100; thorough: 60 000 + 500)
    let (n4, n12) = if thorough { (60_000u64, 500u64) } else { (12_000u64, 100u64) };
    {
        for k in 0..n4 {
            let i = idx + k;
            if !run.want(i) {
                continue;
            }
            let mut rng = run.rng(i, 0);
            let mut ops: Vec<Op> = (0..4).map(|_| op_from_letter(rng.usize(ALPHABET))).collect();
            let mut tries = 0;
            while has_dup_add(&ops) && tries < 20 {
                ops = (0..4).map(|_| op_from_letter(rng.usize(ALPHABET))).collect();
                tries += 1;
            }
            let uni = &unis[universe_of(i)];
            let class = format!("H|{}|{}", ops.iter().map(op_kind).collect::<Vec<_>>().join(","), uni.tag);
            let desc = json!({"history": ops.iter().map(op_json).collect::<Vec<_>>(), "archives": uni.tag});
            run.case(i, &class, desc, |c| run_history(c, uni, &ops, &mut shapes));
        }
        idx += 60_000;
        for k in 0..n12 {
            let i = idx + k;
            if !run.want(i) {
                continue;
            }
            let mut rng = run.rng(i, 0);
            let ops = random_history(&mut rng, 12);
            let uni = &unis[universe_of(i)];
            let class = format!("H12|{}|{}", ops.iter().map(|o| &op_kind(o)[..1]).collect::<String>(), uni.tag);
            let desc = json!({"history": ops.iter().map(op_json).collect::<Vec<_>>(), "archives": uni.tag});
            run.case(i, &class, desc, |c| run_history(c, uni, &ops, &mut shapes));
        }
    }
    idx += 500;
    // ---- loads that fail: an archive that cannot be opened among the inputs (sequential add, parallel batch, parallel construction)
    {
        let bad_missing = dir.join("no-such-archive.mpq");
        let bad_garbage = dir.join("garbage.mpq");
        let _ = std::fs::write(&bad_garbage, b"this is not an MPQ archive, only some text that is longer than a header would be ................................");
        let bad_dir = dir.join("a-directory.mpq");
        let _ = std::fs::create_dir_all(&bad_dir);
        let bads = [("missing", bad_missing), ("garbage", bad_garbage), ("directory", bad_dir)];
        let apis = ["add_archive", "add_archives_parallel", "from_archives_parallel"];
        let mut k = 0u64;
        for (pi, perm) in perms.iter().enumerate() {
            for api in apis {
                for (bi, (bkind, bpath)) in bads.iter().enumerate() {
                    for pos in 0..3usize {
                        let i = idx + k;
                        k += 1;
                        // quick: a third of the product, chosen by index; thorough: all of it
                        if !run.want(i) || (!thorough && (pi + bi + pos) % 3 != 0) {
                            continue;
                        }
                        let asg = assigns[(pi * 7 + bi * 3 + pos) % assigns.len()];
                        let prefix = (pi + pos) % 3;
                        let uni = &unis[universe_of(i)];
                        let class = format!("F|{api}|bad={bkind}|pos={pos}|prefix={prefix}|order={}|{}", perm.iter().map(|x| x.to_string()).collect::<String>(), uni.tag);
                        let desc = json!({"api": api, "bad_input": bkind, "bad_position_in_batch": pos, "sequential_prefix": prefix, "order": perm, "priorities": asg, "archives": uni.tag});
                        run.case(i, &class, desc, |c| run_failed_load_case(c, uni, perm, &asg, api, prefix, pos, bkind, bpath));
                    }
                }
            }
        }
    }
    // ---- archives whose file is unlinked / replaced on disk while the chain holds them
    idx += 4000;
    {
        let mut k = 0u64;
        for (pi, perm) in perms.iter().enumerate() {
            for victim in 0..4usize {
                for how in ["unlinked", "replaced"] {
                    let i = idx + k;
                    k += 1;
                    if !run.want(i) || (!thorough && (pi + victim) % 4 != 0) {
                        continue;
                    }
                    let asg = assigns[(pi * 5 + victim) % assigns.len()];
                    let newprio = PRIOS[(pi + victim) % 3];
                    let uni = &unis[universe_of(i)];
                    let class = format!("U|{how}|victim={victim}|order={}|newprio={newprio}|{}", perm.iter().map(|x| x.to_string()).collect::<String>(), uni.tag);
                    let desc = json!({"what": format!("archive file {how} after add_archive, then set_priority / remove_archive of others"), "victim": victim, "order": perm, "priorities": asg, "new_priority": newprio, "archives": uni.tag});
                    run.case(i, &class, desc, |c| run_unlinked_case(c, uni, &dir, i, perm, &asg, victim, how, newprio));
                }
            }
        }
    }
    run.extra("final_chain_shapes", json!(shapes.into_iter().collect::<Vec<_>>()));
    for (api, s) in &st.open_orders {
        run.extra(&format!("parallel_open_orders|{api}"), json!(s.iter().cloned().collect::<Vec<_>>()));
    }
    for (api, n) in &st.threads {
        run.extra(&format!("parallel_max_threads_in_one_call|{api}"), json!(*n));
    }
}

// ===================================================================== part B: patches

fn jstr<'a>(v: &'a Value, k: &str) -> &'a str {
    v[k].as_str().unwrap_or("")
}

fn seek_trait(m: &Value) -> &'static str {
    if m["traits"]["neg_nonzero"].as_bool().unwrap_or(false) { "neg-seek-to-nonzero" } else { "no-such-seek" }
}

/// Panic site for signatures: the in-repo source file (function names change with inlining decisions).
fn site(func: &str) -> &str {
    func.split(':').next().unwrap_or(func)
}

fn parse_and_apply(p: &[u8], base: &[u8]) -> wow_mpq::Result<Vec<u8>> {
    let pf = PatchFile::parse(p)?;
    apply_patch(&pf, base)
}

/// One corrupted (patch, base) input through the direct API. Oracle: Err, or Ok(bytes) with MD5 == md5_after as stored.
fn run_corrupt(c: &mut Case, ptype: &str, region: &str, p: &[u8], base: &[u8]) {
    c.count("corrupted_inputs", 1);
    alloc::reset();
    let r = trap(|| parse_and_apply(p, base));
    let snap = alloc::snapshot();
    if snap.max_req >= BIG_REQUEST {
        c.violate(format!("patch-huge-alloc|{ptype}|{region}"), format!("a single heap request of {} bytes while applying a {}-byte patch to a {}-byte base (corrupted: {region})", snap.max_req, p.len(), base.len()),
                  json!({"region": region, "max_request": snap.max_req, "patch_head": hex(&p[..p.len().min(80)])}));
    }
    match r {
        Err(pn) => {
            c.count(&format!("corrupted_panicked|{region}"), 1);
            c.violate(format!("patch-panic|{ptype}|{region}|{}", site(&pn.func)), format!("apply of a corrupted patch panicked: {} ({}, in {})", pn.msg, pn.file, pn.func), json!({"region": region, "patch": hex(p), "base": brief(base)}));
        }
        Ok(Err(_)) => c.count(&format!("corrupted_and_detected|{region}"), 1),
        Ok(Ok(bytes)) => {
            let declared: Option<&[u8]> = if p.len() >= 56 { Some(&p[40..56]) } else { None };
            if declared == Some(&md5_of(&bytes)[..]) {
                c.count(&format!("corrupted_but_result_verified|{region}"), 1);
            } else {
                c.violate(format!("patch-unverified-bytes|{ptype}|{region}"), format!("apply returned Ok with {} bytes whose MD5 is not the md5_after the patch declares (corrupted: {region})", bytes.len()),
                          json!({"region": region, "patch": hex(p), "base": hex(base), "got": brief(&bytes)}));
            }
        }
    }
}

fn direct_case(c: &mut Case, m: &Value, idx: u64) {
    let ptype = jstr(m, "type").to_string();
    let base = unhex(jstr(m, "base"));
    let ptch = unhex(jstr(m, "ptch"));
    let expect = unhex(jstr(m, "expect"));
    // the worker's MD5 agrees with the corpus generator's (hashlib) on this input
    if ptch.len() < 68 || md5_of(&expect)[..] != ptch[40..56] || md5_of(&base)[..] != ptch[24..40] {
        c.inconclusive("manifest digest does not match the worker's MD5");
        return;
    }
    // ---- well-formed
    c.count(&format!("wellformed_patches|{ptype}"), 1);
    alloc::reset();
    let tr = seek_trait(m);
    match trap(|| parse_and_apply(&ptch, &base)) {
        Err(pn) => c.violate(format!("patch-panic|{ptype}|wellformed|{}", site(&pn.func)), format!("apply of a well-formed patch panicked: {}", pn.msg), json!({"patch": hex(&ptch), "base": hex(&base)})),
        Ok(Err(e)) => {
            c.count(&format!("wellformed_rejected|{ptype}|{tr}"), 1);
            c.violate(format!("patch-wellformed-rejected|{ptype}|{tr}"), format!("a well-formed {ptype} patch ({} -> {} bytes, reference apply succeeds) is rejected: {e}", base.len(), expect.len()),
                      json!({"traits": m["traits"], "patch": hex(&ptch), "base": hex(&base), "expect": brief(&expect)}));
        }
        Ok(Ok(bytes)) => {
            if bytes == expect {
                c.count(&format!("wellformed_applied|{ptype}|{tr}"), 1);
            } else {
                c.violate(format!("patch-unverified-bytes|{ptype}|wellformed|{tr}"), format!("apply returned Ok with bytes that differ from the reference result at offset {}", first_diff(&bytes, &expect)),
                          json!({"traits": m["traits"], "patch": hex(&ptch), "base": hex(&base)}));
            }
        }
    }
    if alloc::snapshot().max_req >= BIG_REQUEST {
        c.violate(format!("patch-huge-alloc|{ptype}|wellformed"), "a well-formed small patch caused a heap request >= 256 MiB", json!({}));
    }
    // ---- every header field altered
    for mu in m["muts"].as_array().map(|v| v.as_slice()).unwrap_or(&[]) {
        let o = mu["o"].as_u64().unwrap_or(0) as usize;
        let b = unhex(jstr(mu, "b"));
        if o + b.len() > ptch.len() {
            continue;
        }
        let mut q = ptch.clone();
        q[o..o + b.len()].copy_from_slice(&b);
        if q == ptch {
            continue;
        }
        c.count("header_field_variants", 1);
        run_corrupt(c, &ptype, jstr(mu, "r"), &q, &base);
    }
    // ---- payload bytes altered (every step-th byte, phase by case so that all residues are visited across cases)
    let step = m["payload_step"].as_u64().unwrap_or(16).max(1) as usize;
    let pats: Vec<u8> = m["payload_patterns"].as_array().map(|v| v.iter().map(|x| x.as_u64().unwrap_or(1) as u8).collect()).unwrap_or(vec![1]);
    let mut off = 68 + (idx as usize % step);
    let mut q = ptch.clone();
    while off < ptch.len() {
        for pat in &pats {
            q[off] = ptch[off] ^ pat;
            c.count("payload_byte_variants", 1);
            run_corrupt(c, &ptype, "payload", &q, &base);
        }
        q[off] = ptch[off];
        off += step;
    }
    // ---- bsdiff-level variants (re-encoded by the generator)
    for bl in m["blobs"].as_array().map(|v| v.as_slice()).unwrap_or(&[]) {
        let q = unhex(jstr(bl, "p"));
        c.count("bsdiff_level_variants", 1);
        run_corrupt(c, &ptype, jstr(bl, "r"), &q, &base);
    }
    // ---- truncations / trailing junk
    for t in m["truncs"].as_array().map(|v| v.as_slice()).unwrap_or(&[]) {
        let n = (t.as_u64().unwrap_or(0) as usize).min(ptch.len());
        c.count("truncation_variants", 1);
        run_corrupt(c, &ptype, if n < 68 { "truncate.header" } else { "truncate.payload" }, &ptch[..n], &base);
    }
    for e in m["extend"].as_array().map(|v| v.as_slice()).unwrap_or(&[]) {
        let mut q = ptch.clone();
        q.extend_from_slice(&unhex(e.as_str().unwrap_or("00")));
        c.count("extension_variants", 1);
        run_corrupt(c, &ptype, "trailing-bytes", &q, &base);
    }
    // ---- altered base files under the well-formed patch
    for bv in m["bases"].as_array().map(|v| v.as_slice()).unwrap_or(&[]) {
        let mut b2 = base.clone();
        if let Some(o) = bv["o"].as_u64() {
            let nb = unhex(jstr(bv, "b"));
            let o = o as usize;
            if o + nb.len() <= b2.len() {
                b2[o..o + nb.len()].copy_from_slice(&nb);
            }
        } else if let Some(l) = bv["len"].as_u64() {
            b2.truncate(l as usize);
        } else if let Some(a) = bv["append"].as_str() {
            b2.extend_from_slice(&unhex(a));
        }
        if b2 == base {
            continue;
        }
        c.count("base_variants", 1);
        run_corrupt(c, &ptype, jstr(bv, "r"), &ptch, &b2);
    }
    for ob in m["other_bases"].as_array().map(|v| v.as_slice()).unwrap_or(&[]) {
        let b2 = unhex(jstr(ob, "d"));
        c.count("base_variants", 1);
        run_corrupt(c, &ptype, jstr(ob, "r"), &ptch, &b2);
    }
}

fn isolated_case(c: &mut Case, m: &Value) {
    let ptype = jstr(m, "type").to_string();
    let base = unhex(jstr(m, "base"));
    let mut q = unhex(jstr(m, "ptch"));
    let mu = &m["mut"];
    let o = mu["o"].as_u64().unwrap_or(0) as usize;
    let b = unhex(jstr(mu, "b"));
    if o + b.len() <= q.len() {
        q[o..o + b.len()].copy_from_slice(&b);
    }
    c.count("isolated_huge_size_variants", 1);
    run_corrupt(c, &ptype, jstr(mu, "r"), &q, &base);
}

/// Archives with patch entries come and go between reads; the expectation of every step is computed by the corpus
/// generator from the statement (lib/props/c08.py: hist_expect).
fn history_case(c: &mut Case, m: &Value) {
    let name = jstr(m, "name").to_string();
    let arcs: Vec<(PathBuf, i32, String)> = m["archives"].as_array().map(|v| v.iter().map(|a| (PathBuf::from(jstr(a, "path")), a["prio"].as_i64().unwrap_or(0) as i32, jstr(a, "role").to_string())).collect()).unwrap_or_default();
    let mut chain = PatchChain::new();
    let mut seen: Vec<Vec<u8>> = Vec::new();
    let mut prev_op = "start".to_string();
    c.count("patch_histories", 1);
    for (k, st) in m["steps"].as_array().map(|v| v.as_slice()).unwrap_or(&[]).iter().enumerate() {
        let ai = st["arc"].as_u64().unwrap_or(0) as usize;
        let Some((path, prio, role)) = arcs.get(ai) else { continue };
        let op = jstr(st, "op");
        let detail = json!({"step": k, "op": op, "archive": role, "steps": m["steps"], "archives": m["archives"], "name": name});
        let r = trap(|| -> wow_mpq::Result<()> {
            if op == "add" { chain.add_archive(path, *prio) } else { chain.remove_archive(path).map(|_| ()) }
        });
        match r {
            Ok(Ok(())) => {}
            Ok(Err(e)) => {
                c.violate(format!("chain-history|op-failed|{op}"), format!("{op}({role}) failed on a reference-written archive: {e}"), detail);
                return;
            }
            Err(p) => {
                c.violate(format!("chain-history|op-panic|{}", site(&p.func)), format!("{op}({role}) panicked: {}", p.msg), detail);
                return;
            }
        }
        c.count(&format!("patch_history_op|{op}"), 1);
        let kind = jstr(st, "kind");
        let winner = jstr(st, "winner");
        let expect = st["expect"].as_str().map(unhex);
        for sp in m["lookups"].as_array().map(|v| v.as_slice()).unwrap_or(&[]) {
            let sp = sp.as_str().unwrap_or("");
            c.count("patch_history_reads", 1);
            let r = match trap(|| chain.read_file(sp)) {
                Ok(r) => r,
                Err(p) => {
                    c.violate(format!("patch-panic|chain-history|{}|{}", jstr(m, "sigtag"), site(&p.func)), format!("read_file through the chain panicked: {}", p.msg), detail.clone());
                    continue;
                }
            };
            let ctx = format!("after={op}|prev={prev_op}|winner={winner}");
            match (kind, r) {
                ("absent", Ok(b)) => {
                    let stale = seen.contains(&b);
                    c.violate(format!("chain-history|found-but-in-no-archive|{}|{ctx}", if stale { "earlier-result" } else { "other-bytes" }), format!("step {k}: read_file({sp:?}) returned {} bytes although no archive of the chain holds the name", b.len()), detail.clone());
                }
                ("absent", Err(_)) => c.count("patch_history_absent_ok", 1),
                (_, Ok(b)) if Some(&b) == expect.as_ref() => {
                    c.count(&format!("patch_history_equal|{winner}"), 1);
                }
                (_, Ok(b)) => {
                    let stale = seen.contains(&b);
                    c.violate(format!("chain-history|wrong-bytes|{}|{ctx}", if stale { "earlier-result" } else { "other-bytes" }),
                              format!("step {k} ({op} {role}): read_file({sp:?}) returned {} bytes, differing from the version the chain now defines at offset {}{}", b.len(), first_diff(&b, expect.as_deref().unwrap_or(&[])), if stale { " — they equal the result of an earlier step" } else { "" }),
                              detail.clone());
                }
                ("equal", Err(e)) => c.violate(format!("chain-history|error-for-present|{ctx}"), format!("step {k} ({op} {role}): read_file({sp:?}) failed although the chain holds everything the winner needs: {e}"), detail.clone()),
                (_, Err(_)) => c.count("patch_history_gap_rejected", 1),
            }
        }
        if let Some(e) = &expect {
            if kind == "equal" && !seen.contains(e) {
                seen.push(e.clone());
            }
        }
        // the batch entry point, slot by slot what read_file gives on the chain as it is now
        {
            let mut names: Vec<&str> = m["lookups"].as_array().map(|v| v.iter().filter_map(|x| x.as_str()).collect()).unwrap_or_default();
            let on = jstr(m, "other_name");
            if !on.is_empty() {
                names.push(on);
            }
            let mut single: Vec<(&str, Option<Vec<u8>>)> = Vec::new();
            let mut panicked = false;
            for n in &names {
                match trap(|| chain.read_file(n)) {
                    Ok(r) => single.push((n, r.ok())),
                    Err(_) => panicked = true,
                }
            }
            if !panicked {
                check_extract_files(c, &mut chain, &single, &format!("patch-history|after={op}"), &detail);
            }
        }
        // contains / find_file_archive agree with the membership
        c.count("patch_history_contains", 1);
        if chain.contains_file(&name) == (kind == "absent") {
            c.violate(format!("chain-history|contains|{}", if kind == "absent" { "true-for-absent" } else { "false-for-present" }), format!("step {k}: contains_file({name:?}) = {}", kind == "absent"), detail.clone());
        }
        // a regular file next to the patch entries follows the same membership
        let on = jstr(m, "other_name");
        if !on.is_empty() {
            c.count("patch_history_regular_reads", 1);
            let want = st["other_expect"].as_str().map(unhex);
            let got = trap(|| chain.read_file(on)).ok().and_then(|r| r.ok());
            if got != want {
                c.violate(format!("chain-history|regular-file|{}|after={op}", if want.is_none() { "found-but-in-no-archive" } else if got.is_none() { "not-found" } else { "wrong-winner" }),
                          format!("step {k}: read_file({on:?}) = {:?} bytes, expected {:?}", got.as_ref().map(|b| b.len()), want.as_ref().map(|b| b.len())), detail.clone());
            }
        }
        prev_op = op.to_string();
    }
}

fn chain_case(c: &mut Case, m: &Value) {
    if jstr(m, "variant") == "history" {
        return history_case(c, m);
    }
    let name = jstr(m, "name").to_string();
    let variant = jstr(m, "variant").to_string();
    let api = jstr(m, "api").to_string();
    let mut arcs: Vec<(PathBuf, i32)> = m["archives"].as_array().map(|v| v.iter().map(|a| (PathBuf::from(jstr(a, "path")), a["prio"].as_i64().unwrap_or(0) as i32)).collect()).unwrap_or_default();
    // a base archive the library builds itself (encrypted base entry; format version axis): written next to the group's
    // other archives under a name of this case's own
    if m["lib_base"].is_object() && !arcs.is_empty() {
        let lb = &m["lib_base"];
        let version = lb["version"].as_u64().unwrap_or(1) as u8;
        let path = PathBuf::from(format!("{}.case{}", arcs[0].0.display(), m["idx"].as_u64().unwrap_or(0)));
        let mut b = ArchiveBuilder::new().listfile_option(ListfileOption::Generate);
        if version != 1 {
            b = b.version(format_version(version));
        }
        for f in lb["files"].as_array().map(|v| v.as_slice()).unwrap_or(&[]) {
            let data = unhex(jstr(f, "data"));
            b = if f["encrypt"].as_bool().unwrap_or(false) {
                b.add_file_data_with_encryption(data, jstr(f, "name"), if f["zlib"].as_bool().unwrap_or(false) { 0x02 } else { 0 }, f["fix_key"].as_bool().unwrap_or(false), 0)
            } else {
                b.add_file_data(data, jstr(f, "name"))
            };
        }
        if let Err(e) = b.build(&path) {
            c.inconclusive(&format!("ArchiveBuilder could not write the encrypted base archive: {e}"));
            return;
        }
        c.count(&format!("library_built_encrypted_bases|v{version}"), 1);
        arcs[0].0 = path;
    }
    if let Some(k) = m["enc_base"].as_str() {
        c.count(&format!("chains_with_encrypted_base|{k}|fix_key={}", m["enc_base_fix_key"].as_bool().unwrap_or(false)), 1);
        for l in m["enc_patches"].as_array().map(|v| v.as_slice()).unwrap_or(&[]) {
            let l = l.as_str().unwrap_or("");
            if l.starts_with("plain-") {
                c.count("patch_entries_left_unencrypted_in_enc_chains", 1);
            } else {
                c.count(&format!("encrypted_patch_entries|{l}|fix_key={}", m["enc_patch_fix_key"].as_bool().unwrap_or(false)), 1);
            }
        }
    }
    let order: Vec<usize> = m["add_order"].as_array().map(|v| v.iter().map(|x| x.as_u64().unwrap_or(0) as usize).collect()).unwrap_or_default();
    let inputs: Vec<(PathBuf, i32)> = order.iter().filter_map(|i| arcs.get(*i).cloned()).collect();
    let built = trap(|| -> wow_mpq::Result<PatchChain> {
        match api.as_str() {
            "from_archives_parallel" => PatchChain::from_archives_parallel(inputs.clone()),
            "add_archives_parallel" => {
                let mut ch = PatchChain::new();
                ch.add_archive(&inputs[0].0, inputs[0].1)?;
                ch.add_archives_parallel(inputs[1..].to_vec())?;
                Ok(ch)
            }
            _ => {
                let mut ch = PatchChain::new();
                for (p, pr) in &inputs {
                    ch.add_archive(p, *pr)?;
                }
                Ok(ch)
            }
        }
    });
    let mut chain = match built {
        Ok(Ok(ch)) => ch,
        Ok(Err(e)) => {
            c.violate(format!("chain-patch|construction-failed|{api}"), format!("cannot build the chain over reference-written archives: {e}"), json!({"archives": m["archives"]}));
            return;
        }
        Err(p) => {
            c.violate(format!("chain-patch|construction-panic|{}", p.func), format!("chain construction panicked: {}", p.msg), json!({"archives": m["archives"]}));
            return;
        }
    };
    c.count(&format!("chains_built|{api}"), 1);
    if let Some(k) = m["container_damage"].as_str() {
        c.count(&format!("chains_with_unreadable_patch_entry|{}|{}|{k}", jstr(m, "corrupt_where"), jstr(m, "container_layout")), 1);
    }
    let expect_kind = jstr(m, "expect_kind");
    let expect = m["expect"].as_str().map(unhex);
    let declared = m["declared_after"].as_str().map(unhex);
    let top_ptch = m["top_ptch"].as_str().map(unhex);
    let winner_unparseable = top_ptch.as_ref().map(|p| PatchFile::parse(p).is_err()).unwrap_or(false);
    let negnz = m["traits"]["neg_nonzero"].as_bool().unwrap_or(false);
    let detail = json!({"variant": variant, "archives": m["archives"], "add_order": m["add_order"], "name": name, "traits": m["traits"], "api": api});
    for sp in m["lookups"].as_array().map(|v| v.as_slice()).unwrap_or(&[]) {
        let sp = sp.as_str().unwrap_or("");
        c.count("chain_patch_reads", 1);
        alloc::reset();
        let r = trap(|| chain.read_file(sp));
        if alloc::snapshot().max_req >= BIG_REQUEST {
            c.violate(format!("patch-huge-alloc|chain|{variant}"), "a heap request >= 256 MiB while reading a patched file through the chain", detail.clone());
        }
        let r = match r {
            Ok(r) => r,
            Err(p) => {
                c.violate(format!("patch-panic|chain|{}|{}", jstr(m, "sigtag"), site(&p.func)), format!("read_file through the chain panicked: {}", p.msg), detail.clone());
                continue;
            }
        };
        match (expect_kind, r) {
            ("equal", Ok(bytes)) => {
                if Some(&bytes) == expect.as_ref() {
                    c.count(&format!("chain_wellformed_applied|{variant}"), 1);
                } else {
                    let verified = declared.as_ref().map(|d| d[..] == md5_of(&bytes)[..]).unwrap_or(false);
                    let sig = match variant.as_str() {
                        "full-on-top" => "chain-patch|regular-file-on-top-not-returned".to_string(),
                        _ if !verified && declared.is_some() => format!("patch-unverified-bytes|chain|wellformed|{variant}"),
                        _ => format!("chain-patch|wrong-bytes|{variant}"),
                    };
                    c.violate(sig, format!("read_file({sp:?}) through the chain returned {} bytes that differ from the expected version at offset {}", bytes.len(), first_diff(&bytes, expect.as_deref().unwrap_or(&[]))), detail.clone());
                }
            }
            ("equal", Err(e)) => {
                let sig = match variant.as_str() {
                    "full-on-top" => "chain-patch|regular-file-on-top-not-returned".to_string(),
                    "full-between" => "patch-wellformed-rejected|chain|full-copy-between-patches".to_string(),
                    "wellformed-enc" => {
                        // which encrypted shape the chain carries: the storage of the encrypted patch entries, else the encrypted base
                        let lay: BTreeSet<&str> = m["enc_patches"].as_array().map(|v| v.iter().filter_map(|x| x.as_str()).filter(|l| !l.starts_with("plain-")).collect()).unwrap_or_default();
                        if lay.is_empty() {
                            format!("patch-wellformed-rejected|chain|encrypted-base|{}", jstr(m, "enc_base"))
                        } else {
                            format!("patch-wellformed-rejected|chain|encrypted-patch-entry|{}", if lay.contains("zlib-sectors") { "sectored" } else { "single-unit" })
                        }
                    }
                    _ => format!("patch-wellformed-rejected|chain|{}", if negnz { "bsd0-neg-seek-to-nonzero" } else { "plain" }),
                };
                c.count(&format!("chain_wellformed_rejected|{variant}"), 1);
                c.violate(sig, format!("read_file({sp:?}) through a well-formed chain ({variant}) failed: {e}"), detail.clone());
            }
            (_, Err(_)) => c.count(&format!("chain_corrupted_and_detected|{variant}"), 1),
            (_, Ok(bytes)) => {
                if declared.as_ref().map(|d| d[..] == md5_of(&bytes)[..]).unwrap_or(false) {
                    c.count(&format!("chain_corrupted_but_result_verified|{variant}"), 1);
                } else {
                    let pred = if variant == "no-base" {
                        "no-base".to_string()
                    } else if winner_unparseable {
                        "winner-unparseable".to_string()
                    } else if m["container_damage"].is_string() {
                        // the stored PTCH file is intact but its archive entry cannot be unpacked
                        if jstr(m, "corrupt_where") == "top" { "winner-unreadable".to_string() } else { "lower-entry-unreadable".to_string() }
                    } else {
                        format!("{}|{}", jstr(m, "corrupt_where"), jstr(m, "sigtag"))
                    };
                    c.violate(format!("patch-unverified-bytes|chain|{pred}"),
                              format!("read_file({sp:?}) returned Ok with {} bytes whose MD5 is not the md5_after declared by the winning patch entry ({variant})", bytes.len()),
                              json!({"variant": variant, "archives": m["archives"], "add_order": m["add_order"], "name": name, "got": brief(&bytes), "declared_md5_after": m["declared_after"], "winner_unparseable": winner_unparseable}));
                }
            }
        }
    }
    c.count("chain_patch_contains", 1);
    if !chain.contains_file(&name) {
        c.violate("chain-contains|false-for-present|patch-entry".to_string(), format!("contains_file({name:?}) = false although {} archives hold an entry", arcs.len()), detail.clone());
    }
    if let Some(top) = m["top_archive"].as_str() {
        c.count("chain_patch_find_archive", 1);
        if chain.find_file_archive(&name) != Some(Path::new(top)) {
            c.violate("chain-find-archive|wrong-archive|patch-entry".to_string(), format!("find_file_archive({name:?}) = {:?}, expected {top}", chain.find_file_archive(&name)), detail.clone());
        }
    }
    // the batch entry point over the same names (+ the regular neighbours and a name no archive holds): slot by slot what read_file gives
    {
        let mut names: Vec<&str> = m["lookups"].as_array().map(|v| v.iter().filter_map(|x| x.as_str()).collect()).unwrap_or_default();
        names.extend(m["others"].as_array().map(|v| v.iter().map(|o| jstr(o, "name")).collect::<Vec<_>>()).unwrap_or_default());
        names.push("No\\Such\\File.bin");
        let mut single: Vec<(&str, Option<Vec<u8>>)> = Vec::new();
        let mut panicked = false;
        for n in &names {
            match trap(|| chain.read_file(n)) {
                Ok(r) => single.push((n, r.ok())),
                Err(_) => panicked = true, // reported by the read loop above
            }
        }
        if !panicked {
            check_extract_files(c, &mut chain, &single, &format!("patch-entry|{}", if expect_kind == "equal" { "wellformed" } else { "damaged" }), &json!({"variant": variant, "archives": m["archives"], "add_order": m["add_order"], "api": api}));
        }
    }
    // get_chain_info / get_archive on reference-written archives: the members with their priorities, highest first
    {
        c.count("chain_patch_infos_compared", 1);
        let infos = chain.get_chain_info();
        let got: Vec<(PathBuf, i32)> = infos.iter().map(|i| (i.path.clone(), i.priority)).collect();
        let mut want: Vec<(PathBuf, i32)> = inputs.clone();
        want.sort_by(|a, b| b.1.cmp(&a.1));       // priorities within a case are distinct
        if got != want {
            let (mut gs, mut ws) = (got.clone(), want.clone());
            gs.sort();
            ws.sort();
            c.violate(format!("chain-info|{}|patch-entry", if gs != ws { "members" } else { "order" }), format!("get_chain_info() = {:?}, expected {:?}", got, want), detail.clone());
        }
        for (p, _) in &inputs {
            c.count("chain_patch_get_archive", 1);
            if chain.get_archive(p).map(|a| a.path() != p.as_path()).unwrap_or(true) {
                c.violate("chain-get-archive|none-for-member|patch-entry".to_string(), format!("get_archive({}) does not return the archive", p.display()), detail.clone());
            }
        }
    }
    for o in m["others"].as_array().map(|v| v.as_slice()).unwrap_or(&[]) {
        c.count("chain_regular_reads", 1);
        let want = unhex(jstr(o, "expect"));
        match trap(|| chain.read_file(jstr(o, "name"))) {
            Ok(Ok(b)) if b == want => {}
            other => c.violate("chain-read|wrong-winner|regular-file-next-to-patch-entries".to_string(), format!("read_file({:?}) in a chain with patch entries: {:?}", jstr(o, "name"), other.map(|r| r.map(|b| b.len()).map_err(|e| e.to_string())).map_err(|p| p.msg)), detail.clone()),
        }
    }
}

fn mode_patch(run: &mut Run) {
    let dir = PathBuf::from(run.args.get("dir").unwrap_or("."));
    let mut mans: Vec<(u64, PathBuf)> = std::fs::read_dir(&dir)
        .map(|d| {
            d.filter_map(|e| e.ok())
                .filter_map(|e| {
                    let n = e.file_name().to_string_lossy().into_owned();
                    let k = n.strip_prefix("pc-")?.strip_suffix(".json")?.parse::<u64>().ok()?;
                    Some((k, e.path()))
                })
                .collect()
        })
        .unwrap_or_default();
    mans.sort();
    alloc::set_refuse_at(1 << 30);
    for (idx, mp) in mans {
        if !run.want(idx) {
            continue;
        }
        let Ok(txt) = std::fs::read_to_string(&mp) else { continue };
        let Ok(m) = serde_json::from_str::<Value>(&txt) else { continue };
        let class = jstr(&m, "class").to_string();
        let kind = jstr(&m, "kind").to_string();
        let desc = match kind.as_str() {
            "chain" => json!({"kind": kind, "variant": m["variant"], "name": m["name"], "archives": m["archives"], "add_order": m["add_order"], "api": m["api"], "traits": m["traits"]}),
            "isolated" => json!({"kind": kind, "type": m["type"], "mut": m["mut"], "group": m["group"], "level": m["level"]}),
            _ => json!({"kind": kind, "type": m["type"], "traits": m["traits"], "group": m["group"], "level": m["level"], "base_len": jstr(&m, "base").len() / 2, "patch_len": jstr(&m, "ptch").len() / 2,
                        "new_len": jstr(&m, "expect").len() / 2, "header_variants": m["muts"].as_array().map(|v| v.len()), "bsdiff_variants": m["blobs"].as_array().map(|v| v.len())}),
        };
        run.case(idx, &class, desc, |c| match kind.as_str() {
            "direct" => direct_case(c, &m, idx),
            "isolated" => isolated_case(c, &m),
            "chain" => chain_case(c, &m),
            _ => c.skip("unknown manifest kind"),
        });
    }
}

fn main() {
    let mut run = Run::new();
    let mode = run.args.get("mode").unwrap_or("chain").to_string();
    if mode == "patch" {
        mode_patch(&mut run);
    } else {
        mode_chain(&mut run);
    }
    run.done();
}
