//! C09 (slice for the non-default cargo feature `async` of wow-mpq) — `AsyncArchiveReader::extract_files_concurrent` is the
//! asynchronous member of the parallel extraction interfaces: a list of (name, offset, size) requests answered by
//! concurrently running tasks over one shared reader. Oracle: one result per request, in request order, each equal to
//! reading the same range on its own. The reader is a real `tokio::fs::File` (its reads suspend, so other tasks get to
//! run between them); request lists mix sizes below, at and above the reader's 64 KiB buffer size.
//! Built with `--features async`.

use serde_json::json;
use std::sync::Arc;
use vh_common::{Run, brief, trap};
use wow_mpq::{AsyncArchiveReader, AsyncConfig, SessionTracker};

fn main() {
    let mut run = Run::new();
    let thorough = run.args.thorough();
    let dir = std::path::PathBuf::from(&run.args.scratch);
    let path = dir.join(format!("c09-async-{}.bin", std::process::id()));
    let mut frng = vh_common::Rng::for_case(run.args.seed, 0xC09A, 1);
    let data: Vec<u8> = frng.bytes(3 << 20);
    if std::fs::write(&path, &data).is_err() {
        eprintln!("c09_async: cannot write the fixture");
        std::process::exit(2);
    }
    let rt = match tokio::runtime::Builder::new_current_thread().enable_all().build() {
        Ok(r) => r,
        Err(e) => {
            eprintln!("c09_async: no runtime: {e}");
            std::process::exit(2);
        }
    };
    const SIZES: [u64; 9] = [0, 1, 100, 48 << 10, (64 << 10) - 1, 64 << 10, (64 << 10) + 1, 300 << 10, 1 << 20];
    let n = if thorough { 400u64 } else { 60 };
    for idx in 0..n {
        if !run.want(idx) {
            continue;
        }
        let mut rng = run.rng(idx, 0);
        let nreq = 1 + rng.usize(10);
        let big = idx % 3 != 0;
        let reqs: Vec<(String, u64, u64)> = (0..nreq)
            .map(|k| {
                let size = if big { SIZES[rng.usize(SIZES.len())] } else { SIZES[rng.usize(5)] };
                let off = rng.below(data.len() as u64 - size);
                (format!("req{k}-{}", if k % 4 == 3 { "dup" } else { "x" }), off, size)
            })
            .collect();
        let max_conc = [1usize, 2, 5, 8][(idx % 4) as usize];
        let class = format!("async|n={nreq}|{}|conc={max_conc}", if reqs.iter().any(|r| r.2 > 64 << 10) { "some>buffer" } else { "all<=buffer" });
        let desc = json!({"requests": reqs.iter().map(|r| json!([r.0, r.1, r.2])).collect::<Vec<_>>(), "max_concurrent_extractions": max_conc});
        run.case(idx, &class, desc, |c| {
            let got = trap(|| {
                rt.block_on(async {
                    let f = tokio::fs::File::open(&path).await.map_err(|e| e.to_string())?;
                    let mut cfg = AsyncConfig::default();
                    cfg.max_concurrent_extractions = max_conc.max(nreq.div_ceil(2));
                    let rd = AsyncArchiveReader::with_config(f, cfg, Arc::new(SessionTracker::new()));
                    rd.extract_files_concurrent(reqs.clone()).await.map_err(|e| e.to_string())
                })
            });
            c.count("async_calls", 1);
            let res = match got {
                Err(p) => {
                    c.violate(format!("async|panic|{}", p.sig()), format!("extract_files_concurrent panicked: {}", p.msg), json!({}));
                    return;
                }
                Ok(Err(e)) => {
                    c.violate("async|call-fails".to_string(), format!("extract_files_concurrent failed on readable ranges: {e}"), json!({}));
                    return;
                }
                Ok(Ok(v)) => v,
            };
            if res.len() != reqs.len() {
                c.violate("async|slot-count".to_string(), format!("{} results for {} requests", res.len(), reqs.len()), json!({}));
                return;
            }
            for (k, ((gn, gd), (wn, off, size))) in res.iter().zip(&reqs).enumerate() {
                c.count("async_slots_compared", 1);
                let want = &data[*off as usize..(*off + *size) as usize];
                if gn != wn {
                    c.violate("async|slot-name-order".to_string(), format!("slot {k} carries {gn:?}, requested {wn:?}"), json!({}));
                    return;
                }
                if gd != want {
                    let kind = if gd.len() != want.len() { "len" } else { "bytes" };
                    c.violate(format!("async|slot-payload|{kind}|{}", if *size > 64 << 10 { "size>buffer" } else { "size<=buffer" }),
                              format!("slot {k} ({wn}: {size} bytes at {off}) differs from reading the same range on its own (first difference at {})", vh_common::first_diff(gd, want)),
                              json!({"got": brief(gd), "want": brief(want)}));
                    return;
                }
            }
        });
    }
    more_legs(&mut run, &rt, &path, &data, n, thorough);
    let _ = std::fs::remove_file(&path);
    run.done();
}

// ------------------------------------------------------------------------------------------------------------------
// Further legs: ranges that cannot be read (past the end of the file, above the reader's per-file size limit) at every
// position; more requests than the reader accepts in one call; read_at / read_exact_at issued concurrently; readers made
// by with_security_limits; non-default operation_timeout / max_concurrent_ops; one reader shared by several OS threads.
// Reference everywhere: the same range read on its own (a slice of the bytes the fixture was written from).

type Req = (String, u64, u64);
type Reader = AsyncArchiveReader<tokio::fs::File>;

#[derive(Clone)]
struct Setup {
    max_extract: usize,
    max_ops: usize,
    timeout_s: u64,
    per_file_limit: Option<u64>, // Some = reader made by with_security_limits with this max_decompressed_size
    via_limits_ctor: bool,
}

impl Setup {
    fn json(&self) -> serde_json::Value {
        json!({"max_concurrent_extractions": self.max_extract, "max_concurrent_ops": self.max_ops, "operation_timeout_s": self.timeout_s,
               "constructor": if self.via_limits_ctor { "with_security_limits" } else { "with_config" }, "max_decompressed_size": self.per_file_limit})
    }
    fn reader(&self, path: &std::path::Path) -> Result<Reader, String> {
        let f = tokio::fs::File::from_std(std::fs::File::open(path).map_err(|e| e.to_string())?);
        let mut cfg = AsyncConfig::default();
        cfg.max_concurrent_extractions = self.max_extract;
        cfg.max_concurrent_ops = self.max_ops;
        cfg.operation_timeout = std::time::Duration::from_secs(self.timeout_s);
        let tracker = Arc::new(SessionTracker::new());
        Ok(if self.via_limits_ctor {
            let mut lim = wow_mpq::SecurityLimits::default();
            if let Some(l) = self.per_file_limit {
                lim.max_decompressed_size = l;
            }
            AsyncArchiveReader::with_security_limits(f, cfg, tracker, lim)
        } else {
            AsyncArchiveReader::with_config(f, cfg, tracker)
        })
    }
}

/// A request "fails on its own" when its range does not lie inside the file (read_exact cannot fill the buffer) or when
/// its size is above the per-file limit the reader was given (documented: such a request is refused).
fn fails_alone(r: &Req, len: u64, st: &Setup) -> bool {
    (r.2 > 0 && r.1.checked_add(r.2).map(|e| e > len).unwrap_or(true)) || st.per_file_limit.map(|l| r.2 > l).unwrap_or(false)
}

/// Slots of a successful call against the request list; returns false after a violation.
fn judge_slots(c: &mut vh_common::Case, leg: &str, res: &[(String, Vec<u8>)], reqs: &[Req], data: &[u8]) -> bool {
    if res.len() != reqs.len() {
        c.violate(format!("async|{leg}|slot-count"), format!("{} results for {} requests", res.len(), reqs.len()), json!({}));
        return false;
    }
    for (k, ((gn, gd), (wn, off, size))) in res.iter().zip(reqs).enumerate() {
        c.count("async_slots_compared", 1);
        let want = &data[*off as usize..(*off + *size) as usize];
        if gn != wn {
            c.violate(format!("async|{leg}|slot-name-order"), format!("slot {k} carries {gn:?}, requested {wn:?}"), json!({}));
            return false;
        }
        if gd != want {
            c.violate(format!("async|{leg}|slot-payload"), format!("slot {k} ({wn}: {size} bytes at {off}) differs from reading the same range on its own (first difference at {})", vh_common::first_diff(gd, want)),
                      json!({"got": brief(gd), "want": brief(want)}));
            return false;
        }
    }
    true
}

fn more_legs(run: &mut Run, rt: &tokio::runtime::Runtime, path: &std::path::Path, data: &[u8], base0: u64, thorough: bool) {
    let len = data.len() as u64;
    const SIZES: [u64; 8] = [1, 100, 4096, 48 << 10, (64 << 10) - 1, (64 << 10) + 1, 150 << 10, 300 << 10];
    const TIMEOUTS: [u64; 3] = [30, 20, 3600];

    // ---- (b) one request that fails on its own, at every position of the list in turn
    let nb: u64 = if thorough { 240 } else { 36 };
    for k in 0..nb {
        let idx = base0 + k;
        if !run.want(idx) {
            continue;
        }
        let mut rng = run.rng(idx, 0);
        let nreq = 2 + (k % 7) as usize;
        let pos = ((k / 7) as usize + rng.usize(nreq)) % nreq;
        let why = ["starts-inside-ends-past-eof", "starts-at-eof", "starts-past-eof", "above-per-file-limit"][(k % 4) as usize];
        let st = Setup { max_extract: [1usize, 2, 5, 8][(k % 4) as usize].max(nreq.div_ceil(2)), max_ops: [10usize, 1, 3][(k % 3) as usize], timeout_s: TIMEOUTS[(k % 3) as usize],
                         per_file_limit: if why == "above-per-file-limit" { Some(200 << 10) } else { None }, via_limits_ctor: why == "above-per-file-limit" || k % 2 == 0 };
        let mut reqs: Vec<Req> = (0..nreq)
            .map(|i| {
                let size = SIZES[rng.usize(if st.per_file_limit.is_some() { 7 } else { SIZES.len() })];
                (format!("req{i}"), rng.below(len - size), size)
            })
            .collect();
        reqs[pos] = match why {
            "starts-inside-ends-past-eof" => { let size = SIZES[1 + rng.usize(SIZES.len() - 1)]; (format!("bad{pos}"), len - 1 - rng.below(size - 1), size) }
            "starts-at-eof" => (format!("bad{pos}"), len, SIZES[rng.usize(SIZES.len())]),
            "starts-past-eof" => (format!("bad{pos}"), len + 1 + rng.below(1 << 20), SIZES[rng.usize(SIZES.len())]),
            _ => (format!("bad{pos}"), rng.below(len - (300 << 10)), 300 << 10),
        };
        let where_ = if pos == 0 { "first" } else if pos == nreq - 1 { "last" } else { "middle" };
        let class = format!("async|unreadable-range|{why}|n={nreq}|at={where_}|{}", if st.via_limits_ctor { "limits-ctor" } else { "config-ctor" });
        let desc = json!({"requests": reqs.iter().map(|r| json!([r.0, r.1, r.2])).collect::<Vec<_>>(), "file_len": len, "unreadable_position": pos, "why": why, "reader": st.json()});
        run.case(idx, &class, desc, |c| {
            let got = trap(|| {
                rt.block_on(async {
                    // every request on its own, each through a reader of its own
                    let mut singles: Vec<Result<Vec<(String, Vec<u8>)>, String>> = Vec::new();
                    for r in &reqs {
                        let rd = st.reader(path)?;
                        singles.push(rd.extract_files_concurrent(vec![r.clone()]).await.map_err(|e| e.to_string()));
                    }
                    let rd = st.reader(path)?;
                    let whole = rd.extract_files_concurrent(reqs.clone()).await.map_err(|e| e.to_string());
                    // the same reader afterwards, asked for the readable requests only
                    let good: Vec<Req> = reqs.iter().filter(|r| !fails_alone(r, len, &st)).cloned().collect();
                    let after = rd.extract_files_concurrent(good.clone()).await.map_err(|e| e.to_string());
                    Ok::<_, String>((singles, whole, good, after))
                })
            });
            c.count("async_calls", 1);
            c.count("async_unreadable_range_cases", 1);
            let (singles, whole, good, after) = match got {
                Err(p) => {
                    c.violate(format!("async|unreadable-range|panic|{}", p.sig()), format!("extract_files_concurrent panicked: {}", p.msg), json!({}));
                    return;
                }
                Ok(Err(e)) => {
                    c.inconclusive(format!("fixture could not be opened: {e}"));
                    return;
                }
                Ok(Ok(v)) => v,
            };
            for (i, s) in singles.iter().enumerate() {
                c.count("async_single_request_reads", 1);
                let must_fail = fails_alone(&reqs[i], len, &st);
                match s {
                    Ok(v) if must_fail => {
                        c.violate(format!("async|unreadable-range|single-request-ok|{why}"), format!("request {i} ({} bytes at {} of a {len}-byte file) asked on its own returned Ok({} slots)", reqs[i].2, reqs[i].1, v.len()), json!({}));
                        return;
                    }
                    Ok(v) => {
                        if !judge_slots(c, "single-request", v, &reqs[i..i + 1], data) {
                            return;
                        }
                    }
                    Err(_) if must_fail => c.count("async_single_request_reads_failing_as_expected", 1),
                    Err(e) => {
                        c.violate("async|call-fails".to_string(), format!("request {i} asked on its own failed on a readable range: {e}"), json!({}));
                        return;
                    }
                }
            }
            // without error skipping: the call fails as a whole iff some request fails on its own
            match whole {
                Err(_) => c.count("async_whole_call_err_as_required", 1),
                Ok(v) => {
                    c.violate(format!("async|unreadable-range|call-ok|{why}"), format!("the call returned Ok({} slots) although request {pos} fails on its own ({why})", v.len()), json!({"position": pos}));
                    return;
                }
            }
            c.count("async_calls_after_a_failed_call", 1);
            match after {
                Err(e) => c.violate("async|after-failed-call|call-fails".to_string(), format!("after a call that failed ({why} at position {pos}) the same reader fails on readable ranges: {e}"), json!({})),
                Ok(v) => {
                    judge_slots(c, "after-failed-call", &v, &good, data);
                }
            }
        });
    }

    // ---- (c) more requests than the reader takes in one call (2 x max_concurrent_extractions): refused as a whole (documented)
    // or answered completely; never something in between; the reader answers the largest accepted request right afterwards
    let base_c = base0 + nb;
    let nc: u64 = if thorough { 60 } else { 12 };
    for k in 0..nc {
        let idx = base_c + k;
        if !run.want(idx) {
            continue;
        }
        let mut rng = run.rng(idx, 0);
        let max = [1usize, 2, 5, 3][(k % 4) as usize];
        let over = 1 + (k / 4 % 3) as usize;
        let nreq = 2 * max + over;
        let st = Setup { max_extract: max, max_ops: 10, timeout_s: TIMEOUTS[(k % 3) as usize], per_file_limit: None, via_limits_ctor: k % 2 == 1 };
        let reqs: Vec<Req> = (0..nreq).map(|i| { let size = SIZES[rng.usize(SIZES.len())]; (format!("req{i}"), rng.below(len - size), size) }).collect();
        let class = format!("async|over-request-limit|max={max}|n={nreq}");
        let desc = json!({"requests": reqs.iter().map(|r| json!([r.0, r.1, r.2])).collect::<Vec<_>>(), "reader": st.json(), "accepted_per_call": 2 * max});
        run.case(idx, &class, desc, |c| {
            let got = trap(|| {
                rt.block_on(async {
                    let rd = st.reader(path)?;
                    let over = rd.extract_files_concurrent(reqs.clone()).await.map_err(|e| e.to_string());
                    let fit: Vec<Req> = reqs[..2 * max].to_vec();
                    let at_limit = rd.extract_files_concurrent(fit.clone()).await.map_err(|e| e.to_string());
                    Ok::<_, String>((over, fit, at_limit))
                })
            });
            c.count("async_calls", 2);
            let (over_r, fit, at_limit) = match got {
                Err(p) => {
                    c.violate(format!("async|over-request-limit|panic|{}", p.sig()), format!("extract_files_concurrent panicked: {}", p.msg), json!({}));
                    return;
                }
                Ok(Err(e)) => {
                    c.inconclusive(format!("fixture could not be opened: {e}"));
                    return;
                }
                Ok(Ok(v)) => v,
            };
            match over_r {
                Err(_) => c.count("async_over_limit_calls_refused_as_a_whole", 1),
                Ok(v) => {
                    c.count("async_over_limit_calls_answered", 1);
                    if !judge_slots(c, "over-request-limit", &v, &reqs, data) {
                        return;
                    }
                }
            }
            c.count("async_calls_of_exactly_the_accepted_length", 1);
            match at_limit {
                Err(e) => c.violate("async|call-fails".to_string(), format!("{} requests (= 2 x max_concurrent_extractions) on readable ranges failed: {e}", fit.len()), json!({})),
                Ok(v) => {
                    judge_slots(c, "at-request-limit", &v, &fit, data);
                }
            }
        });
    }

    // ---- (d) read_at / read_exact_at issued concurrently on one reader (more tasks than max_concurrent_ops)
    let base_d = base_c + nc;
    let nd: u64 = if thorough { 120 } else { 24 };
    for k in 0..nd {
        let idx = base_d + k;
        if !run.want(idx) {
            continue;
        }
        let mut rng = run.rng(idx, 0);
        let ntasks = [3usize, 12, 24][(k % 3) as usize];
        let st = Setup { max_extract: 5, max_ops: [1usize, 2, 10, 4][(k % 4) as usize], timeout_s: TIMEOUTS[(k % 3) as usize], per_file_limit: None, via_limits_ctor: k % 2 == 1 };
        // (exact?, offset, size); about one in six reaches past the end of the file
        let ops: Vec<(bool, u64, u64)> = (0..ntasks)
            .map(|i| {
                let size = if rng.chance(1, 10) { 0 } else { SIZES[rng.usize(SIZES.len())] };
                let off = match rng.usize(6) { 0 => len - rng.below(size.max(2)), 1 if i % 2 == 0 => len + rng.below(4096), _ => rng.below(len - size) };
                (i % 3 != 2, off, size)
            })
            .collect();
        let class = format!("async|read_at+read_exact_at|tasks={ntasks}|ops={}|{}", st.max_ops, if ops.iter().any(|o| o.2 > 0 && o.1 + o.2 > len) { "some-past-eof" } else { "all-inside" });
        let desc = json!({"operations": ops.iter().map(|o| json!([if o.0 { "read_exact_at" } else { "read_at" }, o.1, o.2])).collect::<Vec<_>>(), "file_len": len, "reader": st.json()});
        run.case(idx, &class, desc, |c| {
            let got = trap(|| {
                rt.block_on(async {
                    let rd = Arc::new(st.reader(path)?);
                    let hs: Vec<_> = ops
                        .iter()
                        .map(|&(exact, off, size)| {
                            let rd = rd.clone();
                            tokio::spawn(async move {
                                let mut buf = vec![0xA5u8; size as usize];
                                let r = if exact { rd.read_exact_at(off, &mut buf).await.map(|_| size as usize) } else { rd.read_at(off, &mut buf).await };
                                (r.map_err(|e| e.to_string()), buf)
                            })
                        })
                        .collect();
                    let mut outs = Vec::new();
                    for h in hs {
                        outs.push(h.await.map_err(|e| format!("task failed: {e}"))?);
                    }
                    Ok::<_, String>(outs)
                })
            });
            let outs = match got {
                Err(p) => {
                    c.violate(format!("async|read_at|panic|{}", p.sig()), format!("read_at / read_exact_at panicked: {}", p.msg), json!({}));
                    return;
                }
                Ok(Err(e)) => {
                    if e.starts_with("task failed") {
                        c.violate("async|read_at|task-died".to_string(), e, json!({}));
                    } else {
                        c.inconclusive(format!("fixture could not be opened: {e}"));
                    }
                    return;
                }
                Ok(Ok(v)) => v,
            };
            for (i, ((r, buf), &(exact, off, size))) in outs.iter().zip(&ops).enumerate() {
                let inside = size == 0 || off + size <= len; // nothing to read = nothing that can be missing
                if exact {
                    c.count("async_read_exact_at_calls", 1);
                    match r {
                        Ok(_) if !inside => {
                            c.violate("async|read_exact_at|ok-past-eof".to_string(), format!("operation {i}: read_exact_at({off}, {size} bytes) of a {len}-byte file returned Ok"), json!({}));
                            return;
                        }
                        Ok(_) => {
                            c.count("async_read_exact_at_bytes_compared", size);
                            let want: &[u8] = if size == 0 { &[] } else { &data[off as usize..(off + size) as usize] };
                            if buf != want {
                                c.violate("async|read_exact_at|payload".to_string(), format!("operation {i}: read_exact_at({off}, {size} bytes) filled the buffer with bytes that differ from the file (first difference at {})", vh_common::first_diff(buf, want)),
                                          json!({"got": brief(buf), "want": brief(want)}));
                                return;
                            }
                        }
                        Err(_) if !inside => c.count("async_read_exact_at_past_eof_failing_as_expected", 1),
                        Err(e) => {
                            c.violate("async|read_exact_at|fails-inside-file".to_string(), format!("operation {i}: read_exact_at({off}, {size} bytes) inside a {len}-byte file failed: {e}"), json!({}));
                            return;
                        }
                    }
                } else {
                    c.count("async_read_at_calls", 1);
                    match r {
                        Err(e) => {
                            // a plain read never fails for lack of bytes: it reports how many there were
                            c.violate("async|read_at|fails".to_string(), format!("operation {i}: read_at({off}, buffer of {size}) failed: {e}"), json!({}));
                            return;
                        }
                        Ok(n) => {
                            let n = *n as u64;
                            let avail = len.saturating_sub(off).min(size);
                            if n > avail || (n == 0 && avail > 0) {
                                c.violate("async|read_at|count".to_string(), format!("operation {i}: read_at({off}, buffer of {size}) reported {n} bytes, the file holds {avail} for that buffer"), json!({}));
                                return;
                            }
                            if n < avail {
                                c.count("async_read_at_short_reads", 1);
                            }
                            c.count("async_read_at_bytes_compared", n);
                            let want = &data[off.min(len) as usize..(off.min(len) + n) as usize];
                            if &buf[..n as usize] != want {
                                c.violate("async|read_at|payload".to_string(), format!("operation {i}: read_at({off}, buffer of {size}) delivered {n} bytes that differ from the file"), json!({"got": brief(&buf[..n as usize]), "want": brief(want)}));
                                return;
                            }
                        }
                    }
                }
            }
        });
    }

    // ---- (e) one reader shared by several OS threads, each driving its own (current-thread) runtime: calls of
    // extract_files_concurrent and read_exact_at overlap for real; every thread's slots are judged on their own
    let base_e = base_d + nd;
    let ne: u64 = if thorough { 40 } else { 8 };
    for k in 0..ne {
        let idx = base_e + k;
        if !run.want(idx) {
            continue;
        }
        let mut rng = run.rng(idx, 0);
        let nthreads = 2 + (k % 3) as usize;
        let rounds = if thorough { 12 } else { 4 };
        let st = Setup { max_extract: [2usize, 5, 8][(k % 3) as usize], max_ops: [10usize, 2][(k % 2) as usize], timeout_s: 30, per_file_limit: None, via_limits_ctor: k % 2 == 1 };
        let lists: Vec<Vec<Req>> = (0..nthreads)
            .map(|t| (0..1 + rng.usize(2 * st.max_extract)).map(|i| { let size = SIZES[rng.usize(SIZES.len())]; (format!("t{t}r{i}"), rng.below(len - size), size) }).collect())
            .collect();
        let class = format!("async|reader-shared-by-os-threads|threads={nthreads}|max={}|ops={}", st.max_extract, st.max_ops);
        let desc = json!({"os_threads": nthreads, "rounds": rounds, "requests_per_thread": lists.iter().map(|l| l.len()).collect::<Vec<_>>(), "reader": st.json(),
                          "what": "one AsyncArchiveReader behind an Arc; every OS thread runs its own current-thread runtime and calls extract_files_concurrent (odd rounds: read_exact_at per request) on it"});
        run.case(idx, &class, desc, |c| {
            let rd = match st.reader(path) {
                Ok(r) => Arc::new(r),
                Err(e) => {
                    c.inconclusive(format!("fixture could not be opened: {e}"));
                    return;
                }
            };
            let barrier = Arc::new(std::sync::Barrier::new(nthreads));
            type Round = Result<Vec<(String, Vec<u8>)>, String>;
            let outs: Vec<Result<Vec<Round>, String>> = std::thread::scope(|sc| {
                let hs: Vec<_> = lists
                    .iter()
                    .map(|list| {
                        let (rd, barrier) = (rd.clone(), barrier.clone());
                        sc.spawn(move || {
                            let rt = tokio::runtime::Builder::new_current_thread().enable_all().build().map_err(|e| e.to_string());
                            barrier.wait();
                            let rt = rt?;
                            trap(|| {
                                (0..rounds)
                                    .map(|round| {
                                        rt.block_on(async {
                                            if round % 2 == 0 {
                                                rd.extract_files_concurrent(list.clone()).await.map_err(|e| e.to_string())
                                            } else {
                                                let mut v = Vec::new();
                                                for (n, off, size) in list {
                                                    let mut buf = vec![0u8; *size as usize];
                                                    rd.read_exact_at(*off, &mut buf).await.map_err(|e| e.to_string())?;
                                                    v.push((n.clone(), buf));
                                                }
                                                Ok(v)
                                            }
                                        })
                                    })
                                    .collect::<Vec<Round>>()
                            })
                            .map_err(|p| format!("panic:{}", p.sig()))
                        })
                    })
                    .collect();
                hs.into_iter().map(|h| h.join().unwrap_or_else(|_| Err("thread died".into()))).collect()
            });
            for (t, o) in outs.into_iter().enumerate() {
                match o {
                    Err(e) if e.starts_with("panic:") || e == "thread died" => {
                        c.violate(format!("async|shared-by-os-threads|{e}"), format!("thread {t} of {nthreads} panicked while the reader was shared"), json!({}));
                        return;
                    }
                    Err(e) => {
                        c.inconclusive(format!("no runtime: {e}"));
                        return;
                    }
                    Ok(rounds_out) => {
                        for (round, r) in rounds_out.into_iter().enumerate() {
                            c.count("async_calls", 1);
                            c.count("async_shared_reader_thread_rounds", 1);
                            match r {
                                Err(e) => {
                                    c.violate(format!("async|shared-by-os-threads|call-fails|{}", if round % 2 == 0 { "extract_files_concurrent" } else { "read_exact_at" }),
                                              format!("thread {t}, round {round}: readable ranges failed while other threads used the same reader: {e}"), json!({}));
                                    return;
                                }
                                Ok(v) => {
                                    if !judge_slots(c, "shared-by-os-threads", &v, &lists[t], data) {
                                        return;
                                    }
                                }
                            }
                        }
                    }
                }
            }
        });
    }
}
