//! C09 (slice for the non-default cargo feature `async` of wow-mpq) — `AsyncArchiveReader::extract_files_concurrent` is the
//! asynchronous member of the parallel extraction interfaces: a list of (name, offset, size) requests answered by
//! concurrently running tasks over one shared reader. Oracle: one result per request, in request order, each equal to
//! reading the same range on its own. The reader is a real `tokio::fs::File` (its reads suspend, so other tasks get to
//! run between them); request lists mix sizes below, at and above the reader's 64 KiB buffer size.
//! Built with `--features async`.

use serde_json::json;
use std::sync::Arc;
use vh_common::{Run, brief, trap};
use wow_mpq::{AsyncArchiveReader, AsyncConfig, SessionTracker};

fn main() {
    let mut run = Run::new();
    let thorough = run.args.thorough();
    let dir = std::path::PathBuf::from(&run.args.scratch);
    let path = dir.join(format!("c09-async-{}.bin", std::process::id()));
    let mut frng = vh_common::Rng::for_case(run.args.seed, 0xC09A, 1);
    let data: Vec<u8> = frng.bytes(3 << 20);
    if std::fs::write(&path, &data).is_err() {
        eprintln!("c09_async: cannot write the fixture");
        std::process::exit(2);
    }
    let rt = match tokio::runtime::Builder::new_current_thread().enable_all().build() {
        Ok(r) => r,
        Err(e) => {
            eprintln!("c09_async: no runtime: {e}");
            std::process::exit(2);
        }
    };
    const SIZES: [u64; 9] = [0, 1, 100, 48 << 10, (64 << 10) - 1, 64 << 10, (64 << 10) + 1, 300 << 10, 1 << 20];
    let n = if thorough { 400u64 } else { 60 };
    for idx in 0..n {
        if !run.want(idx) {
            continue;
        }
        let mut rng = run.rng(idx, 0);
        let nreq = 1 + rng.usize(10);
        let big = idx % 3 != 0;
        let reqs: Vec<(String, u64, u64)> = (0..nreq)
            .map(|k| {
                let size = if big { SIZES[rng.usize(SIZES.len())] } else { SIZES[rng.usize(5)] };
                let off = rng.below(data.len() as u64 - size);
                (format!("req{k}-{}", if k % 4 == 3 { "dup" } else { "x" }), off, size)
            })
            .collect();
        let max_conc = [1usize, 2, 5, 8][(idx % 4) as usize];
        let class = format!("async|n={nreq}|{}|conc={max_conc}", if reqs.iter().any(|r| r.2 > 64 << 10) { "some>buffer" } else { "all<=buffer" });
        let desc = json!({"requests": reqs.iter().map(|r| json!([r.0, r.1, r.2])).collect::<Vec<_>>(), "max_concurrent_extractions": max_conc});
        run.case(idx, &class, desc, |c| {
            let got = trap(|| {
                rt.block_on(async {
                    let f = tokio::fs::File::open(&path).await.map_err(|e| e.to_string())?;
                    let mut cfg = AsyncConfig::default();
                    cfg.max_concurrent_extractions = max_conc.max(nreq.div_ceil(2));
                    let rd = AsyncArchiveReader::with_config(f, cfg, Arc::new(SessionTracker::new()));
                    rd.extract_files_concurrent(reqs.clone()).await.map_err(|e| e.to_string())
                })
            });
            c.count("async_calls", 1);
            let res = match got {
                Err(p) => {
                    c.violate(format!("async|panic|{}", p.sig()), format!("extract_files_concurrent panicked: {}", p.msg), json!({}));
                    return;
                }
                Ok(Err(e)) => {
                    c.violate("async|call-fails".to_string(), format!("extract_files_concurrent failed on readable ranges: {e}"), json!({}));
                    return;
                }
                Ok(Ok(v)) => v,
            };
            if res.len() != reqs.len() {
                c.violate("async|slot-count".to_string(), format!("{} results for {} requests", res.len(), reqs.len()), json!({}));
                return;
            }
            for (k, ((gn, gd), (wn, off, size))) in res.iter().zip(&reqs).enumerate() {
                c.count("async_slots_compared", 1);
                let want = &data[*off as usize..(*off + *size) as usize];
                if gn != wn {
                    c.violate("async|slot-name-order".to_string(), format!("slot {k} carries {gn:?}, requested {wn:?}"), json!({}));
                    return;
                }
                if gd != want {
                    let kind = if gd.len() != want.len() { "len" } else { "bytes" };
                    c.violate(format!("async|slot-payload|{kind}|{}", if *size > 64 << 10 { "size>buffer" } else { "size<=buffer" }),
                              format!("slot {k} ({wn}: {size} bytes at {off}) differs from reading the same range on its own (first difference at {})", vh_common::first_diff(gd, want)),
                              json!({"got": brief(gd), "want": brief(want)}));
                    return;
                }
            }
        });
    }
    let _ = std::fs::remove_file(&path);
    run.done();
}
