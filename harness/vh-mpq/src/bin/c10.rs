// probe (temporary)
use wow_mpq::{Archive, ArchiveBuilder, AttributesOption, FormatVersion, ListfileOption};

fn main() {
    let dir = std::env::args().nth(1).unwrap();
    let text: Vec<u8> = (0..5000u32).flat_map(|i| format!("line {} of the text\r\n", i * 7919 % 1000).into_bytes()).collect();
    for (ver, vn) in [(FormatVersion::V1, 1), (FormatVersion::V2, 2), (FormatVersion::V3, 3), (FormatVersion::V4, 4)] {
        for tbl in [false, true] {
            let p = format!("{dir}/p{vn}{}.mpq", tbl as u8);
            let mut b = ArchiveBuilder::new().version(ver).block_size(0).default_compression(0x02).listfile_option(ListfileOption::Generate).attributes_option(AttributesOption::GenerateFull);
            if vn >= 3 {
                b = b.compress_tables(tbl);
            }
            b = b.add_file_data_with_options(text[..300].to_vec(), "single.txt", 0x02, false, 0);
            b = b.add_file_data_with_options(text[..1124].to_vec(), "three.txt", 0x02, false, 0);
            b = b.add_file_data_with_encryption(text[..4173].to_vec(), "nine.txt", 0x02, false, 0);
            b = b.add_file_data_with_options(vec![0u8; 72], "(signature)", 0, false, 0);
            b.build(&p).unwrap();
            let mut a = Archive::open(&p).unwrap();
            let info = a.get_info().unwrap();
            println!("v{vn} tbl={tbl} size={} md5={:?} sig={:?} het={} bet={}", info.file_size, info.md5_status, info.signature_status, a.het_table().is_some(), a.bet_table().is_some());
            let h = a.header().clone();
            println!("  header: hash@{} n={} block@{} n={} hi={:?} het={:?} bet={:?} asz={} v4={:?}", h.get_hash_table_pos(), h.hash_table_size, h.get_block_table_pos(), h.block_table_size, h.hi_block_table_pos, h.het_table_pos, h.bet_table_pos, h.get_archive_size(), h.v4_data.as_ref().map(|v| (v.hash_table_size_64, v.block_table_size_64, v.hi_block_table_size_64, v.het_table_size_64, v.bet_table_size_64)));
            for n in ["single.txt", "three.txt", "nine.txt", "(signature)", "(attributes)", "(listfile)"] {
                let fi = a.find_file(n).unwrap();
                match fi {
                    Some(fi) => println!("  {n}: pos={} csize={} fsize={} flags={:08x} bi={} read={:?}", fi.file_pos, fi.compressed_size, fi.file_size, fi.flags, fi.block_index, a.read_file(n).map(|d| d.len())),
                    None => println!("  {n}: not found"),
                }
            }
        }
    }
}
