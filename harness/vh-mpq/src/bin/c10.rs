//! C10 — corruption of protected data is detected; intact data always verifies. DESIGN.md §6 C10.
//!
//! Worker for: per-sector / single-unit checksums (verifier = `Archive::read_file`), version-4 header and table
//! digests (verifier = `Archive::open` + `get_info().md5_status`), the weak signature of an archive signed with the
//! library's own `generate_weak_signature` (verifier = `Archive::verify_signature`), and the sign/verify/bit-flip sweep
//! over the signature functions.  The CRC32/MD5 attribute verifier (`SFileVerifyFile`) lives in vh-ffi/src/bin/c10_ffi.rs,
//! which includes THIS file as a module (`#[path]`) for the archive generator, region map and corruption enumerator:
//! keep it edition-2021 compatible and free of `vh_mpq` imports.
//!
//! Oracle per corrupted archive: detected (open/read/verify reports failure) | harmless (returned content bit-identical)
//! | undetected-and-different = violation.  A caught panic while handling a corrupted archive is tallied as
//! `crash_on_corruption` (that is C05's clause, the corruption did not pass silently) and is not a C10 violation;
//! a panic on the *intact* archive is `intact-fails`.
//! The region map (where to corrupt) is derived from the library's own header / `find_file` answers plus the builder's
//! documented layout and is sanity-checked to tile the archive; it is never used as the oracle.

#![allow(dead_code)]

use serde_json::{Value, json};
use std::collections::BTreeMap;
use std::os::unix::fs::FileExt;
use std::path::{Path, PathBuf};
use vh_common::{Case, Rng, Run, brief, first_diff, fnv64, gen_content, trap};
use wow_mpq::crypto::{SignatureInfo, generate_weak_signature, parse_weak_signature, verify_weak_signature, verify_weak_signature_stormlib};
use wow_mpq::{Archive, ArchiveBuilder, AttributesOption, FormatVersion, ListfileOption, Md5Status, SignatureStatus};

pub const FLAG_COMPRESS: u32 = 0x0000_0200;
pub const FLAG_ENCRYPTED: u32 = 0x0001_0000;
pub const FLAG_SINGLE_UNIT: u32 = 0x0100_0000;
pub const FLAG_SECTOR_CRC: u32 = 0x0400_0000;

pub fn method_name(m: u8) -> &'static str {
    match m {
        0 => "none",
        0x02 => "zlib",
        0x10 => "bzip2",
        0x12 => "lzma",
        0x20 => "sparse",
        _ => "other",
    }
}

// ------------------------------------------------------------------ archives ----

#[derive(Clone, Debug)]
pub struct ArcCfg {
    pub version: u8,
    pub shift: u16,
    pub method: u8,
    pub enc: bool,
    /// 0 none, 1 CRC32 (+ sector checksums), 2 CRC32+MD5+FILETIME (+ sector checksums),
    /// 3 sector checksums WITHOUT an (attributes) file: generate_crcs(true), then AttributesOption::None set explicitly
    pub attr: u8,
    pub tblcomp: bool,
    /// 0 unsigned, 1 signed (signature file between the user files), 2 signed with the signature file straddling the 64 KiB digest unit
    pub signed: u8,
    /// bytes in front of the archive (multiple of 512; 0 = the archive starts the file): a self-extracting stub / foreign
    /// data the MPQ is embedded behind. Every offset stored in the archive is relative to the archive start, so the
    /// archive bytes themselves are those of the prefix-free build.
    pub prefix: u32,
    /// encrypted with the position-adjusted key (use_fix_key = true); only meaningful with `enc`
    pub fixkey: bool,
    /// codec of the compressed HET/BET tables (ArchiveBuilder::table_compression); 0 = the builder's default is left alone
    pub tblcodec: u8,
}

impl ArcCfg {
    pub fn enc_name(&self) -> &'static str {
        match (self.enc, self.fixkey) {
            (false, _) => "plain",
            (true, false) => "encrypted",
            (true, true) => "encrypted-fixkey",
        }
    }
    pub fn label(&self) -> String {
        let l = format!("v{}|s{}|{}|{}|a{}|t{}|g{}", self.version, self.shift, method_name(self.method), self.enc_name(), self.attr, self.tblcomp as u8, self.signed);
        let l = if self.prefix == 0 { l } else { format!("{l}|p{}", self.prefix) };
        if self.tblcodec == 0 { l } else { format!("{l}|tc-{}", method_name(self.tblcodec)) }
    }
    pub fn offset_name(&self) -> &'static str {
        if self.prefix == 0 { "offset0" } else { "offset>0" }
    }
    pub fn to_json(&self) -> Value {
        json!({"version": self.version, "sector_shift": self.shift, "method": method_name(self.method), "enc": self.enc_name(), "attributes": self.attr, "compress_tables": self.tblcomp, "signed": self.signed, "archive_offset": self.prefix, "table_codec": if self.tblcodec == 0 { "default" } else { method_name(self.tblcodec) }})
    }
    pub fn sector(&self) -> usize {
        512usize << self.shift
    }
}

#[derive(Clone, Debug)]
pub struct StoredFile {
    pub name: String,
    /// "single" | "3-sector" | "9-sector" | "signature" | "special"
    pub shape: &'static str,
    pub data: Vec<u8>,
    pub pos: usize,
    pub csize: usize,
    pub fsize: usize,
    pub flags: u32,
    pub block_index: usize,
    /// bytes the block occupies in the archive file (compressed size + checksum bytes the block table does not count)
    pub stored: usize,
}

impl StoredFile {
    pub fn shape_sig(&self) -> &'static str {
        match self.shape {
            "3-sector" | "9-sector" => "multi-sector",
            s => s,
        }
    }
}

#[derive(Clone, Debug)]
pub struct Region {
    pub kind: &'static str,
    pub file: Option<usize>,
    pub ranges: Vec<(usize, usize)>,
}

pub struct Built {
    pub path: PathBuf,
    pub bytes: Vec<u8>,
    pub files: Vec<StoredFile>,
    pub regions: Vec<Region>,
    pub sector: usize,
    pub baseline_md5: Option<Md5Status>,
}

impl Built {
    pub fn region(&self, kind: &str, file: Option<usize>) -> Option<&Region> {
        self.regions.iter().find(|r| r.kind == kind && r.file == file)
    }
    pub fn user_files(&self) -> impl Iterator<Item = (usize, &StoredFile)> {
        self.files.iter().enumerate().filter(|(_, f)| matches!(f.shape, "single" | "3-sector" | "9-sector"))
    }
}

fn mixed_content(rng: &mut Rng, len: usize, random_tail_percent: usize) -> Vec<u8> {
    let tail = len * random_tail_percent / 100;
    let mut v = gen_content(rng, "text", len - tail);
    v.extend(rng.bytes(tail));
    v
}

/// Build the archive of `cfg` (content derives from (seed, cfg) only, so every case over the same cfg sees the same archive),
/// sign it when asked, and derive the region map.
pub fn build(cfg: &ArcCfg, seed: u64, path: &Path) -> Result<Built, String> {
    let sector = cfg.sector();
    let mut rng = Rng::for_case(seed, fnv64(cfg.label().as_bytes()), 0xC10);
    let mut specs: Vec<(String, &'static str, Vec<u8>, u8, bool)> = Vec::new();
    if cfg.signed == 2 {
        specs.push(("filler.bin".into(), "single", rng.bytes(65_000), 0, false));
        specs.push(("(signature)".into(), "signature", vec![0u8; 72], 0, false));
        specs.push(("tail.txt".into(), "single", gen_content(&mut rng, "text", 3000), cfg.method, cfg.enc));
    } else {
        // the single-unit file: well inside one sector, one byte short of it, or exactly one sector long (the largest file that
        // is still stored as one unit with one checksum; after C10-r3m3)
        let l1 = match rng.usize(3) {
            0 => sector * 3 / 5 + rng.usize(40),
            1 => sector,
            _ => sector - 1,
        };
        let l3 = 2 * sector + sector / 5 + rng.usize(40);
        let l9 = 8 * sector + sector / 7 + rng.usize(40);
        // in every other unsigned configuration the user files carry names that merely *look* like special files
        // (a leading '(' / a trailing ')'): they are ordinary files to every verifier
        let paren = cfg.signed == 0 && (cfg.shift % 2 == 1 || cfg.version == 2);
        specs.push((if paren { "(old) notes.txt" } else { "single.txt" }.into(), "single", gen_content(&mut rng, "text", l1), cfg.method, cfg.enc));
        if cfg.signed == 1 {
            specs.push(("(signature)".into(), "signature", vec![0u8; 72], 0, false));
        }
        specs.push((if paren { "maps\\arena (copy)" } else { "three.dat" }.into(), "3-sector", gen_content(&mut rng, "text", l3), cfg.method, cfg.enc));
        if cfg.attr != 0 {
            // a file without content: its attributes (CRC32 of nothing, MD5 of nothing) must verify like any other
            specs.push(("empty.bin".into(), "empty", vec![], cfg.method, false));
        }
        // the 9-sector file ends in incompressible bytes: with a codec selected it holds compressed and raw sectors
        specs.push(("nine.bin".into(), "9-sector", mixed_content(&mut rng, l9, 35), cfg.method, cfg.enc));
    }
    if cfg.method == 0x20 {
        // the sparse codec only shrinks runs of zeros: give every file that asks for it some
        for s in specs.iter_mut().filter(|s| s.3 == 0x20) {
            let n = s.2.len();
            let mut o = rng.usize(30);
            while o < n {
                let end = (o + 40 + rng.usize(200)).min(n);
                s.2[o..end].fill(0);
                o = end + 20 + rng.usize(60);
            }
        }
    }
    let mut attempt = 0;
    loop {
        attempt += 1;
        let ver = match cfg.version {
            1 => FormatVersion::V1,
            2 => FormatVersion::V2,
            3 => FormatVersion::V3,
            _ => FormatVersion::V4,
        };
        let mut b = ArchiveBuilder::new().version(ver).block_size(cfg.shift).default_compression(cfg.method).listfile_option(ListfileOption::Generate);
        b = match cfg.attr {
            1 => b.attributes_option(AttributesOption::GenerateCrc32),
            2 => b.attributes_option(AttributesOption::GenerateFull),
            // sector checksums asked for first (which switches the CRC32 attributes on), the attributes file then declined
            3 => b.generate_crcs(true).attributes_option(AttributesOption::None),
            _ => b.attributes_option(AttributesOption::None),
        };
        if cfg.version >= 3 {
            b = b.compress_tables(cfg.tblcomp);
            if cfg.tblcodec != 0 {
                b = b.table_compression(cfg.tblcodec);
            }
        }
        for (name, _, data, method, enc) in &specs {
            b = if *enc { b.add_file_data_with_encryption(data.clone(), name, *method, cfg.fixkey, 0) } else { b.add_file_data_with_options(data.clone(), name, *method, false, 0) };
        }
        b.build(path).map_err(|e| format!("build failed: {e}"))?;
        if cfg.signed == 2 && attempt < 4 {
            // place the 72-byte signature file across the 64 KiB digest-unit boundary
            let a = Archive::open(path).map_err(|e| format!("open of fresh archive failed: {e}"))?;
            let p = a.find_file("(signature)").map_err(|e| e.to_string())?.ok_or("no (signature) in fresh archive")?.file_pos as i64;
            let want = 65_536 - 30;
            if p != want {
                let l = specs[0].2.len() as i64 + (want - p);
                specs[0].2 = rng.bytes(l.max(1) as usize);
                continue;
            }
        }
        break;
    }
    if cfg.version == 43 {
        // a version-3 archive with the extended 208-byte header and its digest block (the header parser knows this shape):
        // the builder's V4 output with the version field rewritten, no HET/BET tables, header digest re-sealed
        use md5::{Digest, Md5};
        let mut bytes = std::fs::read(path).map_err(|e| e.to_string())?;
        if bytes.len() < 208 || u32::from_le_bytes([bytes[4], bytes[5], bytes[6], bytes[7]]) != 208 {
            return Err("V4 archive without a 208-byte header".into());
        }
        bytes[0x0C] = 2;
        bytes[0x34..0x44].fill(0);
        bytes[0x5C..0x6C].fill(0);
        let digest: [u8; 16] = Md5::digest(&bytes[..192]).into();
        bytes[192..208].copy_from_slice(&digest);
        std::fs::write(path, &bytes).map_err(|e| e.to_string())?;
    }
    let ao = cfg.prefix as usize;
    if ao != 0 {
        // embed the finished archive behind `prefix` bytes of foreign data (no MPQ magic on any 512-byte boundary of it)
        if ao % 512 != 0 {
            return Err(format!("prefix {ao} is not a multiple of 512"));
        }
        let arc = std::fs::read(path).map_err(|e| e.to_string())?;
        let mut whole: Vec<u8> = (0..ao).map(|i| ((i * 13 + 5) & 0xFF) as u8).collect();
        whole.extend_from_slice(&arc);
        std::fs::write(path, &whole).map_err(|e| e.to_string())?;
    }
    let mut bytes = std::fs::read(path).map_err(|e| e.to_string())?;
    let mut a = Archive::open(path).map_err(|e| format!("open of fresh archive failed: {e}"))?;
    if a.archive_offset() as usize != ao {
        return Err(format!("the archive was placed at file offset {ao}, the library found it at {}", a.archive_offset()));
    }
    let hdr = a.header().clone();
    let header_size = hdr.header_size as usize;
    let mut files: Vec<StoredFile> = Vec::new();
    let mut all_specs: Vec<(String, &'static str, Vec<u8>)> = specs.iter().map(|s| (s.0.clone(), s.1, s.2.clone())).collect();
    all_specs.push(("(listfile)".into(), "special", vec![]));
    if cfg.attr == 1 || cfg.attr == 2 {
        all_specs.push(("(attributes)".into(), "special", vec![]));
    } else if a.find_file("(attributes)").map_err(|e| e.to_string())?.is_some() {
        return Err("an (attributes) file although AttributesOption::None was set".into());
    }
    for (name, shape, data) in all_specs {
        let fi = a.find_file(&name).map_err(|e| format!("find_file {name}: {e}"))?.ok_or(format!("fresh archive lacks {name}"))?;
        let (pos, csize, fsize, flags) = (fi.file_pos as usize, fi.compressed_size as usize, fi.file_size as usize, fi.flags);
        let nsec = fsize.div_ceil(sector);
        let single = flags & FLAG_SINGLE_UNIT != 0 || flags & FLAG_COMPRESS == 0;
        let crc_extra = if flags & FLAG_SECTOR_CRC == 0 {
            0
        } else if single {
            4
        } else {
            4 * nsec
        };
        files.push(StoredFile { name, shape, data, pos, csize, fsize, flags, block_index: fi.block_index, stored: csize + crc_extra });
    }
    // ---- sanity of the layout assumptions: the blocks tile [header, first table)
    let mut order: Vec<usize> = (0..files.len()).collect();
    order.sort_by_key(|&i| files[i].pos);
    let hash_pos = ao + hdr.get_hash_table_pos() as usize;
    let block_pos = ao + hdr.get_block_table_pos() as usize;
    let ext = [hdr.het_table_pos, hdr.bet_table_pos].iter().filter_map(|p| p.filter(|&x| x != 0)).map(|x| ao + x as usize).min();
    let data_end = ext.unwrap_or(hash_pos).min(hash_pos);
    let mut cur = ao + header_size;
    for &i in &order {
        if files[i].stored == 0 && files[i].shape == "empty" {
            continue; // occupies no bytes: wherever the block table places it
        }
        if files[i].pos != cur {
            return Err(format!("region map: block of {} starts at {} but the previous block ended at {cur}", files[i].name, files[i].pos));
        }
        cur += files[i].stored;
    }
    // (version code 43: the HET/BET tables of the V4 build are still there, unreferenced, between the blocks and the tables)
    if cur != data_end && !(cfg.version == 43 && cur < data_end) {
        return Err(format!("region map: blocks end at {cur}, tables start at {data_end}"));
    }
    // ---- regions
    let mut regions: Vec<Region> = Vec::new();
    for (i, f) in files.iter().enumerate() {
        if f.shape == "special" || f.shape == "empty" {
            continue;
        }
        let single = f.flags & FLAG_SINGLE_UNIT != 0;
        let crc = f.flags & FLAG_SECTOR_CRC != 0;
        if f.shape == "signature" {
            regions.push(Region { kind: "sig_header", file: Some(i), ranges: vec![(f.pos, f.pos + 8)] });
            regions.push(Region { kind: "signature", file: Some(i), ranges: vec![(f.pos + 8, f.pos + 72)] });
            continue;
        }
        if single {
            regions.push(Region { kind: "file_data", file: Some(i), ranges: vec![(f.pos, f.pos + f.csize)] });
            if crc {
                regions.push(Region { kind: "unit_crc", file: Some(i), ranges: vec![(f.pos + f.csize, f.pos + f.csize + 4)] });
            }
        } else {
            let nsec = f.fsize.div_ceil(sector);
            let t_end = f.pos + 4 * (nsec + 1);
            regions.push(Region { kind: "sector_table", file: Some(i), ranges: vec![(f.pos, t_end)] });
            let c_end = if crc { t_end + 4 * nsec } else { t_end };
            if crc {
                regions.push(Region { kind: "crc_table", file: Some(i), ranges: vec![(t_end, c_end)] });
            }
            regions.push(Region { kind: "file_data", file: Some(i), ranges: vec![(c_end, f.pos + f.stored)] });
            if f.flags & FLAG_ENCRYPTED == 0 {
                // an unencrypted sector table must point at the first sector exactly where the map puts it
                let first = u32::from_le_bytes([bytes[f.pos], bytes[f.pos + 1], bytes[f.pos + 2], bytes[f.pos + 3]]) as usize;
                if f.pos + first != c_end {
                    return Err(format!("region map: sector table of {} says data starts at +{first}, map says +{}", f.name, c_end - f.pos));
                }
            }
        }
    }
    if let Some(f) = files.iter().find(|f| f.name == "(attributes)") {
        let cnt = (hdr.block_table_size as usize).saturating_sub(1);
        let flags = u32::from_le_bytes([bytes[f.pos + 4], bytes[f.pos + 5], bytes[f.pos + 6], bytes[f.pos + 7]]);
        let mut o = f.pos + 8;
        let mut parts: Vec<Region> = vec![Region { kind: "attr_header", file: None, ranges: vec![(f.pos, f.pos + 8)] }];
        for (bit, width, kind) in [(1u32, 4usize, "attr_crc32"), (2, 8, "attr_filetime"), (4, 16, "attr_md5")] {
            if flags & bit != 0 {
                parts.push(Region { kind, file: None, ranges: vec![(o, o + width * cnt)] });
                o += width * cnt;
            }
        }
        if o == f.pos + f.csize && f.flags & (FLAG_COMPRESS | FLAG_ENCRYPTED) == 0 {
            regions.extend(parts);
        } else {
            regions.push(Region { kind: "attributes", file: None, ranges: vec![(f.pos, f.pos + f.csize)] });
        }
    }
    let hash_len = hdr.v4_data.as_ref().map(|v| v.hash_table_size_64 as usize).unwrap_or(16 * hdr.hash_table_size as usize);
    let block_len = hdr.v4_data.as_ref().map(|v| v.block_table_size_64 as usize).unwrap_or(16 * hdr.block_table_size as usize);
    if hash_pos + hash_len > bytes.len() || block_pos + block_len > bytes.len() {
        return Err("region map: tables beyond the end of the file".into());
    }
    regions.push(Region { kind: "hash_table", file: None, ranges: vec![(hash_pos, hash_pos + hash_len)] });
    regions.push(Region { kind: "block_table", file: None, ranges: vec![(block_pos, block_pos + block_len)] });
    if cfg.version >= 4 && header_size == 208 {
        regions.push(Region { kind: "v4_header", file: None, ranges: vec![(ao, ao + 192)] });
        regions.push(Region { kind: "v4_header_digest", file: None, ranges: vec![(ao + 192, ao + 208)] });
        regions.push(Region { kind: "v4_digests", file: None, ranges: vec![(ao + 112, ao + 208)] });
        if let Some(e) = ext {
            if e < hash_pos {
                regions.push(Region { kind: "het_bet_tables", file: None, ranges: vec![(e, hash_pos)] });
            }
        }
    } else {
        regions.push(Region { kind: "header", file: None, ranges: vec![(ao, ao + header_size)] });
    }
    if ao != 0 {
        regions.push(Region { kind: "prefix", file: None, ranges: vec![(0, ao)] });
    }
    let baseline_md5 = if cfg.version >= 4 { a.get_info().ok().and_then(|i| i.md5_status) } else { None };
    drop(a);
    // ---- signing (with the library's own function, over the file exactly as Archive::verify_signature will hash it)
    if cfg.signed != 0 {
        let si = files.iter().position(|f| f.shape == "signature").unwrap();
        let (spos, slen) = (files[si].pos, files[si].csize);
        if slen != 72 || files[si].flags & (FLAG_COMPRESS | FLAG_ENCRYPTED) != 0 {
            return Err(format!("(signature) is not stored as 72 plain bytes (csize {slen}, flags {:08x})", files[si].flags));
        }
        if ao + hdr.archive_size as usize != bytes.len() {
            return Err(format!("archive offset {ao} + header archive_size {} != file length {}", hdr.archive_size, bytes.len()));
        }
        // positions are absolute file positions, exactly as Archive::verify_signature passes them
        let info = SignatureInfo::new_weak(ao as u64, hdr.archive_size as u64, spos as u64, 72, vec![]);
        let sig = generate_weak_signature(std::io::Cursor::new(&bytes), &info).map_err(|e| format!("generate_weak_signature: {e}"))?;
        if sig.len() != 72 {
            return Err(format!("generate_weak_signature returned {} bytes", sig.len()));
        }
        bytes[spos..spos + 72].copy_from_slice(&sig);
        files[si].data = sig;
        std::fs::write(path, &bytes).map_err(|e| e.to_string())?;
        // everything that is hashed: the whole file except the signature file
        let other: Vec<(usize, usize)> = vec![(ao + header_size, spos), (spos + 72, data_end)];
        regions.push(Region { kind: "stored_files", file: None, ranges: other });
    }
    Ok(Built { path: path.to_path_buf(), bytes, files, regions, sector, baseline_md5 })
}

// -------------------------------------------------------------- corruptions ----

pub const CK_QUICK: &[&str] = &["x01"];
pub const CK_THOROUGH: &[&str] = &["x01", "x80", "z00", "zff", "b2"];

/// One alteration = list of (absolute offset, new byte). `ck`: x01 / x80 = xor, z00 / zff = overwrite, b2 = two adjacent bytes inverted.
pub fn alterations(bytes: &[u8], ranges: &[(usize, usize)], ck: &str, stride: usize, phase: usize) -> Vec<Vec<(usize, u8)>> {
    let mut out = Vec::new();
    let mut k = 0usize;
    for &(s, e) in ranges {
        for o in s..e {
            k += 1;
            if (k - 1) % stride != phase % stride {
                continue;
            }
            let old = bytes[o];
            let alt: Vec<(usize, u8)> = match ck {
                "x01" => vec![(o, old ^ 0x01)],
                "x80" => vec![(o, old ^ 0x80)],
                "z00" => vec![(o, 0x00)],
                "zff" => vec![(o, 0xFF)],
                _ => {
                    if o + 1 < e {
                        vec![(o, !old), (o + 1, !bytes[o + 1])]
                    } else {
                        vec![(o, !old)]
                    }
                }
            };
            out.push(alt);
        }
    }
    out
}

pub fn is_noop(bytes: &[u8], alt: &[(usize, u8)]) -> bool {
    alt.iter().all(|&(o, v)| bytes[o] == v)
}

/// Applies alterations to the archive file in place and puts the original bytes back.
pub struct Patcher<'a> {
    f: std::fs::File,
    orig: &'a [u8],
}

impl<'a> Patcher<'a> {
    pub fn new(path: &Path, orig: &'a [u8]) -> std::io::Result<Self> {
        Ok(Patcher { f: std::fs::OpenOptions::new().write(true).open(path)?, orig })
    }
    pub fn apply(&self, alt: &[(usize, u8)]) {
        for &(o, v) in alt {
            self.f.write_all_at(&[v], o as u64).expect("patch write");
        }
    }
    pub fn restore(&self, alt: &[(usize, u8)]) {
        for &(o, _) in alt {
            self.f.write_all_at(&[self.orig[o]], o as u64).expect("restore write");
        }
    }
}

pub enum Verdict {
    Detected(String),
    Harmless,
    Undetected(Value),
    Crash(String),
}

impl Verdict {
    fn encode(&self) -> String {
        match self {
            Verdict::Detected(by) => json!({"v": "D", "x": by}),
            Verdict::Harmless => json!({"v": "H"}),
            Verdict::Undetected(d) => json!({"v": "U", "x": d}),
            Verdict::Crash(s) => json!({"v": "C", "x": s}),
        }
        .to_string()
    }
    fn decode(s: &str) -> Option<Verdict> {
        let v: Value = serde_json::from_str(s).ok()?;
        Some(match v["v"].as_str()? {
            "D" => Verdict::Detected(v["x"].as_str()?.to_string()),
            "H" => Verdict::Harmless,
            "U" => Verdict::Undetected(v["x"].clone()),
            _ => Verdict::Crash(v["x"].as_str()?.to_string()),
        })
    }
}

/// Address-space limit of an isolated probe. The archives are at most ~70 KiB; a reader that asks for more than this
/// while handling one corrupted byte is aborted and tallied (`abort_on_corruption|oversized-request`), never counted as detected or harmless.
pub const PROBE_AS_LIMIT: u64 = 1 << 30;

/// Run one probe in a forked child (the worker is single-threaded): a process abort (allocation failure, panic inside
/// `extern "C"`, stack overflow) becomes `Verdict::Crash("abort:<class>")` instead of killing the worker.
static CHILD_ERR: std::sync::OnceLock<Option<std::fs::File>> = std::sync::OnceLock::new();

pub fn isolated(scratch: &Path, f: impl FnOnce() -> Verdict) -> Verdict {
    use std::os::fd::AsRawFd;
    // one append-only file per worker receives the children's stderr (never truncated: truncate+rewrite forces a flush on ext4)
    let errfile = CHILD_ERR.get_or_init(|| std::fs::OpenOptions::new().create(true).append(true).read(true).open(scratch.join(format!("c10-child-stderr-{}.txt", std::process::id()))).ok());
    let err_from = errfile.as_ref().and_then(|f| f.metadata().ok()).map(|m| m.len()).unwrap_or(0);
    unsafe {
        let mut fds = [0i32; 2];
        if libc::pipe(fds.as_mut_ptr()) != 0 {
            return Verdict::Crash("harness:pipe-failed".into());
        }
        let pid = libc::fork();
        if pid < 0 {
            libc::close(fds[0]);
            libc::close(fds[1]);
            return Verdict::Crash("harness:fork-failed".into());
        }
        if pid == 0 {
            libc::close(fds[0]);
            if let Some(ef) = errfile {
                libc::dup2(ef.as_raw_fd(), 2);
            }
            let lim = libc::rlimit { rlim_cur: PROBE_AS_LIMIT, rlim_max: PROBE_AS_LIMIT };
            libc::setrlimit(libc::RLIMIT_AS, &lim);
            let s = f().encode();
            let b = s.as_bytes();
            let mut off = 0;
            while off < b.len() {
                let n = libc::write(fds[1], b[off..].as_ptr() as *const libc::c_void, b.len() - off);
                if n <= 0 {
                    break;
                }
                off += n as usize;
            }
            libc::_exit(0);
        }
        libc::close(fds[1]);
        let mut out = Vec::new();
        let mut buf = [0u8; 4096];
        loop {
            let n = libc::read(fds[0], buf.as_mut_ptr() as *mut libc::c_void, buf.len());
            if n <= 0 {
                break;
            }
            out.extend_from_slice(&buf[..n as usize]);
        }
        libc::close(fds[0]);
        let mut status = 0i32;
        libc::waitpid(pid, &mut status, 0);
        if libc::WIFEXITED(status) && libc::WEXITSTATUS(status) == 0 {
            if let Some(v) = std::str::from_utf8(&out).ok().and_then(Verdict::decode) {
                return v;
            }
            return Verdict::Crash("harness:child-answer-unreadable".into());
        }
        let err = match errfile {
            Some(ef) => {
                let len = ef.metadata().map(|m| m.len()).unwrap_or(err_from);
                let mut buf = vec![0u8; (len.saturating_sub(err_from)).min(8192) as usize];
                let _ = ef.read_at(&mut buf, err_from);
                String::from_utf8_lossy(&buf).into_owned()
            }
            None => String::new(),
        };
        let class = if err.contains("memory allocation of") {
            "oversized-request".to_string()
        } else if err.contains("cannot unwind") {
            "panic-in-extern-C".to_string()
        } else if err.contains("overflowed its stack") {
            "stack-overflow".to_string()
        } else {
            let sig = if libc::WIFSIGNALED(status) {
                match libc::WTERMSIG(status) {
                    libc::SIGSEGV => "SIGSEGV",
                    libc::SIGABRT => "SIGABRT",
                    libc::SIGKILL => "SIGKILL",
                    _ => "signal",
                }
            } else {
                "exit-nonzero"
            };
            // first line of what the child said, digits collapsed
            let line: String = err.lines().find(|l| !l.trim().is_empty()).unwrap_or("").chars().take(90).collect();
            let mut norm = String::new();
            let mut in_num = false;
            for ch in line.chars() {
                if ch.is_ascii_digit() {
                    if !in_num {
                        norm.push('N');
                    }
                    in_num = true;
                } else {
                    in_num = false;
                    norm.push(ch);
                }
            }
            if norm.contains("failed to initiate panic") { "panic-could-not-unwind".to_string() } else { format!("{sig}:{norm}") }
        };
        Verdict::Crash(format!("abort:{class}"))
    }
}

#[derive(Default)]
pub struct Tally {
    pub probes: u64,
    pub noop: u64,
    pub detected: u64,
    pub harmless: u64,
    pub violated: u64,
    pub crashed: u64,
    pub aborted: BTreeMap<String, u64>,
    pub by: BTreeMap<String, u64>,
    pub first_viol: Option<Value>,
    pub first_crash: Option<String>,
}

impl Tally {
    pub fn add(&mut self, v: Verdict, alt: &[(usize, u8)], region_start: usize, bytes: &[u8]) {
        self.probes += 1;
        match v {
            Verdict::Detected(by) => {
                self.detected += 1;
                *self.by.entry(by).or_insert(0) += 1;
            }
            Verdict::Harmless => self.harmless += 1,
            Verdict::Undetected(d) => {
                self.violated += 1;
                if self.first_viol.is_none() {
                    let a: Vec<Value> = alt.iter().map(|&(o, v)| json!({"archive_offset": o, "region_offset": o as i64 - region_start as i64, "old": bytes[o], "new": v})).collect();
                    self.first_viol = Some(json!({"alteration": a, "observed": d}));
                }
            }
            Verdict::Crash(s) => {
                if s.starts_with("abort:") || s.starts_with("harness:") {
                    *self.aborted.entry(s).or_insert(0) += 1;
                } else {
                    self.crashed += 1;
                    if self.first_crash.is_none() {
                        self.first_crash = Some(s);
                    }
                }
            }
        }
    }
    pub fn flush(&self, c: &mut Case, prefix: &str) {
        c.count("offsets_corrupted", self.probes);
        c.count(&format!("corrupted|{prefix}"), self.probes);
        c.count("verdict_detected", self.detected);
        c.count("verdict_harmless", self.harmless);
        c.count("verdict_undetected_and_different", self.violated);
        c.count(&format!("detected|{prefix}"), self.detected);
        c.count(&format!("harmless|{prefix}"), self.harmless);
        if self.violated > 0 {
            c.count(&format!("violated|{prefix}"), self.violated);
        }
        c.count("alterations_skipped_no_change", self.noop);
        for (k, n) in &self.by {
            c.count(&format!("detected_by|{k}"), *n);
        }
        for (k, n) in &self.aborted {
            if k.starts_with("harness:") {
                c.count(&format!("probe_not_executed|{k}"), *n);
            } else {
                c.count("abort_on_corruption", *n);
                c.count(&format!("abort_on_corruption|{}|{prefix}", &k[6..]), *n);
            }
        }
        if self.crashed > 0 {
            c.count("crash_on_corruption", self.crashed);
            c.count(&format!("crash_on_corruption|{prefix}"), self.crashed);
            c.note(json!({"crash_on_corruption": self.first_crash, "n": self.crashed}));
        }
    }
}

// ------------------------------------------------------------------- probes ----

fn err_class(e: &wow_mpq::Error) -> &'static str {
    match e {
        wow_mpq::Error::ChecksumMismatch { .. } => "read:ChecksumMismatch",
        _ => "read:error",
    }
}

/// sector / unit checksums: the verifier is read_file itself.
pub fn probe_read(path: &Path, f: &StoredFile) -> Verdict {
    let r = trap(|| -> Result<Result<Vec<u8>, &'static str>, String> {
        let mut a = match Archive::open(path) {
            Ok(a) => a,
            Err(_) => return Ok(Err("open:error")),
        };
        Ok(match a.read_file(&f.name) {
            Ok(d) => Ok(d),
            Err(e) => Err(err_class(&e)),
        })
    });
    match r {
        Err(p) => Verdict::Crash(p.sig()),
        Ok(Err(s)) => Verdict::Crash(s),
        Ok(Ok(Err(by))) => Verdict::Detected(by.into()),
        Ok(Ok(Ok(d))) => {
            if d == f.data {
                Verdict::Harmless
            } else {
                Verdict::Undetected(json!({"read_file": "Ok", "want": brief(&f.data), "got": brief(&d), "first_diff": first_diff(&d, &f.data)}))
            }
        }
    }
}

pub fn md5_fields(s: &Md5Status) -> [(&'static str, bool); 6] {
    [("hash_table", s.hash_table_valid), ("block_table", s.block_table_valid), ("hi_block_table", s.hi_block_table_valid), ("het_table", s.het_table_valid), ("bet_table", s.bet_table_valid), ("header", s.header_valid)]
}

/// All user files through one opened archive: Err(by) when any read fails, Ok(None) when all identical, Ok(Some(witness)) when one differs.
fn read_all(a: &mut Archive, b: &Built) -> Result<Option<Value>, String> {
    let mut differs = None;
    for (_, f) in b.user_files() {
        match a.read_file(&f.name) {
            Err(e) => return Err(err_class(&e).to_string()),
            Ok(d) => {
                if d != f.data && differs.is_none() {
                    differs = Some(json!({"file": f.name, "shape": f.shape, "want": brief(&f.data), "got": brief(&d), "first_diff": first_diff(&d, &f.data)}));
                }
            }
        }
    }
    Ok(differs)
}

/// version-4 digests: open + get_info().md5_status; "reports failure" = a digest that was valid on the intact archive is now
/// invalid (or open / get_info fails). If the status is unchanged the content of every file is compared.
pub fn probe_v4(b: &Built) -> Verdict {
    let base = b.baseline_md5.clone();
    let r = trap(|| -> Verdict {
        let mut a = match Archive::open(&b.path) {
            Ok(a) => a,
            Err(_) => return Verdict::Detected("open:error".into()),
        };
        let info = match a.get_info() {
            Ok(i) => i,
            Err(_) => return Verdict::Detected("get_info:error".into()),
        };
        let mut status = "md5_status:unchanged";
        match (&info.md5_status, &base) {
            (Some(now), Some(was)) => {
                let (n, w) = (md5_fields(now), md5_fields(was));
                for k in 0..6 {
                    if w[k].1 && !n[k].1 {
                        return Verdict::Detected(format!("md5_status:{}", n[k].0));
                    }
                }
            }
            (None, _) => status = "md5_status:absent",
            _ => {}
        }
        match read_all(&mut a, b) {
            Err(by) => Verdict::Detected(by),
            Ok(None) => Verdict::Harmless,
            Ok(Some(w)) => Verdict::Undetected(json!({"verify": status, "differs": w})),
        }
    });
    match r {
        Ok(v) => v,
        Err(p) => Verdict::Crash(p.sig()),
    }
}

/// weak signature: anything but WeakValid counts as "stopped verifying".
pub fn probe_signed(b: &Built) -> Verdict {
    let r = trap(|| -> Verdict {
        let mut a = match Archive::open(&b.path) {
            Ok(a) => a,
            Err(_) => return Verdict::Detected("open:error".into()),
        };
        match a.verify_signature() {
            Err(_) => Verdict::Detected("verify_signature:error".into()),
            Ok(SignatureStatus::WeakValid) => Verdict::Undetected(json!({"verify_signature": "WeakValid"})),
            Ok(s) => Verdict::Detected(format!("verify_signature:{s:?}")),
        }
    });
    match r {
        Ok(v) => v,
        Err(p) => Verdict::Crash(p.sig()),
    }
}

// -------------------------------------------------------------------- cases ----

#[derive(Clone, Debug)]
pub struct Spec {
    /// "sector-crc" | "sector-crc-paired" | "v4-digest" | "v4-digest-paired" | "weak-signature" | "sig-fn"
    pub kind: &'static str,
    pub cfg: ArcCfg,
    pub file: usize,
    pub region: &'static str,
    pub ck: &'static str,
    pub n: u64,
}

pub const NOFILE: usize = usize::MAX;

/// Regions whose corruption feeds sizes / offsets to the reader (it may then request gigabytes or abort): probed in a
/// forked child under an address-space limit, see `isolated`.
pub fn risky_region(region: &str) -> bool {
    matches!(region, "sector_table" | "v4_header" | "v4_header_digest" | "v4_digests" | "hash_table" | "block_table" | "het_bet_tables" | "header")
}

pub fn file_regions(shape_idx: usize) -> &'static [&'static str] {
    if shape_idx == 0 { &["file_data", "unit_crc"] } else { &["sector_table", "crc_table", "file_data"] }
}

pub fn crc_cfgs(thorough: bool, attrs: &[u8]) -> Vec<ArcCfg> {
    let mut v = Vec::new();
    let vs: &[(u8, u16)] = if thorough { &[(1, 0), (2, 3), (3, 0), (4, 0), (2, 0)] } else { &[(1, 0), (2, 3)] };
    for &(version, shift) in vs {
        for &method in &[0u8, 0x02] {
            for &enc in &[false, true] {
                for &attr in attrs {
                    v.push(ArcCfg { version, shift, method, enc, attr, tblcomp: false, signed: 0, prefix: 0, fixkey: false, tblcodec: 0 });
                }
            }
        }
    }
    v
}

fn specs(thorough: bool) -> Vec<Spec> {
    let cks = if thorough { CK_THOROUGH } else { CK_QUICK };
    let mut v = Vec::new();
    // K1/K2 sector and unit checksums
    for cfg in crc_cfgs(thorough, &[1]) {
        for file in 0..3 {
            for &region in file_regions(file) {
                for &ck in cks {
                    v.push(Spec { kind: "sector-crc", cfg: cfg.clone(), file, region, ck, n: 0 });
                }
            }
        }
        v.push(Spec { kind: "sector-crc-paired", cfg: cfg.clone(), file: 0, region: "unit_crc=0+file_data", ck: "x01", n: 0 });
    }
    // K3/K4 version-4 digests
    let v4: &[(bool, bool)] = if thorough { &[(false, false), (true, true), (false, true), (true, false)] } else { &[(false, false), (true, true)] };
    for &(enc, tblcomp) in v4 {
        let cfg = ArcCfg { version: 4, shift: 0, method: 0x02, enc, attr: 1, tblcomp, signed: 0, prefix: 0, fixkey: false, tblcodec: 0 };
        for &region in &["v4_header", "v4_header_digest", "hash_table", "block_table", "het_bet_tables"] {
            for &ck in cks {
                v.push(Spec { kind: "v4-digest", cfg: cfg.clone(), file: NOFILE, region, ck, n: 0 });
            }
        }
        for &region in &["hash_table", "block_table"] {
            v.push(Spec { kind: "v4-digest-paired", cfg: cfg.clone(), file: NOFILE, region, ck: "x01", n: 0 });
        }
    }
    // K5 signed archives
    let mut sg = vec![
        ArcCfg { version: 1, shift: 0, method: 0x02, enc: false, attr: 0, tblcomp: false, signed: 1, prefix: 0, fixkey: false, tblcodec: 0 },
        ArcCfg { version: 1, shift: 8, method: 0, enc: false, attr: 0, tblcomp: false, signed: 2, prefix: 0, fixkey: false, tblcodec: 0 },
    ];
    if thorough {
        sg.push(ArcCfg { version: 2, shift: 0, method: 0, enc: true, attr: 0, tblcomp: false, signed: 1, prefix: 0, fixkey: false, tblcodec: 0 });
        sg.push(ArcCfg { version: 1, shift: 3, method: 0x02, enc: true, attr: 0, tblcomp: false, signed: 1, prefix: 0, fixkey: false, tblcodec: 0 });
    }
    for cfg in sg {
        for &region in &["header", "stored_files", "hash_table", "block_table", "signature", "sig_header"] {
            for &ck in cks {
                v.push(Spec { kind: "weak-signature", cfg: cfg.clone(), file: NOFILE, region, ck, n: 0 });
            }
        }
    }
    // K6 signature functions
    let nsig = if thorough { 600 } else { 200 };
    for n in 0..nsig {
        v.push(Spec { kind: "sig-fn", cfg: ArcCfg { version: 0, shift: 0, method: 0, enc: false, attr: 0, tblcomp: false, signed: 0, prefix: 0, fixkey: false, tblcodec: 0 }, file: NOFILE, region: "-", ck: "bitflip", n });
    }
    // K7 the same kinds of metadata in archives that do not start at file offset 0 (embedded behind 512-aligned foreign
    // data): every verifier has to add the archive offset to what it reads. Appended last so that the indices above stay put.
    let v4p: &[(bool, bool, u32)] = if thorough { &[(false, false, 512), (true, true, 1536)] } else { &[(false, false, 512)] };
    for &(enc, tblcomp, prefix) in v4p {
        let cfg = ArcCfg { version: 4, shift: 0, method: 0x02, enc, attr: 1, tblcomp, signed: 0, prefix, fixkey: false, tblcodec: 0 };
        for &region in &["v4_header", "v4_header_digest", "hash_table", "block_table", "het_bet_tables"] {
            for &ck in cks {
                v.push(Spec { kind: "v4-digest", cfg: cfg.clone(), file: NOFILE, region, ck, n: 0 });
            }
        }
        for &region in &["hash_table", "block_table"] {
            v.push(Spec { kind: "v4-digest-paired", cfg: cfg.clone(), file: NOFILE, region, ck: "x01", n: 0 });
        }
    }
    for cfg in prefixed_crc_cfgs(thorough, 1) {
        for file in 0..3 {
            for &region in file_regions(file) {
                for &ck in cks {
                    v.push(Spec { kind: "sector-crc", cfg: cfg.clone(), file, region, ck, n: 0 });
                }
            }
        }
        v.push(Spec { kind: "sector-crc-paired", cfg: cfg.clone(), file: 0, region: "unit_crc=0+file_data", ck: "x01", n: 0 });
    }
    let sgp = ArcCfg { version: 1, shift: 0, method: 0x02, enc: false, attr: 0, tblcomp: false, signed: 1, prefix: 1024, fixkey: false, tblcodec: 0 };
    let sregs: &[&'static str] = if thorough { &["header", "stored_files", "hash_table", "block_table", "signature", "sig_header"] } else { &["header", "signature"] };
    for &region in sregs {
        for &ck in cks {
            v.push(Spec { kind: "weak-signature", cfg: sgp.clone(), file: NOFILE, region, ck, n: 0 });
        }
    }
    // K8 the digest block in a version-3 archive with the extended header (version code 43 = "built as 4, labelled 3")
    let v43: &[bool] = if thorough { &[false, true] } else { &[false] };
    for &enc in v43 {
        let cfg = ArcCfg { version: 43, shift: 0, method: 0x02, enc, attr: 1, tblcomp: false, signed: 0, prefix: 0, fixkey: false, tblcodec: 0 };
        for &region in &["v4_header", "v4_header_digest", "hash_table", "block_table"] {
            for &ck in cks {
                v.push(Spec { kind: "v4-digest", cfg: cfg.clone(), file: NOFILE, region, ck, n: 0 });
            }
        }
        for &region in &["hash_table", "block_table"] {
            v.push(Spec { kind: "v4-digest-paired", cfg: cfg.clone(), file: NOFILE, region, ck: "x01", n: 0 });
        }
    }
    // K9 codecs and key derivations beyond none / zlib / the plain key (item: "codec and key axes held fixed")
    for cfg in codec_cfgs(thorough, 1) {
        push_crc_specs(&mut v, &cfg, thorough, cks);
    }
    // K10 sector checksums without an (attributes) file: generate_crcs(true) + AttributesOption::None
    let k10: &[(u8, u16, u8, bool)] = if thorough { &[(1, 0, 0x02, false), (2, 3, 0, true), (4, 0, 0x02, true)] } else { &[(1, 0, 0x02, false)] };
    for &(version, shift, method, enc) in k10 {
        let cfg = ArcCfg { version, shift, method, enc, attr: 3, tblcomp: false, signed: 0, prefix: 0, fixkey: false, tblcodec: 0 };
        push_crc_specs(&mut v, &cfg, thorough, cks);
    }
    // K11 version-4 digests over HET/BET tables compressed with a codec other than the default (table_compression)
    let k11: &[(u8, bool)] = if thorough { &[(0x10, false), (0x12, true)] } else { &[(0x10, false)] };
    for &(tblcodec, enc) in k11 {
        let cfg = ArcCfg { version: 4, shift: 0, method: 0x02, enc, attr: 1, tblcomp: true, signed: 0, prefix: 0, fixkey: false, tblcodec };
        let regs: &[&'static str] = if thorough { &["v4_header", "v4_header_digest", "hash_table", "block_table", "het_bet_tables"] } else { &["v4_header_digest", "het_bet_tables"] };
        for &region in regs {
            for &ck in cks {
                v.push(Spec { kind: "v4-digest", cfg: cfg.clone(), file: NOFILE, region, ck, n: 0 });
            }
        }
        if thorough {
            for &region in &["hash_table", "block_table"] {
                v.push(Spec { kind: "v4-digest-paired", cfg: cfg.clone(), file: NOFILE, region, ck: "x01", n: 0 });
            }
        }
    }
    v
}

/// The sector / unit checksum cases of one configuration. thorough: every file shape x every region x every corruption kind;
/// quick: the single-unit file (data, checksum, checksum zeroed + data) and the data of the 9-sector file.
fn push_crc_specs(v: &mut Vec<Spec>, cfg: &ArcCfg, thorough: bool, cks: &[&'static str]) {
    for file in 0..3 {
        for &region in file_regions(file) {
            if !thorough && !(file == 0 || (file == 2 && region == "file_data")) {
                continue;
            }
            for &ck in cks {
                v.push(Spec { kind: "sector-crc", cfg: cfg.clone(), file, region, ck, n: 0 });
            }
        }
    }
    v.push(Spec { kind: "sector-crc-paired", cfg: cfg.clone(), file: 0, region: "unit_crc=0+file_data", ck: "x01", n: 0 });
}

/// K9: bzip2 / LZMA / sparse sectors and fix-key encryption under checksums (PKWare is left out: its decoder is a known
/// finding of C03/C05). (version, sector shift, codec, encrypted, fix key)
pub fn codec_cfgs(thorough: bool, attr: u8) -> Vec<ArcCfg> {
    let all: &[(u8, u16, u8, bool, bool)] = &[
        (1, 0, 0x10, false, false),
        (2, 3, 0x12, true, true),
        (1, 0, 0x20, false, false),
        (2, 0, 0x02, true, true),
        (2, 3, 0x10, true, false),
        (1, 0, 0x12, false, false),
        (4, 0, 0x20, true, true),
        (1, 3, 0, true, true),
        (3, 0, 0x10, true, true),
        (4, 0, 0x12, false, false),
    ];
    all[..if thorough { all.len() } else { 4 }].iter().map(|&(version, shift, method, enc, fixkey)| ArcCfg { version, shift, method, enc, attr, tblcomp: false, signed: 0, prefix: 0, fixkey, tblcodec: 0 }).collect()
}

/// Archives with checksums / attributes placed behind a prefix (K7): one configuration in quick, three in thorough.
pub fn prefixed_crc_cfgs(thorough: bool, attr: u8) -> Vec<ArcCfg> {
    let all: &[(u8, u16, u8, bool, u32)] = &[(1, 0, 0x02, false, 1024), (2, 3, 0, true, 512), (4, 0, 0x02, true, 2048)];
    all[..if thorough { 3 } else { 1 }].iter().map(|&(version, shift, method, enc, prefix)| ArcCfg { version, shift, method, enc, attr, tblcomp: false, signed: 0, prefix, fixkey: false, tblcodec: 0 }).collect()
}

/// Trigger predicate appended to signatures of archives that do not start at file offset 0 (nothing for the ordinary layout).
pub fn off_sfx(cfg: &ArcCfg) -> &'static str {
    if cfg.prefix == 0 { "" } else { "|archive-offset>0" }
}

/// quick: every 7th offset of bulk regions (every 37th in 4 KiB-sector archives; phase from the seed), every offset of
/// tables; thorough: every offset (multi-region alterations in 4 KiB-sector archives: every 5th).
pub fn stride_for(region: &str, thorough: bool, cfg: &ArcCfg) -> usize {
    let bulk = region.contains("file_data") || region == "stored_files";
    let multi_region = region.contains('+');
    match (thorough, bulk, cfg.shift >= 3) {
        (_, false, _) => 1,
        (true, true, true) if multi_region => 5,
        (true, true, _) => 1,
        (false, true, true) => 37,
        (false, true, false) => 7,
    }
}

fn main() {
    let mut run = Run::new();
    let thorough = run.args.thorough();
    let dir = PathBuf::from(&run.args.scratch);
    let all = specs(thorough);
    for (i, sp) in all.iter().enumerate() {
        let idx = i as u64;
        if !run.want(idx) {
            continue;
        }
        let seed = run.args.seed;
        let mut rng = run.rng(idx, 0);
        if sp.kind == "sig-fn" {
            let (len, class) = sig_len(sp.n, &mut rng);
            let desc = json!({"kind": "sig-fn", "n": sp.n, "len": len, "len_class": class});
            run.case(idx, &format!("sig-fn|{class}"), desc, |c| sig_fn_case(c, len, &mut rng, thorough));
            continue;
        }
        let stride = stride_for(sp.region, thorough, &sp.cfg);
        let phase = rng.usize(stride);
        let shape = if sp.file == NOFILE { "archive" } else { ["single", "3-sector", "9-sector"][sp.file] };
        let class = format!("{}|{}|{}|{}|{}", sp.kind, sp.cfg.label(), shape, sp.region, sp.ck);
        let desc = json!({"kind": sp.kind, "archive": sp.cfg.to_json(), "file_shape": shape, "region": sp.region, "corruption": sp.ck, "stride": stride, "phase": phase});
        let path = dir.join(format!("c10-{idx}.mpq"));
        run.case(idx, &class, desc, |c| {
            let b = match build(&sp.cfg, seed, &path) {
                Ok(b) => b,
                Err(e) => {
                    c.inconclusive(format!("archive generator: {e}"));
                    return;
                }
            };
            match sp.kind {
                "sector-crc" | "sector-crc-paired" => crc_case(c, sp, &b, stride, phase),
                "v4-digest" | "v4-digest-paired" => v4_case(c, sp, &b, stride, phase),
                _ => signed_case(c, sp, &b, stride, phase),
            }
            let _ = std::fs::remove_file(&path);
        });
    }
    run.done();
}

pub fn sweep(c: &mut Case, b: &Built, region_start: usize, alts: Vec<Vec<(usize, u8)>>, extra: &[(usize, u8)], isolate: bool, mut probe: impl FnMut() -> Verdict) -> Tally {
    let scratch = b.path.parent().unwrap_or(Path::new(".")).to_path_buf();
    let mut t = Tally::default();
    let p = match Patcher::new(&b.path, &b.bytes) {
        Ok(p) => p,
        Err(e) => {
            c.inconclusive(format!("cannot patch scratch archive: {e}"));
            return t;
        }
    };
    for mut alt in alts {
        if is_noop(&b.bytes, &alt) {
            t.noop += 1;
            continue;
        }
        alt.extend_from_slice(extra);
        p.apply(&alt);
        let v = if isolate { isolated(&scratch, &mut probe) } else { probe() };
        p.restore(&alt);
        t.add(v, &alt, region_start, &b.bytes);
    }
    t
}

fn crc_case(c: &mut Case, sp: &Spec, b: &Built, stride: usize, phase: usize) {
    let (method, enc) = (method_name(sp.cfg.method), sp.cfg.enc_name());
    // baseline: the intact archive reads back identically (every file, checksums in force)
    for (_, f) in b.user_files() {
        c.count("baseline_verifications", 1);
        if f.flags & FLAG_SECTOR_CRC == 0 {
            c.inconclusive(format!("{} carries no sector checksum flag", f.name));
            return;
        }
        match probe_read(&b.path, f) {
            Verdict::Harmless => {}
            Verdict::Detected(by) => c.violate(format!("intact-fails|sector-crc|read_file|{}|{method}|{enc}{}", f.shape_sig(), off_sfx(&sp.cfg)), format!("reading {} from the unmodified archive fails ({by})", f.name), json!({})),
            Verdict::Undetected(d) => c.violate(format!("intact-differs|sector-crc|read_file|{}|{method}|{enc}{}", f.shape_sig(), off_sfx(&sp.cfg)), format!("{} reads back different from what was added", f.name), d),
            Verdict::Crash(s) => c.violate(format!("intact-fails|sector-crc|read_file|{}|{method}|{enc}|{s}{}", f.shape_sig(), off_sfx(&sp.cfg)), format!("reading {} from the unmodified archive panics", f.name), json!({})),
        }
    }
    if !c.viol.is_empty() {
        return;
    }
    // (the user files only: the zero-length file that archives with attributes also hold is not one of the three shapes)
    let f = &b.user_files().nth(sp.file).map(|x| x.1.clone()).unwrap();
    let fi = b.files.iter().position(|x| x.name == f.name);
    let (rkind, extra): (&str, Vec<(usize, u8)>) = if sp.kind == "sector-crc-paired" {
        // the stored unit checksum is zeroed ("no checksum" in other implementations) AND a data byte is altered
        let r = b.region("unit_crc", fi).unwrap();
        ("file_data", (r.ranges[0].0..r.ranges[0].1).map(|o| (o, 0u8)).collect())
    } else {
        (sp.region, vec![])
    };
    let Some(r) = b.region(rkind, fi) else {
        c.skip(format!("no region {rkind} for {}", f.name));
        c.nontrivial = false;
        return;
    };
    let alts = alterations(&b.bytes, &r.ranges, sp.ck, stride, phase);
    let t = sweep(c, b, r.ranges[0].0, alts, &extra, risky_region(rkind), || probe_read(&b.path, f));
    t.flush(c, &format!("sector-crc|{}|{}", sp.region, f.shape));
    if t.probes == 0 {
        c.nontrivial = false;
    }
    if t.violated > 0 {
        // multi-sector files: the defect (sector checksums never compared) does not depend on encryption -> one signature per (region, method)
        let enc_sig = if f.shape_sig() == "multi-sector" { "any" } else { enc };
        // (and not on where the archive starts: the known multi-sector findings keep their signatures behind a prefix)
        let sfx = if f.shape_sig() == "multi-sector" { "" } else { off_sfx(&sp.cfg) };
        let sig = format!("undetected|sector-crc|{}|{}|{method}|{enc_sig}{sfx}", sp.region, f.shape_sig());
        c.violate(sig, format!("{} of {} alterations ({}) in the {} of the {} file {:?} ({method}, {enc}): read_file returned Ok with content different from the original", t.violated, t.probes, sp.ck, sp.region, f.shape, f.name), t.first_viol.clone().unwrap_or(json!({})));
    }
}

fn v4_case(c: &mut Case, sp: &Spec, b: &Built, stride: usize, phase: usize) {
    let (method, enc) = (method_name(sp.cfg.method), sp.cfg.enc_name());
    c.count("baseline_verifications", 1);
    let Some(base) = &b.baseline_md5 else {
        c.violate(format!("intact-fails|v4-digest|md5_status-absent|archive|{method}|{enc}{}", off_sfx(&sp.cfg)), "get_info().md5_status is None for a freshly built version-4 archive", json!({}));
        return;
    };
    let bad: Vec<&str> = md5_fields(base).iter().filter(|x| !x.1).map(|x| x.0).collect();
    if !bad.is_empty() {
        // recorded, and the sweep goes on relative to this baseline: a digest that is invalid on the intact archive cannot report anything
        c.violate(format!("intact-fails|v4-digest|{}|archive|any|any{}", bad.join("+"), off_sfx(&sp.cfg)), format!("md5_status of the unmodified version-4 archive reports invalid digests: {}", bad.join(", ")), json!({"md5_status": format!("{base:?}")}));
        c.count("v4_baseline_invalid_fields", bad.len() as u64);
    }
    match probe_v4(b) {
        Verdict::Harmless => {}
        _ => {
            c.violate(format!("intact-fails|v4-digest|read_file|archive|{method}|{enc}{}", off_sfx(&sp.cfg)), "the unmodified version-4 archive does not read back identically", json!({}));
            return;
        }
    }
    let extra: Vec<(usize, u8)> = if sp.kind == "v4-digest-paired" {
        // all six digests zeroed ("digest absent" in other implementations) AND a table byte altered
        let r = b.region("v4_digests", None).unwrap();
        (r.ranges[0].0..r.ranges[0].1).map(|o| (o, 0u8)).collect()
    } else {
        vec![]
    };
    let Some(r) = b.region(sp.region, None) else {
        c.skip(format!("no region {}", sp.region));
        c.nontrivial = false;
        return;
    };
    let masked = sp.region == "het_bet_tables" && bad.iter().any(|x| *x == "het_table" || *x == "bet_table");
    let alts = alterations(&b.bytes, &r.ranges, sp.ck, stride, phase);
    let t = sweep(c, b, r.ranges[0].0, alts, &extra, true, || probe_v4(b));
    let rname = if sp.kind == "v4-digest-paired" { format!("digests=0+{}", sp.region) } else { sp.region.to_string() };
    t.flush(c, &format!("v4-digest|{rname}|archive"));
    if masked {
        c.count("v4_probes_under_baseline_invalid_digest", t.probes);
    }
    if t.probes == 0 {
        c.nontrivial = false;
    }
    if t.violated > 0 {
        c.violate(format!("undetected|v4-digest|{rname}|archive|{method}|{enc}{}", off_sfx(&sp.cfg)), format!("{} of {} alterations ({}) of {rname}: open succeeded, md5_status reported nothing new, and a file read back Ok with different content", t.violated, t.probes, sp.ck), t.first_viol.clone().unwrap_or(json!({})));
    }
}

fn signed_case(c: &mut Case, sp: &Spec, b: &Built, stride: usize, phase: usize) {
    let (method, enc) = (method_name(sp.cfg.method), sp.cfg.enc_name());
    let placement = if sp.cfg.signed == 2 { "straddles-64KiB" } else { "inside-unit" };
    c.count("baseline_verifications", 1);
    let base = trap(|| Archive::open(&b.path).and_then(|mut a| a.verify_signature()));
    match base {
        Ok(Ok(SignatureStatus::WeakValid)) => {}
        other => {
            let s = match other {
                Ok(Ok(s)) => format!("{s:?}"),
                Ok(Err(e)) => format!("Err({e})"),
                Err(p) => p.sig(),
            };
            c.violate(format!("intact-fails|weak-signature|verify_signature|{placement}|{method}|{enc}{}", off_sfx(&sp.cfg)), format!("an archive signed with generate_weak_signature does not verify: verify_signature() = {s}"), json!({"archive_len": b.bytes.len(), "signature_pos": b.files.iter().find(|f| f.shape == "signature").map(|f| f.pos)}));
            return;
        }
    }
    // the same signed archive inside a longer file (padding to a block multiple / foreign data behind the archive): the archive,
    // whose extent the header declares, is unmodified and must verify
    // tails 3..5 begin with "NGIS" + 256 bytes: by the format that is a strong-signature block attached to the archive. The
    // archive proper is unmodified and weakly signed, the attached block is not a signature anybody made. Acceptable answers:
    // WeakValid (the block is foreign bytes, the convention of the two tails above) or a *refusal* in the name of the strong
    // signature (StrongInvalid / StrongNoKey: the file claims a strong signature that does not verify - attaching one is a
    // change of the signature metadata). Not acceptable: StrongValid (a forged signature accepted), WeakInvalid / None / an
    // error (the weak verifier misjudging the intact archive because of what follows it).
    let ngis = |n: usize, zero: bool| -> Vec<u8> {
        let mut t = b"NGIS".to_vec();
        t.extend((0..n).map(|i| if zero { 0u8 } else { (i * 31 % 251) as u8 | 1 }));
        t
    };
    let filler = |n: usize| -> Vec<u8> { (0..n).map(|i| (i * 29 % 253) as u8 | 1).collect() };
    let tails: Vec<(&str, Vec<u8>, bool)> = vec![
        ("short-tail", filler(100), false),
        ("padded-to-4096", filler((4096 - b.bytes.len() % 4096) % 4096 + 4096), false),
        ("NGIS+256", ngis(256, false), true),
        ("NGIS+256+more", ngis(256 + 333, false), true),
        ("NGIS+256-zero-bytes", ngis(256, true), true),
    ];
    for (tag, tail, strong_claim) in tails {
        let extra = tail.len();
        let tp = b.path.with_extension(format!("{tag}.mpq"));
        let mut longer = b.bytes.clone();
        longer.extend_from_slice(&tail);
        if std::fs::write(&tp, &longer).is_err() {
            continue;
        }
        c.count("baseline_verifications", 1);
        c.count("signed_archives_followed_by_foreign_bytes", 1);
        let r = trap(|| Archive::open(&tp).and_then(|mut a| a.verify_signature()));
        if strong_claim {
            c.count("signed_archives_followed_by_NGIS_block", 1);
            let name = match &r {
                Ok(Ok(s)) => format!("{s:?}"),
                Ok(Err(_)) => "Err".to_string(),
                Err(_) => "panic".to_string(),
            };
            c.count(&format!("NGIS_block_answer|{tag}|{name}"), 1);
            if matches!(r, Ok(Ok(SignatureStatus::StrongValid | SignatureStatus::StrongInvalid | SignatureStatus::StrongNoKey))) {
                c.count("strong_signature_arm_reached", 1);
            }
            // the same file with one signed byte of the archive altered: nothing may call it valid
            if let Some(sr) = b.regions.iter().find(|r| r.kind == "stored_files") {
                let (s0, e0) = sr.ranges[0];
                let at = s0 + (e0 - s0) / 2;
                longer[at] ^= 0x01;
                if std::fs::write(&tp, &longer).is_ok() {
                    c.count("tampered_archives_with_NGIS_block", 1);
                    let r2 = trap(|| Archive::open(&tp).and_then(|mut a| a.verify_signature()));
                    if let Ok(Ok(s2 @ (SignatureStatus::WeakValid | SignatureStatus::StrongValid))) = r2 {
                        c.violate(format!("still-verifies|weak-signature|stored_files|{placement}|{method}|{enc}|NGIS-block-behind-archive{}", off_sfx(&sp.cfg)),
                                  format!("a signed archive with one signed byte altered and a strong-signature block ({tag}) behind it: verify_signature() = {s2:?}"), json!({"archive_len": b.bytes.len(), "altered_offset": at, "tail": tag}));
                    }
                }
                longer[at] ^= 0x01;
            }
        }
        let _ = std::fs::remove_file(&tp);
        if strong_claim {
            match r {
                Ok(Ok(SignatureStatus::WeakValid | SignatureStatus::StrongInvalid | SignatureStatus::StrongNoKey)) => {}
                Ok(Ok(SignatureStatus::StrongValid)) => {
                    c.violate(format!("forged-accepted|strong-signature|verify_signature|NGIS-block-not-a-signature{}", off_sfx(&sp.cfg)), format!("verify_signature() answers StrongValid for a block of arbitrary bytes behind the archive ({tag})"), json!({"archive_len": b.bytes.len(), "tail": tag}));
                    return;
                }
                other => {
                    let s = match other {
                        Ok(Ok(s)) => format!("{s:?}"),
                        Ok(Err(e)) => format!("Err({e})"),
                        Err(p) => p.sig(),
                    };
                    c.violate(format!("intact-fails|weak-signature|verify_signature|{placement}|{method}|{enc}|NGIS-block-behind-archive{}", off_sfx(&sp.cfg)),
                              format!("a signed, unmodified archive followed by {tag}: verify_signature() = {s} (neither the weak signature confirmed nor the attached block refused as a strong signature)"), json!({"archive_len": b.bytes.len(), "tail": tag}));
                    return;
                }
            }
            continue;
        }
        match r {
            Ok(Ok(SignatureStatus::WeakValid)) => {}
            other => {
                let s = match other {
                    Ok(Ok(s)) => format!("{s:?}"),
                    Ok(Err(e)) => format!("Err({e})"),
                    Err(p) => p.sig(),
                };
                c.violate(format!("intact-fails|weak-signature|verify_signature|{placement}|{method}|{enc}|file-longer-than-archive{}", off_sfx(&sp.cfg)),
                          format!("a signed archive followed by {extra} foreign bytes ({tag}) does not verify although the archive itself is unmodified: verify_signature() = {s}"), json!({"archive_len": b.bytes.len(), "extra": extra}));
                return;
            }
        }
    }
    let Some(r) = b.regions.iter().find(|r| r.kind == sp.region) else {
        c.skip(format!("no region {}", sp.region));
        c.nontrivial = false;
        return;
    };
    let alts = alterations(&b.bytes, &r.ranges, sp.ck, stride, phase);
    let mut t = sweep(c, b, r.ranges[0].0, alts, &[], risky_region(sp.region), || probe_signed(b));
    if sp.region == "sig_header" {
        // the 8 bytes in front of the signature proper are excluded from the hash and are not part of the signature: not protected
        c.count("unprotected_sig_header_probes", t.probes);
        c.count("unprotected_sig_header_still_valid", t.violated);
        t.harmless += t.violated;
        t.violated = 0;
    }
    t.flush(c, &format!("weak-signature|{}|archive", sp.region));
    if t.probes == 0 {
        c.nontrivial = false;
    }
    if t.violated > 0 {
        c.violate(format!("still-verifies|weak-signature|{}|{placement}|{method}|{enc}{}", sp.region, off_sfx(&sp.cfg)), format!("{} of {} alterations ({}) of {}: verify_signature() still answers WeakValid", t.violated, t.probes, sp.ck, sp.region), t.first_viol.clone().unwrap_or(json!({})));
    }
}

// -------------------------------------------------- signature functions ----

fn sig_len(n: u64, rng: &mut Rng) -> (usize, &'static str) {
    const FIXED: &[usize] = &[0, 1, 63, 64, 71, 72, 73, 65_535, 65_536, 65_537, 65_608, 131_071, 131_072, 131_073, 204_800];
    let len = if (n as usize) < FIXED.len() {
        FIXED[n as usize]
    } else {
        match n % 4 {
            0 => rng.usize(2_000),
            1 => 65_536 - 200 + rng.usize(400),
            _ => rng.usize(204_801),
        }
    };
    let class = match len {
        0 => "empty",
        1..=65_535 => "below-unit",
        65_536 => "exactly-unit",
        65_537..=131_071 => "two-units",
        _ => "three-or-more-units",
    };
    (len, class)
}

fn flip(v: &mut [u8], bit: usize) {
    v[bit / 8] ^= 1 << (bit % 8);
}

fn sig_fn_case(c: &mut Case, len: usize, rng: &mut Rng, thorough: bool) {
    let mut data = rng.bytes(len);
    // placement A: the signature lies outside the signed bytes (as in the crate documentation);
    // placement B: a 72-byte signature area inside the data (zeroed for hashing), across a 64 KiB boundary when there is one.
    let mut placements: Vec<(&'static str, u64)> = vec![("outside", len as u64)];
    if len >= 72 {
        let p = if len >= 65_536 + 40 && rng.bool() { 65_536 - 1 - rng.usize(70) } else { rng.usize(len - 72 + 1) };
        placements.push(("inside", p as u64));
    }
    for (pl, pos) in placements {
        let info = SignatureInfo::new_weak(0, len as u64, pos, 72, vec![]);
        let excl = (pos as usize, (pos as usize + 72).min(len));
        c.count("signatures_generated", 1);
        let file = match trap(|| generate_weak_signature(std::io::Cursor::new(&data), &info)) {
            Ok(Ok(f)) => f,
            Ok(Err(e)) => {
                c.violate(format!("sig-fn|generate-fails|generate_weak_signature|{pl}"), format!("generate_weak_signature failed on {len} bytes: {e}"), json!({}));
                continue;
            }
            Err(p) => {
                c.violate(format!("sig-fn|generate-fails|generate_weak_signature|{pl}|{}", p.sig()), format!("generate_weak_signature panicked on {len} bytes"), json!({}));
                continue;
            }
        };
        let sig = match parse_weak_signature(&file) {
            Ok(s) if file.len() == 72 => s,
            other => {
                c.violate(format!("sig-fn|own-signature-rejected|parse_weak_signature|{pl}"), format!("the generated signature file ({} bytes) is not accepted by parse_weak_signature: {:?}", file.len(), other.err().map(|e| e.to_string())), json!({}));
                continue;
            }
        };
        let storm = |d: &[u8], s: &[u8]| -> bool { matches!(trap(|| verify_weak_signature_stormlib(std::io::Cursor::new(d), s, &info)), Ok(Ok(true))) };
        let legacy = |d: &[u8], s: &[u8]| -> bool { matches!(trap(|| verify_weak_signature(std::io::Cursor::new(d), s, len as u64)), Ok(Ok(true))) };
        let mut fns: Vec<(&'static str, &dyn Fn(&[u8], &[u8]) -> bool)> = vec![("verify_weak_signature_stormlib", &storm)];
        if pl == "outside" {
            // the legacy verifier hashes the first archive_size bytes as they are: comparable only when nothing is excluded
            fns.push(("verify_weak_signature", &legacy));
        }
        let lead_zero = sig[63] == 0; // little-endian: the most significant byte of the signature integer
        if lead_zero {
            c.count("signatures_with_leading_zero_byte", 1);
        }
        for (fname, f) in fns {
            c.count("sign_verify_pairs", 1);
            if !f(&data, &sig) {
                c.violate(format!("sig-fn|own-signature-rejected|{fname}|{pl}"), format!("{fname} rejects the signature generate_weak_signature produced over the same {len} bytes (signature area {pl})"), json!({"len": len, "signature_pos": pos, "signature": vh_common::hex(&sig)}));
                c.count(&format!("flips_masked_by_rejected_baseline|{fname}"), 1);
                continue;
            }
            // every bit of the signature
            let mut still = 0u64;
            let mut first = None;
            let mut s2 = sig.clone();
            for bit in 0..512 {
                flip(&mut s2, bit);
                c.count("signature_bit_flips", 1);
                if f(&data, &s2) {
                    still += 1;
                    first.get_or_insert(bit);
                }
                flip(&mut s2, bit);
            }
            if still > 0 {
                c.violate(format!("sig-fn|still-verifies|{fname}|signature-bit|{pl}"), format!("{fname} still verifies after flipping a signature bit ({still} of 512 bits; first: bit {})", first.unwrap()), json!({"len": len}));
            }
            // sampled + targeted bits of the signed data
            if len > 0 {
                let nbits = len * 8;
                let mut bits: Vec<usize> = Vec::new();
                for byte in [0usize, len - 1, len / 2, 65_535, 65_536, 131_071, 131_072, excl.0.wrapping_sub(1), excl.1] {
                    if byte < len {
                        bits.push(byte * 8 + rng.usize(8));
                    }
                }
                let want = if thorough { 3000 } else { 1000 };
                for _ in 0..want.min(nbits) {
                    bits.push(rng.usize(nbits));
                }
                let mut still = 0u64;
                let mut first = None;
                for bit in bits {
                    let byte = bit / 8;
                    if pl == "inside" && byte >= excl.0 && byte < excl.1 {
                        c.count("data_bits_in_excluded_area_skipped", 1);
                        continue;
                    }
                    flip(&mut data, bit);
                    c.count("data_bit_flips", 1);
                    if f(&data, &sig) {
                        still += 1;
                        first.get_or_insert(bit);
                    }
                    flip(&mut data, bit);
                }
                if still > 0 {
                    let fb = first.unwrap() / 8;
                    let wh = if fb >= len.saturating_sub(len % 65_536) { "last-partial-unit" } else { "full-unit" };
                    c.violate(format!("sig-fn|still-verifies|{fname}|data-bit|{pl}|{wh}"), format!("{fname} still verifies after flipping a bit of the signed data ({still} flips; first: byte {fb} of {len})"), json!({"len": len, "signature_pos": pos}));
                }
            }
        }
    }
}
