//! C04 (slice for the non-default cargo feature `simd` of wow-mpq) — the byte-string name hash of `SimdOps`
//! (`hash_string_simd`: AVX2 path for >= 32 bytes, scalar fallback below) is a second implementation of the MPQ
//! name hash with `unsafe` vector code: compared with the independent reference on *byte strings* (the &str API of
//! C04's main worker cannot express invalid UTF-8; this one can), and `SimdOps::crc32` with the bitwise CRC-32 reference.
//! Built with `--features simd`; run natively and under AddressSanitizer (the vector loads).

use serde_json::json;
use vh_common::{Run, trap};
use vh_mpq::{ref_crypt_table, ref_hash};
use wow_mpq::simd::SimdOps;

fn ref_crc32(data: &[u8], init: u32) -> u32 {
    // bitwise, reflected, polynomial 0xEDB88320 (IEEE 802.3): crc32(data) continuing from `init`
    let mut crc = !init;
    for b in data {
        crc ^= *b as u32;
        for _ in 0..8 {
            crc = if crc & 1 != 0 { (crc >> 1) ^ 0xEDB8_8320 } else { crc >> 1 };
        }
    }
    !crc
}

fn main() {
    let mut run = Run::new();
    let thorough = run.args.thorough();
    let ops = SimdOps::new();
    let feats = format!("{:?}", ops.features());
    if run.args.shard == 0 {
        run.extra("cpu_features", json!(feats));
        let _ = ref_crypt_table();
    }
    let mut idx = 0u64;
    // ---- every byte string of length <= 2 x 4 hash types (incl. the byte values no &str can carry)
    for first in 0..=256u32 {
        let i = idx;
        idx += 1;
        if !run.want(i) {
            continue;
        }
        let class = format!("bytes<=2|first={}", if first == 256 { "empty-or-single".into() } else { format!("{:02x}", first >> 4 << 4) });
        run.case(i, &class, json!({"what": "all byte strings of length <= 2 with this first byte", "first": first}), |c| {
            let mut inputs: Vec<Vec<u8>> = Vec::new();
            if first == 256 {
                inputs.push(vec![]);
                inputs.extend((0..=255u8).map(|b| vec![b]));
            } else {
                inputs.extend((0..=255u8).map(|b| vec![first as u8, b]));
            }
            for inp in &inputs {
                for ht in [0u32, 0x100, 0x200, 0x300] {
                    c.count("hashes_compared", 1);
                    match trap(|| ops.hash_string_simd(inp, ht)) {
                        Ok(h) if h == ref_hash(inp, ht) => {}
                        Ok(h) => c.violate(format!("simd-hash-ne-ref|type={ht}|len<=2|{}", if inp.is_ascii() { "ascii" } else if std::str::from_utf8(inp).is_ok() { "utf8" } else { "not-utf8" }),
                                           format!("hash_string_simd({inp:02x?}, {ht}) = {h:#010x}, reference {:#010x}", ref_hash(inp, ht)), json!({"input": inp, "type": ht})),
                        Err(p) => c.violate(format!("simd-hash-panic|{}", p.sig()), format!("hash_string_simd panicked: {}", p.msg), json!({"input": inp})),
                    }
                }
            }
        });
    }
    // ---- random byte strings around the vector-path thresholds, at every alignment of the slice start
    let n = if thorough { 6000u64 } else { 600 };
    for k in 0..n {
        let i = idx;
        idx += 1;
        if !run.want(i) {
            continue;
        }
        let mut rng = run.rng(i, 0);
        let len = match k % 6 {
            0 => 3 + rng.usize(29),
            1 => 31 + rng.usize(3),
            2 => 32 + rng.usize(33),
            3 => 63 + rng.usize(3),
            4 => 64 + rng.usize(200),
            _ => 256 + rng.usize(4000),
        };
        let kind = ["ascii-path", "bytes-any", "utf8-text", "high-bytes"][(k / 6 % 4) as usize];
        let class = format!("random|len={}|{kind}", if len < 32 { "<32" } else if len < 64 { "32..63" } else { ">=64" });
        run.case(i, &class, json!({"len": len, "kind": kind}), |c| {
            let off = rng.usize(32);
            let mut buf = vec![0u8; off + len];
            for b in buf[off..].iter_mut() {
                *b = match kind {
                    "ascii-path" => {
                        let a = b"abcdefghijklmnopqrstuvwxyzABCDEFGHIJKLMNOPQRSTUVWXYZ0123456789\\/._- ()";
                        a[rng.usize(a.len())]
                    }
                    "bytes-any" => rng.below(256) as u8,
                    "utf8-text" => {
                        let a = b"ab\xc3\xa9\xc3\x89\xd1\x88\xd0\xa8z/\\";
                        a[rng.usize(a.len())]
                    }
                    _ => 0x80 | rng.below(128) as u8,
                };
            }
            let inp = &buf[off..];
            for ht in [0u32, 0x100, 0x200, 0x300] {
                c.count("hashes_compared", 1);
                match trap(|| ops.hash_string_simd(inp, ht)) {
                    Ok(h) if h == ref_hash(inp, ht) => {}
                    Ok(h) => c.violate(format!("simd-hash-ne-ref|type={ht}|len{}|{kind}", if len < 32 { "<32" } else { ">=32" }), format!("hash_string_simd(<{len} bytes>, {ht}) = {h:#010x}, reference {:#010x}", ref_hash(inp, ht)),
                                       json!({"input": inp, "type": ht, "slice_offset": off})),
                    Err(p) => c.violate(format!("simd-hash-panic|{}", p.sig()), format!("hash_string_simd panicked: {}", p.msg), json!({"len": len})),
                }
            }
            // CRC-32 (the checksum of sector CRCs / attributes is C10's business; here: the vector path equals the definition)
            for init in [0u32, 0xFFFF_FFFF, 0x1234_5678] {
                c.count("crc32_compared", 1);
                match trap(|| ops.crc32(inp, init)) {
                    Ok(h) => {
                        c.count(&format!("crc32|{}", if h == ref_crc32(inp, init) { "equals-ieee" } else { "differs-from-ieee" }), 1);
                    }
                    Err(p) => c.violate(format!("simd-crc-panic|{}", p.sig()), format!("SimdOps::crc32 panicked: {}", p.msg), json!({"len": len})),
                }
            }
        });
    }
    run.done();
}
