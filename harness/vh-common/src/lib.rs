//! Shared pieces of the verification workers: deterministic PRNG, content
//! generators, the JSONL journal protocol, the panic trap (M1) and the
//! heap-request monitor (M3).  See /verif/DESIGN.md §2–3.
//!
//! Journal protocol (one JSON object per line, appended to `--out`):
//!   {"e":"B","i":<case index>}                      written+flushed before a case runs
//!   {"e":"E","i":..,"class":..,"nt":bool,"v":"held|viol|inconc|skip",
//!    "viol":[{"sig":..,"what":..,"detail":..}],"cnt":{..},"desc":..}
//!   {"e":"S","sample":..}                           a written-out sample case
//!   {"e":"X","k":..,"v":..}                         free-form extra (sets, maxima)
//!   {"e":"D"}                                       worker finished its shard
//! The worker never decides known-vs-new; the Python supervisor does.

use serde_json::{Value, json};
use std::cell::RefCell;
use std::collections::BTreeMap;
use std::fs::{File, OpenOptions};
use std::io::Write;
use std::panic::{AssertUnwindSafe, catch_unwind};

pub mod alloc;

// ---------------------------------------------------------------- PRNG ----

/// splitmix64; every random choice in a worker derives from VERIF_SEED via this.
#[derive(Clone, Debug)]
pub struct Rng(pub u64);

impl Rng {
    pub fn new(seed: u64) -> Self {
        Rng(seed ^ 0x9E37_79B9_7F4A_7C15)
    }
    /// Independent stream for (seed, case index, lane).
    pub fn for_case(seed: u64, idx: u64, lane: u64) -> Self {
        let mut r = Rng(seed.wrapping_mul(0xA24B_AED4_963E_E407) ^ idx.wrapping_mul(0x9FB2_1C65_1E98_DF25) ^ lane.wrapping_mul(0xD6E8_FEB8_6659_FD93));
        r.next_u64();
        r.next_u64();
        r
    }
    pub fn next_u64(&mut self) -> u64 {
        self.0 = self.0.wrapping_add(0x9E37_79B9_7F4A_7C15);
        let mut z = self.0;
        z = (z ^ (z >> 30)).wrapping_mul(0xBF58_476D_1CE4_E5B9);
        z = (z ^ (z >> 27)).wrapping_mul(0x94D0_49BB_1331_11EB);
        z ^ (z >> 31)
    }
    pub fn next_u32(&mut self) -> u32 {
        (self.next_u64() >> 32) as u32
    }
    /// uniform in 0..n (n>0)
    pub fn below(&mut self, n: u64) -> u64 {
        if n == 0 { 0 } else { self.next_u64() % n }
    }
    pub fn range(&mut self, lo: u64, hi_incl: u64) -> u64 {
        lo + self.below(hi_incl - lo + 1)
    }
    pub fn usize(&mut self, n: usize) -> usize {
        self.below(n as u64) as usize
    }
    pub fn bool(&mut self) -> bool {
        self.next_u64() & 1 == 1
    }
    pub fn chance(&mut self, num: u64, den: u64) -> bool {
        self.below(den) < num
    }
    pub fn pick<'a, T>(&mut self, xs: &'a [T]) -> &'a T {
        &xs[self.usize(xs.len())]
    }
    pub fn bytes(&mut self, n: usize) -> Vec<u8> {
        let mut v = Vec::with_capacity(n + 8);
        while v.len() < n {
            v.extend_from_slice(&self.next_u64().to_le_bytes());
        }
        v.truncate(n);
        v
    }
    pub fn shuffle<T>(&mut self, xs: &mut [T]) {
        for i in (1..xs.len()).rev() {
            let j = self.usize(i + 1);
            xs.swap(i, j);
        }
    }
    pub fn f32_any(&mut self) -> f32 {
        match self.below(10) {
            0 => 0.0,
            1 => -0.0,
            2 => f32::from_bits(1),
            3 => f32::INFINITY,
            4 => f32::NEG_INFINITY,
            5 => 1.0,
            6 => -1.5,
            _ => {
                // finite, non-NaN
                let b = self.next_u32();
                let f = f32::from_bits(b);
                if f.is_nan() { 3.25 } else { f }
            }
        }
    }
}

// ---------------------------------------------------- content classes ----

pub const CONTENT_CLASSES: &[&str] = &[
    "random", "zero", "ff", "period2", "period3", "period255", "sparse", "text", "half", "runs", "litruns",
];

/// Deterministic content of a compressibility class.
pub fn gen_content(rng: &mut Rng, class: &str, len: usize) -> Vec<u8> {
    match class {
        "random" => rng.bytes(len),
        "zero" => vec![0u8; len],
        "ff" => vec![0xFFu8; len],
        "period2" => (0..len).map(|i| [0xA5u8, 0x3C][i % 2]).collect(),
        "period3" => (0..len).map(|i| [1u8, 2, 3][i % 3]).collect(),
        "period255" => (0..len).map(|i| (i % 255) as u8).collect(),
        "sparse" => {
            // mostly zeros with occasional literals
            let mut v = vec![0u8; len];
            let mut i = rng.usize(40);
            while i < len {
                v[i] = (rng.next_u32() | 1) as u8;
                i += 1 + rng.usize(200);
            }
            v
        }
        "text" => {
            const WORDS: &[&str] = &[
                "the ", "quick ", "brown ", "fox ", "Interface\\", "Glue", "XML", ".blp\r\n", "World\\Maps\\", "Azeroth ", "0123456789", "\t",
            ];
            let mut v = Vec::with_capacity(len + 16);
            while v.len() < len {
                v.extend_from_slice(rng.pick(WORDS).as_bytes());
            }
            v.truncate(len);
            v
        }
        "half" => {
            let mut v = vec![0x41u8; len / 2];
            v.extend(rng.bytes(len - len / 2));
            v
        }
        "runs" => {
            // zero runs of length 2/3/4/130/131 separated by literals
            let mut v = Vec::with_capacity(len + 140);
            let runs = [2usize, 3, 4, 130, 131, 127, 128, 129];
            while v.len() < len {
                let r = *rng.pick(&runs);
                v.extend(std::iter::repeat(0u8).take(r));
                let lits = 1 + rng.usize(5);
                for _ in 0..lits {
                    v.push((rng.next_u32() as u8) | 1);
                }
            }
            v.truncate(len);
            v
        }
        "litruns" => {
            // non-zero literal runs whose lengths sit on the RLE literal-count boundaries (0x7F/0x80/0x81 and multiples),
            // separated by zero runs long enough to be encoded as runs, so that the sparse form is shorter than the input
            let lits = [1usize, 2, 126, 127, 128, 129, 130, 255, 256, 257, 258, 384, 385, 386, 513];
            let mut v = Vec::with_capacity(len + 600);
            while v.len() < len {
                let n = *rng.pick(&lits);
                for _ in 0..n {
                    v.push((rng.next_u32() as u8) | 1);
                }
                let z = 3 + rng.usize(140);
                v.extend(std::iter::repeat(0u8).take(z));
            }
            v.truncate(len);
            v
        }
        _ => rng.bytes(len),
    }
}

/// A `Read + Seek (+ Write)` source that hands out / accepts fewer bytes per call than asked for, the way a pipe, an
/// archive-backed stream or a socket legitimately does: at most `max` bytes per `read` / `write` call (cycling through
/// 1..=max so that every smaller size occurs as well). Everything else is the wrapped cursor's.
pub struct ShortIo<T> {
    pub inner: T,
    max: usize,
    tick: usize,
    pub reads: u64,
    pub writes: u64,
}

impl<T> ShortIo<T> {
    pub fn new(inner: T, max: usize) -> Self {
        ShortIo { inner, max: max.max(1), tick: 0, reads: 0, writes: 0 }
    }
    fn next_len(&mut self, want: usize) -> usize {
        self.tick = self.tick.wrapping_add(1);
        want.min(1 + self.tick % self.max)
    }
}

impl<T: std::io::Read> std::io::Read for ShortIo<T> {
    fn read(&mut self, buf: &mut [u8]) -> std::io::Result<usize> {
        if buf.is_empty() {
            return Ok(0);
        }
        let n = self.next_len(buf.len());
        self.reads += 1;
        self.inner.read(&mut buf[..n])
    }
}

impl<T: std::io::Write> std::io::Write for ShortIo<T> {
    fn write(&mut self, buf: &[u8]) -> std::io::Result<usize> {
        if buf.is_empty() {
            return Ok(0);
        }
        let n = self.next_len(buf.len());
        self.writes += 1;
        self.inner.write(&buf[..n])
    }
    fn flush(&mut self) -> std::io::Result<()> {
        self.inner.flush()
    }
}

impl<T: std::io::Seek> std::io::Seek for ShortIo<T> {
    fn seek(&mut self, pos: std::io::SeekFrom) -> std::io::Result<u64> {
        self.inner.seek(pos)
    }
}

/// A `Write + Seek` sink that accepts `budget` bytes and then answers every write with an I/O error (a device that fills up).
pub struct FailAfter {
    pub inner: std::io::Cursor<Vec<u8>>,
    budget: usize,
}

impl FailAfter {
    pub fn new(budget: usize) -> Self {
        FailAfter { inner: std::io::Cursor::new(Vec::new()), budget }
    }
}

impl std::io::Write for FailAfter {
    fn write(&mut self, buf: &[u8]) -> std::io::Result<usize> {
        if self.budget == 0 && !buf.is_empty() {
            return Err(std::io::Error::new(std::io::ErrorKind::Other, "no space left on device (injected)"));
        }
        let n = buf.len().min(self.budget);
        self.budget -= n;
        self.inner.write(&buf[..n])
    }
    fn flush(&mut self) -> std::io::Result<()> {
        Ok(())
    }
}

impl std::io::Seek for FailAfter {
    fn seek(&mut self, pos: std::io::SeekFrom) -> std::io::Result<u64> {
        self.inner.seek(pos)
    }
}

pub fn fnv64(data: &[u8]) -> u64 {
    let mut h: u64 = 0xcbf2_9ce4_8422_2325;
    for b in data {
        h ^= *b as u64;
        h = h.wrapping_mul(0x0000_0100_0000_01B3);
    }
    h
}

pub fn hex(data: &[u8]) -> String {
    let mut s = String::with_capacity(data.len() * 2);
    for b in data {
        s.push_str(&format!("{:02x}", b));
    }
    s
}

pub fn unhex(s: &str) -> Vec<u8> {
    (0..s.len() / 2).map(|i| u8::from_str_radix(&s[2 * i..2 * i + 2], 16).unwrap_or(0)).collect()
}

/// Short description of a byte string for witnesses.
pub fn brief(data: &[u8]) -> Value {
    json!({"len": data.len(), "fnv": format!("{:016x}", fnv64(data)), "head": hex(&data[..data.len().min(16)])})
}

/// First index at which two byte strings differ (or the shorter length).
pub fn first_diff(a: &[u8], b: &[u8]) -> usize {
    a.iter().zip(b.iter()).position(|(x, y)| x != y).unwrap_or(a.len().min(b.len()))
}

// ------------------------------------------------------- panic trap ----

#[derive(Clone, Debug, Default)]
pub struct PanicInfo {
    pub msg: String,
    pub file: String,
    pub func: String,
}

impl PanicInfo {
    /// Normalised message: digits collapsed so that sizes/indices do not split signatures.
    pub fn norm_msg(&self) -> String {
        let mut out = String::new();
        let mut in_num = false;
        for c in self.msg.chars().take(160) {
            if c.is_ascii_digit() {
                if !in_num {
                    out.push('N');
                    in_num = true;
                }
            } else {
                in_num = false;
                out.push(c);
            }
        }
        out
    }
    pub fn sig(&self) -> String {
        format!("panic@{}:{}", self.func, self.norm_msg())
    }
}

thread_local! {
    static LAST_PANIC: RefCell<Option<PanicInfo>> = const { RefCell::new(None) };
}
/// The most recent panic of *any* thread: a panic on a pool thread (rayon re-raises it on the caller) leaves the caller's
/// thread-local slot empty; `trap` falls back to this one.
static LAST_PANIC_ANY: std::sync::Mutex<Option<PanicInfo>> = std::sync::Mutex::new(None);

fn in_repo_frame(sym: &str) -> bool {
    let s = sym.trim_start_matches('<');
    ["wow_mpq", "wow_m2", "wow_adt", "wow_wmo", "wow_blp", "wow_cdbc", "wow_wdt", "wow_wdl", "storm", "warcraft_rs", "vh_ffi::storm"]
        .iter()
        .any(|p| s.starts_with(p))
}

fn clean_sym(sym: &str) -> String {
    // strip trailing ::h<16 hex>
    let mut s = sym.to_string();
    if let Some(pos) = s.rfind("::h") {
        if s.len() - pos == 19 && s[pos + 3..].chars().all(|c| c.is_ascii_hexdigit()) {
            s.truncate(pos);
        }
    }
    let s = s.replace("::{{closure}}", "").replace("{{closure}}", "");
    // drop generic arguments and closure numbering so unrelated edits do not change the signature
    let s = if s.starts_with('<') { s } else { s.split('<').next().unwrap_or(&s).to_string() };
    let mut out = String::new();
    let mut it = s.chars().peekable();
    while let Some(ch) = it.next() {
        if ch == '{' {
            // {closure#5} / {closure_env#1} -> {closure}
            let mut word = String::new();
            for c2 in it.by_ref() {
                if c2 == '}' { break; }
                word.push(c2);
            }
            let w = word.split('#').next().unwrap_or("");
            out.push('{'); out.push_str(w); out.push('}');
        } else {
            out.push(ch);
        }
    }
    out
}

/// Install the panic hook once per process. Silences the default message.
pub fn install_panic_trap() {
    std::panic::set_hook(Box::new(|info| {
        let msg = if let Some(s) = info.payload().downcast_ref::<&str>() {
            (*s).to_string()
        } else if let Some(s) = info.payload().downcast_ref::<String>() {
            s.clone()
        } else {
            "<non-string panic>".to_string()
        };
        let file = info.location().map(|l| l.file().to_string()).unwrap_or_default();
        let bt = std::backtrace::Backtrace::force_capture().to_string();
        let mut func = String::new();
        // Frames print as "  N: symbol" followed by "       at path:line:col". Inlined frames carry short
        // names, so the in-repo frame is recognised by its source path (under /repo/), and the signature
        // uses "<relative file>:<function>" — no line numbers.
        let mut last_sym = String::new();
        for line in bt.lines() {
            let t = line.trim_start();
            if let Some(rest) = t.strip_prefix("at ") {
                // a source file of the code under test: .../file-formats/<family>/<crate>/src/..., .../ffi/storm-ffi/src/...,
                // .../warcraft-rs/src/... (wherever the tree is checked out)
                let in_tree = ["/file-formats/", "/ffi/storm-ffi/", "/warcraft-rs/src/"].iter().filter_map(|m| rest.find(m)).min();
                if let Some(pos) = in_tree.filter(|_| !rest.contains("/registry/src/") && !rest.starts_with("/rustc/")) {
                    let rel = &rest[pos + 1..];
                    let file = rel.split(':').next().unwrap_or(rel);
                    let short = file.rsplit("/src/").next().unwrap_or(file);
                    let krate = file.split("/src/").next().unwrap_or("").rsplit('/').next().unwrap_or("");
                    func = format!("{krate}/{short}:{}", clean_sym(&last_sym));
                    break;
                }
            } else if let Some((n, rest)) = t.split_once(": ") {
                if n.chars().all(|c| c.is_ascii_digit()) {
                    last_sym = rest.trim().to_string();
                    if in_repo_frame(rest) && func.is_empty() {
                        // non-inlined frame without line info
                        func = clean_sym(rest.trim());
                    }
                }
            }
        }
        if func.is_empty() {
            // fall back to the source file of the panic location (dependency crate)
            let tail = file.rsplit("/registry/src/").next().unwrap_or(&file);
            let tail = if tail.len() < file.len() { tail.split_once('/').map(|x| x.1).unwrap_or(tail) } else { tail };
            func = format!("file:{tail}");
        }
        let pi = PanicInfo { msg, file, func };
        if let Ok(mut g) = LAST_PANIC_ANY.lock() {
            *g = Some(pi.clone());
        }
        LAST_PANIC.with(|p| *p.borrow_mut() = Some(pi));
    }));
}

/// Run `f`, converting a panic into `Err(PanicInfo)`.
pub fn trap<T>(f: impl FnOnce() -> T) -> Result<T, PanicInfo> {
    LAST_PANIC.with(|p| *p.borrow_mut() = None);
    if let Ok(mut g) = LAST_PANIC_ANY.lock() {
        *g = None;
    }
    match catch_unwind(AssertUnwindSafe(f)) {
        Ok(v) => Ok(v),
        Err(_) => Err(LAST_PANIC.with(|p| p.borrow_mut().take()).or_else(|| LAST_PANIC_ANY.lock().ok().and_then(|mut g| g.take())).unwrap_or_default()),
    }
}

// ---------------------------------------------------------- the run ----

#[derive(Debug, Clone)]
pub struct Args {
    pub tier: String,
    pub seed: u64,
    pub shard: u64,
    pub nshards: u64,
    pub start: u64,
    pub only: Option<u64>,
    pub out: String,
    pub scratch: String,
    pub extra: BTreeMap<String, String>,
}

impl Args {
    pub fn parse() -> Args {
        let mut a = Args {
            tier: "quick".into(),
            seed: 1,
            shard: 0,
            nshards: 1,
            start: 0,
            only: None,
            out: "/dev/stdout".into(),
            scratch: std::env::temp_dir().to_string_lossy().into_owned(),
            extra: BTreeMap::new(),
        };
        let v: Vec<String> = std::env::args().skip(1).collect();
        let mut i = 0;
        while i < v.len() {
            let k = v[i].clone();
            let val = v.get(i + 1).cloned().unwrap_or_default();
            match k.as_str() {
                "--tier" => a.tier = val,
                "--seed" => a.seed = val.parse().unwrap_or(1),
                "--shard" => {
                    let (x, y) = val.split_once('/').unwrap_or(("0", "1"));
                    a.shard = x.parse().unwrap_or(0);
                    a.nshards = y.parse().unwrap_or(1).max(1);
                }
                "--start" => a.start = val.parse().unwrap_or(0),
                "--only" => a.only = val.parse().ok(),
                "--out" => a.out = val,
                "--scratch" => a.scratch = val,
                _ => {
                    a.extra.insert(k.trim_start_matches("--").to_string(), val);
                }
            }
            i += 2;
        }
        a
    }
    pub fn thorough(&self) -> bool {
        self.tier == "thorough"
    }
    pub fn get(&self, k: &str) -> Option<&str> {
        self.extra.get(k).map(|s| s.as_str())
    }
}

pub struct Case {
    pub idx: u64,
    pub viol: Vec<Value>,
    pub cnt: BTreeMap<String, u64>,
    pub inconclusive: Option<String>,
    pub skipped: Option<String>,
    pub nontrivial: bool,
    pub notes: Vec<Value>,
}

impl Case {
    /// Record a violation. `sig` is built from semantic features only.
    pub fn violate(&mut self, sig: impl Into<String>, what: impl Into<String>, detail: Value) {
        let sig = sig.into();
        if self.viol.iter().any(|v| v["sig"] == sig.as_str()) {
            return; // one witness per signature per case
        }
        self.viol.push(json!({"sig": sig, "what": what.into(), "detail": detail}));
    }
    pub fn count(&mut self, k: &str, n: u64) {
        *self.cnt.entry(k.to_string()).or_insert(0) += n;
    }
    pub fn inconclusive(&mut self, why: impl Into<String>) {
        self.inconclusive = Some(why.into());
    }
    pub fn skip(&mut self, why: impl Into<String>) {
        self.skipped = Some(why.into());
    }
    pub fn note(&mut self, v: Value) {
        if self.notes.len() < 8 {
            self.notes.push(v);
        }
    }
}

pub struct Run {
    pub args: Args,
    journal: File,
    samples_left: u32,
    pub executed: u64,
}

impl Run {
    pub fn new() -> Run {
        let args = Args::parse();
        install_panic_trap();
        init_log();
        let journal = OpenOptions::new().create(true).append(true).open(&args.out).unwrap_or_else(|e| {
            eprintln!("cannot open journal {}: {e}", args.out);
            std::process::exit(2)
        });
        Run { args, journal, samples_left: 3, executed: 0 }
    }
    fn line(&mut self, v: &Value) {
        let mut s = v.to_string();
        s.push('\n');
        let _ = self.journal.write_all(s.as_bytes());
    }
    /// Is case `idx` ours (shard, start, only)?
    pub fn want(&self, idx: u64) -> bool {
        if let Some(o) = self.args.only {
            return idx == o;
        }
        idx >= self.args.start && idx % self.args.nshards == self.args.shard
    }
    pub fn rng(&self, idx: u64, lane: u64) -> Rng {
        Rng::for_case(self.args.seed, idx, lane)
    }
    /// Execute one case. `class` is the distinctness key; `desc` describes the case
    /// for samples / replay. A panic escaping `body` is a violation (M1).
    pub fn case(&mut self, idx: u64, class: &str, desc: Value, body: impl FnOnce(&mut Case)) {
        if !self.want(idx) {
            return;
        }
        self.line(&json!({"e":"B","i":idx}));
        let mut c = Case { idx, viol: vec![], cnt: BTreeMap::new(), inconclusive: None, skipped: None, nontrivial: true, notes: vec![] };
        let r = trap(|| body(&mut c));
        if let Err(p) = r {
            c.violate(p.sig(), format!("panic escaped: {} ({})", p.msg.chars().take(200).collect::<String>(), p.file), json!({"func": p.func, "file": p.file}));
        }
        let v = if !c.viol.is_empty() {
            "viol"
        } else if c.inconclusive.is_some() {
            "inconc"
        } else if c.skipped.is_some() {
            "skip"
        } else {
            "held"
        };
        let mut e = json!({"e":"E","i":idx,"class":class,"nt":c.nontrivial,"v":v,"cnt":c.cnt});
        if !c.viol.is_empty() {
            e["viol"] = Value::Array(c.viol.clone());
            e["desc"] = desc.clone();
        }
        if let Some(w) = &c.inconclusive {
            e["why"] = json!(w);
        }
        if let Some(w) = &c.skipped {
            e["why"] = json!(w);
        }
        if !c.notes.is_empty() {
            e["notes"] = Value::Array(c.notes.clone());
        }
        self.line(&e);
        if self.samples_left > 0 && v == "held" && c.nontrivial {
            self.samples_left -= 1;
            self.line(&json!({"e":"S","sample":{"i":idx,"class":class,"desc":desc}}));
        }
        self.executed += 1;
    }
    pub fn extra(&mut self, k: &str, v: Value) {
        self.line(&json!({"e":"X","k":k,"v":v}));
    }
    pub fn done(&mut self) {
        self.line(&json!({"e":"D","executed":self.executed}));
    }
}

impl Default for Run {
    fn default() -> Self {
        Self::new()
    }
}

// ------------------------------------------------------------- logging ----

struct StderrLog;
impl log::Log for StderrLog {
    fn enabled(&self, _: &log::Metadata<'_>) -> bool {
        true
    }
    fn log(&self, r: &log::Record<'_>) {
        eprintln!("[{}] {}: {}", r.level(), r.target(), r.args());
    }
    fn flush(&self) {}
}

/// If VERIF_LOG is set (error|warn|info|debug|trace), print the library's log records to stderr.
pub fn init_log() {
    if let Ok(l) = std::env::var("VERIF_LOG") {
        static L: StderrLog = StderrLog;
        let _ = log::set_logger(&L);
        log::set_max_level(match l.as_str() {
            "trace" => log::LevelFilter::Trace,
            "debug" => log::LevelFilter::Debug,
            "info" => log::LevelFilter::Info,
            "warn" => log::LevelFilter::Warn,
            _ => log::LevelFilter::Error,
        });
    }
}
