//! M3 — heap-request monitor: a counting wrapper around the system allocator.
//! State is updated in the same call as the allocation it shadows (atomics only),
//! so the monitor can never lag or race with what it observes.
//!
//! Use in a worker:  `#[global_allocator] static A: vh_common::alloc::Counting = vh_common::alloc::Counting;`

use std::alloc::{GlobalAlloc, Layout, System};
use std::sync::atomic::{AtomicBool, AtomicUsize, Ordering::Relaxed};

pub struct Counting;

static LIVE: AtomicUsize = AtomicUsize::new(0);
static PEAK: AtomicUsize = AtomicUsize::new(0);
static MAX_REQ: AtomicUsize = AtomicUsize::new(0);
static N_ALLOC: AtomicUsize = AtomicUsize::new(0);
/// When non-zero, a single request >= this many bytes is refused (returns null) —
/// lets a worker observe "the code asked for N bytes" without the machine paying for it.
static REFUSE_AT: AtomicUsize = AtomicUsize::new(0);
static REFUSED: AtomicBool = AtomicBool::new(false);
static REFUSED_SIZE: AtomicUsize = AtomicUsize::new(0);

#[inline]
fn on_alloc(size: usize) {
    let live = LIVE.fetch_add(size, Relaxed) + size;
    PEAK.fetch_max(live, Relaxed);
    MAX_REQ.fetch_max(size, Relaxed);
    N_ALLOC.fetch_add(1, Relaxed);
}

unsafe impl GlobalAlloc for Counting {
    unsafe fn alloc(&self, l: Layout) -> *mut u8 {
        let lim = REFUSE_AT.load(Relaxed);
        if lim != 0 && l.size() >= lim {
            MAX_REQ.fetch_max(l.size(), Relaxed);
            REFUSED.store(true, Relaxed);
            REFUSED_SIZE.fetch_max(l.size(), Relaxed);
            return std::ptr::null_mut();
        }
        let p = unsafe { System.alloc(l) };
        if !p.is_null() {
            on_alloc(l.size());
        }
        p
    }
    unsafe fn alloc_zeroed(&self, l: Layout) -> *mut u8 {
        let lim = REFUSE_AT.load(Relaxed);
        if lim != 0 && l.size() >= lim {
            MAX_REQ.fetch_max(l.size(), Relaxed);
            REFUSED.store(true, Relaxed);
            REFUSED_SIZE.fetch_max(l.size(), Relaxed);
            return std::ptr::null_mut();
        }
        let p = unsafe { System.alloc_zeroed(l) };
        if !p.is_null() {
            on_alloc(l.size());
        }
        p
    }
    unsafe fn dealloc(&self, p: *mut u8, l: Layout) {
        LIVE.fetch_sub(l.size(), Relaxed);
        unsafe { System.dealloc(p, l) }
    }
    unsafe fn realloc(&self, p: *mut u8, l: Layout, new_size: usize) -> *mut u8 {
        let lim = REFUSE_AT.load(Relaxed);
        if lim != 0 && new_size >= lim {
            MAX_REQ.fetch_max(new_size, Relaxed);
            REFUSED.store(true, Relaxed);
            REFUSED_SIZE.fetch_max(new_size, Relaxed);
            return std::ptr::null_mut();
        }
        let q = unsafe { System.realloc(p, l, new_size) };
        if !q.is_null() {
            if new_size >= l.size() {
                let d = new_size - l.size();
                let live = LIVE.fetch_add(d, Relaxed) + d;
                PEAK.fetch_max(live, Relaxed);
            } else {
                LIVE.fetch_sub(l.size() - new_size, Relaxed);
            }
            MAX_REQ.fetch_max(new_size, Relaxed);
            N_ALLOC.fetch_add(1, Relaxed);
        }
        q
    }
}

#[derive(Debug, Clone, Copy)]
pub struct Snapshot {
    pub live: usize,
    pub peak: usize,
    pub max_req: usize,
    pub n_alloc: usize,
}

/// Reset peak/max to "now" and return the baseline.
pub fn reset() -> Snapshot {
    let live = LIVE.load(Relaxed);
    PEAK.store(live, Relaxed);
    MAX_REQ.store(0, Relaxed);
    N_ALLOC.store(0, Relaxed);
    REFUSED.store(false, Relaxed);
    REFUSED_SIZE.store(0, Relaxed);
    Snapshot { live, peak: live, max_req: 0, n_alloc: 0 }
}

pub fn snapshot() -> Snapshot {
    Snapshot { live: LIVE.load(Relaxed), peak: PEAK.load(Relaxed), max_req: MAX_REQ.load(Relaxed), n_alloc: N_ALLOC.load(Relaxed) }
}

pub fn set_refuse_at(bytes: usize) {
    REFUSE_AT.store(bytes, Relaxed);
}

pub fn was_refused() -> Option<usize> {
    if REFUSED.load(Relaxed) { Some(REFUSED_SIZE.load(Relaxed)) } else { None }
}
