use std::ffi::CString;
use std::ptr;
use vh_ffi::storm::*;
use vh_ffi::*;

fn main() {
    let dir = std::path::PathBuf::from(std::env::args().nth(1).unwrap());
    let what = std::env::args().nth(2).unwrap_or_default();
    build_fixtures(&dir).unwrap();
    unsafe {
        if what == "deadlock" {
            let p = CString::new(p2s(&dir.join(FX_A))).unwrap();
            let mut h: HANDLE = ptr::null_mut();
            assert!(SFileOpenArchive(p.as_ptr(), 0, 0, &mut h));
            eprintln!("calling verify 0x20");
            let r = SFileVerifyArchive(h, 0x20);
            eprintln!("returned {r}");
        }
        if what == "mut" {
            let p = CString::new(p2s(&dir.join("new.mpq"))).unwrap();
            let mut h: HANDLE = ptr::null_mut();
            let info = SFILE_CREATE_MPQ { cb_size: std::mem::size_of::<SFILE_CREATE_MPQ>() as u32, mpq_version: 1, user_data: ptr::null_mut(), cb_user_data: 0, stream_flags: 0, file_flags_1: 1, file_flags_2: 0, file_flags_3: 0, attr_flags: 0, sector_size: 3, raw_chunk_size: 0, max_file_count: 0 };
            assert!(SFileCreateArchive2(p.as_ptr(), &info, &mut h));
            let mut buf = [0u32; 2];
            let mut need = 0u32;
            let ok = SFileGetFileInfo(h, 2, buf.as_mut_ptr() as *mut _, 4, &mut need);
            eprintln!("hash table size ok={ok} {}", buf[0]);
            for k in 0..40 {
                let src = CString::new(p2s(&dir.join("src2.dat"))).unwrap();
                let name = CString::new(format!("added\\f{k}.dat")).unwrap();
                eprintln!("add {k}");
                let ok = SFileAddFileEx(h, src.as_ptr(), name.as_ptr(), 0, 0, 0);
                let has = SFileHasFile(h, name.as_ptr());
                let mut fh: HANDLE = ptr::null_mut();
                let op = SFileOpenFileEx(h, name.as_ptr(), 0, &mut fh);
                eprintln!("add {k} ok={ok} err={} has={has} open={op}", SFileGetLastError());
            }
        }
        if what == "findleak" {
            let p = CString::new(p2s(&dir.join(FX_A))).unwrap();
            let mut h: HANDLE = ptr::null_mut();
            assert!(SFileOpenArchive(p.as_ptr(), 0, 0, &mut h));
            let g = Guarded::new(std::mem::size_of::<SFILE_FIND_DATA>(), false);
            let star = CString::new("*").unwrap();
            let f = SFileFindFirstFile(h, star.as_ptr(), g.ptr() as *mut SFILE_FIND_DATA, ptr::null());
            eprintln!("find handle {:?}", f);
            assert!(SFileCloseArchive(h));
            let r = SFileFindNextFile(f, g.ptr() as *mut SFILE_FIND_DATA);
            eprintln!("FindNext after archive close -> {r} err={}", SFileGetLastError());
            eprintln!("damage {:?}", g.damage());
        }
    }
}
