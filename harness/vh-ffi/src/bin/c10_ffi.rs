//! C10 (C-API half) — CRC32 / MD5 attributes: the verifier the statement names is `SFileVerifyFile` (flags
//! FILE_CRC | FILE_MD5) of the `#[path]`-included storm-ffi source; content is read with `Archive::read_file`.
//! Archive generator, region map, corruption enumerator and fork isolation come from the vh-mpq worker's source
//! (included as a module, the same way c05_mpq.rs shares c05_common.rs).
//!
//! Verdict per altered archive: detected (SFileOpenArchive fails | SFileVerifyFile returns false | read_file fails) |
//! harmless (verify says fine and the content is bit-identical) | undetected-and-different (verify says fine, read_file
//! returns Ok with other bytes) = violation.
//! Every probe runs in a forked child: a panic inside an `extern "C"` function aborts the process and could not be trapped.
//!
//! Verifier flags are an axis of their own: each selection a caller can make is driven individually (FILE_CRC|FILE_MD5,
//! FILE_CRC alone, FILE_MD5 alone, 0 = "everything available"), and detection is demanded exactly when the archive carries
//! the attribute the selection names (FILE_MD5 alone on a CRC32-only archive has nothing to compare and is not driven).

#[path = "../../../vh-mpq/src/bin/c10.rs"]
#[allow(dead_code, unused_imports)]
mod base;

use base::*;
use md5::{Digest, Md5};
use serde_json::json;
use std::ffi::CString;
use std::path::{Path, PathBuf};
use std::ptr;
use vh_common::{Case, Run, brief, first_diff, trap};
use vh_ffi::storm::*;
use wow_mpq::Archive;

const VERIFY_SECTOR_CRC: u32 = 0x01;
const VERIFY_FILE_CRC: u32 = 0x02;
const VERIFY_FILE_MD5: u32 = 0x04;
const VERIFY_SIGNATURE: u32 = 0x10;
const ATTR_FLAGS: u32 = VERIFY_FILE_CRC | VERIFY_FILE_MD5;
const VERIFY_ALL_FILES: u32 = 0x20;
/// Pseudo selection: the archive-wide verifier SFileVerifyArchive(ALL_FILES) instead of SFileVerifyFile on the name.
const ARCHIVE_WIDE: u32 = 0x1000;

/// SFileOpenArchive + SFileVerifyFile(name, flags) + SFileCloseArchive. None = the archive did not open.
fn c_verify(path: &Path, names: &[&str], flags: u32) -> Option<Vec<bool>> {
    let p = CString::new(path.to_string_lossy().as_bytes()).unwrap();
    unsafe {
        let mut h: HANDLE = ptr::null_mut();
        if !SFileOpenArchive(p.as_ptr(), 0, 0, &mut h) {
            return None;
        }
        let mut out = Vec::new();
        for n in names {
            let cn = CString::new(*n).unwrap();
            out.push(SFileVerifyFile(h, cn.as_ptr(), flags));
        }
        SFileCloseArchive(h);
        Some(out)
    }
}

fn c_verify_archive(path: &Path, flags: u32) -> Option<bool> {
    let p = CString::new(path.to_string_lossy().as_bytes()).unwrap();
    unsafe {
        let mut h: HANDLE = ptr::null_mut();
        if !SFileOpenArchive(p.as_ptr(), 0, 0, &mut h) {
            return None;
        }
        let r = SFileVerifyArchive(h, flags);
        SFileCloseArchive(h);
        Some(r)
    }
}

/// Name of a flag selection, for class strings, descriptions and signatures.
fn flags_name(flags: u32) -> &'static str {
    match flags {
        0 => "0",
        VERIFY_FILE_CRC => "FILE_CRC",
        VERIFY_FILE_MD5 => "FILE_MD5",
        ATTR_FLAGS => "FILE_CRC|FILE_MD5",
        ARCHIVE_WIDE => "SFileVerifyArchive(ALL_FILES)",
        _ => "other",
    }
}

/// Signature suffix: nothing for the selection the check always used, the selection itself otherwise.
fn flags_sfx(flags: u32) -> String {
    if flags == ATTR_FLAGS { String::new() } else { format!("|flags={}", flags_name(flags)) }
}

/// The flag selections whose attribute the archive carries (attr 1 = CRC32 only, 2 = CRC32 + MD5).
fn flag_selections(attr: u8) -> &'static [u32] {
    if attr == 2 { &[ATTR_FLAGS, VERIFY_FILE_CRC, VERIFY_FILE_MD5, ARCHIVE_WIDE, 0] } else { &[ATTR_FLAGS, VERIFY_FILE_CRC, ARCHIVE_WIDE, 0] }
}

/// The attribute verifier on one file, then the content.
fn probe_attr(path: &Path, targets: &[&StoredFile], flags: u32) -> Verdict {
    let names: Vec<&str> = targets.iter().map(|f| f.name.as_str()).collect();
    if flags == ARCHIVE_WIDE {
        match c_verify_archive(path, VERIFY_ALL_FILES) {
            None => return Verdict::Detected("SFileOpenArchive:false".into()),
            Some(false) => return Verdict::Detected("SFileVerifyArchive:false".into()),
            Some(true) => {}
        }
    }
    let Some(res) = (if flags == ARCHIVE_WIDE { Some(vec![true; names.len()]) } else { c_verify(path, &names, flags) }) else {
        return Verdict::Detected("SFileOpenArchive:false".into());
    };
    if res.iter().any(|ok| !ok) {
        return Verdict::Detected("SFileVerifyFile:false".into());
    }
    let r = trap(|| -> Verdict {
        let mut a = match Archive::open(path) {
            Ok(a) => a,
            Err(_) => return Verdict::Detected("open:error".into()),
        };
        let mut differs = None;
        for f in targets {
            match a.read_file(&f.name) {
                Err(_) => return Verdict::Detected("read:error".into()),
                Ok(d) => {
                    if d != f.data && differs.is_none() {
                        differs = Some(json!({"SFileVerifyFile": true, "file": f.name, "want": brief(&f.data), "got": brief(&d), "first_diff": first_diff(&d, &f.data)}));
                    }
                }
            }
        }
        match differs {
            None => Verdict::Harmless,
            Some(w) => Verdict::Undetected(w),
        }
    });
    match r {
        Ok(v) => v,
        Err(p) => Verdict::Crash(p.sig()),
    }
}

fn adler32(d: &[u8]) -> u32 {
    let (mut a, mut b) = (1u32, 0u32);
    for &x in d {
        a = (a + x as u32) % 65_521;
        b = (b + a) % 65_521;
    }
    (b << 16) | a
}

fn crc32(d: &[u8]) -> u32 {
    // bitwise CRC-32 (IEEE 802.3), independent of the crate the library uses
    let mut c = 0xFFFF_FFFFu32;
    for &x in d {
        c ^= x as u32;
        for _ in 0..8 {
            c = if c & 1 != 0 { (c >> 1) ^ 0xEDB8_8320 } else { c >> 1 };
        }
    }
    !c
}

fn md5(d: &[u8]) -> [u8; 16] {
    let mut h = Md5::new();
    h.update(d);
    h.finalize().into()
}

/// Where inside `ranges` does `needle` occur (exactly once)?
fn find_unique(bytes: &[u8], ranges: &[(usize, usize)], needle: &[u8], align: usize) -> Option<usize> {
    let mut found = None;
    for &(s, e) in ranges {
        let mut o = s;
        while o + needle.len() <= e {
            if &bytes[o..o + needle.len()] == needle {
                if found.is_some() {
                    return None;
                }
                found = Some(o);
            }
            o += align;
        }
    }
    found
}

#[derive(Clone, Debug)]
struct FSpec {
    /// "attributes" (one region, one corruption kind) | "attr-file" (a region of the attributes file itself) |
    /// "forged-crc32" | "forged-md5" | "zeroed-attrs"
    kind: &'static str,
    cfg: ArcCfg,
    file: usize,
    region: &'static str,
    ck: &'static str,
    /// the flags argument of SFileVerifyFile in this case
    flags: u32,
}

fn fspecs(thorough: bool) -> Vec<FSpec> {
    let cks = if thorough { CK_THOROUGH } else { CK_QUICK };
    let mut v = Vec::new();
    for cfg in crc_cfgs(thorough, &[1, 2]) {
        for file in 0..3 {
            for &region in file_regions(file) {
                for &ck in cks {
                    v.push(FSpec { kind: "attributes", cfg: cfg.clone(), file, region, ck, flags: ATTR_FLAGS });
                }
            }
            // multi-region alterations an attacker-style modification would make: data + one attribute rewritten to match
            if cfg.attr == 2 {
                v.push(FSpec { kind: "forged-crc32", cfg: cfg.clone(), file, region: "file_data+attr_crc32", ck: "x01", flags: ATTR_FLAGS });
                v.push(FSpec { kind: "forged-md5", cfg: cfg.clone(), file, region: "file_data+attr_md5", ck: "x01", flags: ATTR_FLAGS });
            }
            v.push(FSpec { kind: "zeroed-attrs", cfg: cfg.clone(), file, region: "file_data+attrs=0", ck: "x01", flags: ATTR_FLAGS });
        }
        let regs: &[&'static str] = if cfg.attr == 2 { &["attr_header", "attr_crc32", "attr_filetime", "attr_md5"] } else { &["attr_header", "attr_crc32"] };
        for &region in regs {
            for &ck in cks {
                v.push(FSpec { kind: "attr-file", cfg: cfg.clone(), file: NOFILE, region, ck, flags: ATTR_FLAGS });
            }
        }
    }
    // ---- every other flag selection, one at a time (appended after the cases above so that their indices stay put)
    for cfg in crc_cfgs(thorough, &[1, 2]) {
        for file in 0..3 {
            for &flags in &flag_selections(cfg.attr)[1..] {
                // quick: the bulk region only; thorough: every region of the file
                let regs: &[&'static str] = if thorough { file_regions(file) } else { &["file_data"] };
                for &region in regs {
                    v.push(FSpec { kind: "attributes", cfg: cfg.clone(), file, region, ck: "x01", flags });
                }
            }
            if cfg.attr == 2 {
                // the forged attribute is the one NOT asked for alone / the other one must object when asked alone or through 0
                let md5_sel: &[u32] = if thorough { &[VERIFY_FILE_MD5, 0] } else { &[VERIFY_FILE_MD5] };
                let crc_sel: &[u32] = if thorough { &[VERIFY_FILE_CRC, 0] } else { &[VERIFY_FILE_CRC] };
                for &flags in md5_sel {
                    v.push(FSpec { kind: "forged-crc32", cfg: cfg.clone(), file, region: "file_data+attr_crc32", ck: "x01", flags });
                }
                for &flags in crc_sel {
                    v.push(FSpec { kind: "forged-md5", cfg: cfg.clone(), file, region: "file_data+attr_md5", ck: "x01", flags });
                }
            }
        }
    }
    // ---- archives that do not start at file offset 0 (see K7 in the vh-mpq worker)
    for cfg in prefixed_crc_cfgs(thorough, 2) {
        for file in 0..3 {
            for &flags in flag_selections(cfg.attr) {
                if !thorough && flags == 0 {
                    continue;
                }
                v.push(FSpec { kind: "attributes", cfg: cfg.clone(), file, region: "file_data", ck: "x01", flags });
            }
        }
        for &region in &["attr_crc32", "attr_md5"] {
            v.push(FSpec { kind: "attr-file", cfg: cfg.clone(), file: NOFILE, region, ck: "x01", flags: ATTR_FLAGS });
        }
    }
    // ---- the archive-wide verifier while other threads of the process are inside the C API (appended last: indices stay put)
    for cfg in crc_cfgs(thorough, &[1, 2]) {
        for file in [1usize, 2] {
            v.push(FSpec { kind: "concurrent-verify", cfg: cfg.clone(), file, region: "file_data", ck: "x01", flags: ARCHIVE_WIDE });
        }
    }
    v
}

fn main() {
    let mut run = Run::new();
    let thorough = run.args.thorough();
    let dir = PathBuf::from(&run.args.scratch);
    let all = fspecs(thorough);
    for (i, sp) in all.iter().enumerate() {
        let idx = i as u64;
        if !run.want(idx) {
            continue;
        }
        let seed = run.args.seed;
        let mut rng = run.rng(idx, 0);
        let stride = stride_for(sp.region, thorough, &sp.cfg);
        let phase = rng.usize(stride);
        let shape = if sp.file == NOFILE { "archive" } else { ["single", "3-sector", "9-sector"][sp.file] };
        let class = format!("{}|{}|{}|{}|{}{}", sp.kind, sp.cfg.label(), shape, sp.region, sp.ck, flags_sfx(sp.flags));
        let desc = json!({"kind": sp.kind, "verifier": format!("SFileVerifyFile(flags = {})", flags_name(sp.flags)), "archive": sp.cfg.to_json(), "file_shape": shape, "region": sp.region, "corruption": sp.ck, "stride": stride, "phase": phase});
        let path = dir.join(format!("c10f-{idx}.mpq"));
        run.case(idx, &class, desc, |c| {
            let b = match build(&sp.cfg, seed, &path) {
                Ok(b) => b,
                Err(e) => {
                    c.inconclusive(format!("archive generator: {e}"));
                    return;
                }
            };
            if sp.kind == "concurrent-verify" {
                concurrent_case(c, sp, &b, phase);
            } else {
                attr_case(c, sp, &b, stride, phase);
            }
            let _ = std::fs::remove_file(&path);
        });
    }
    run.done();
}

fn attr_name(a: u8) -> &'static str {
    if a == 2 { "attr-crc32+md5" } else { "attr-crc32" }
}

fn baseline(c: &mut Case, sp: &FSpec, b: &Built) -> bool {
    let (method, enc) = (method_name(sp.cfg.method), sp.cfg.enc_name());
    let users: Vec<&StoredFile> = b.user_files().map(|x| x.1).collect();
    // the intact archive verifies for every file it holds, the one without content included
    let verified: Vec<&StoredFile> = b.files.iter().filter(|f| matches!(f.shape, "single" | "3-sector" | "9-sector" | "empty")).collect();
    let names: Vec<&str> = verified.iter().map(|f| f.name.as_str()).collect();
    let scratch = b.path.parent().unwrap().to_path_buf();
    // in a child as well: the intact archive must not abort the caller either
    let v = isolated(&scratch, || {
        for (flags, fname) in [(ATTR_FLAGS, "FILE_CRC|FILE_MD5"), (VERIFY_SECTOR_CRC | ATTR_FLAGS, "SECTOR_CRC|FILE_CRC|FILE_MD5"), (0u32, "0 (= everything available)"), (VERIFY_FILE_CRC, "FILE_CRC"), (VERIFY_FILE_MD5, "FILE_MD5")] {
            match c_verify(&b.path, &names, flags) {
                None => return Verdict::Detected("SFileOpenArchive returned false".into()),
                Some(r) => {
                    for (k, ok) in r.iter().enumerate() {
                        if !ok {
                            return Verdict::Detected(format!("SFileVerifyFile({:?}, flags = {fname}) returned false|{}", names[k], verified[k].shape_sig()));
                        }
                    }
                }
            }
        }
        match c_verify_archive(&b.path, VERIFY_SIGNATURE) {
            Some(true) => {}
            _ => return Verdict::Detected("SFileVerifyArchive(SIGNATURE) returned false on an unsigned archive|archive".into()),
        }
        match c_verify_archive(&b.path, VERIFY_ALL_FILES) {
            Some(true) => {}
            _ => return Verdict::Detected("SFileVerifyArchive(ALL_FILES) returned false|archive".into()),
        }
        probe_attr(&b.path, &users, sp.flags)
    });
    c.count("baseline_verifications", 6 * names.len() as u64 + 1);
    match v {
        Verdict::Harmless => true,
        Verdict::Detected(why) => {
            let shape = why.rsplit('|').next().unwrap_or("archive").to_string();
            c.violate(format!("intact-fails|attributes|SFileVerifyFile|{shape}|{method}|{enc}|{}{}", attr_name(sp.cfg.attr), off_sfx(&sp.cfg)), format!("verifying the unmodified archive fails: {}", why.split('|').next().unwrap_or("")), json!({}));
            false
        }
        Verdict::Undetected(d) => {
            c.violate(format!("intact-differs|attributes|read_file|archive|{method}|{enc}{}", off_sfx(&sp.cfg)), "the unmodified archive does not read back what was added", d);
            false
        }
        Verdict::Crash(s) => {
            c.violate(format!("intact-fails|attributes|SFileVerifyFile|archive|{method}|{enc}|{s}{}", off_sfx(&sp.cfg)), format!("verifying the unmodified archive crashes: {s}"), json!({}));
            false
        }
    }
}

/// A corrupted archive never verifies, whatever other threads of the process do with the C API meanwhile: one data byte of
/// a file is altered (SFileVerifyArchive(ALL_FILES) answers false when it runs alone), then the same call is repeated while
/// three threads stream another file in small reads, seek, and ask for the last error.
fn concurrent_case(c: &mut Case, sp: &FSpec, b: &Built, phase: usize) {
    let (method, enc) = (method_name(sp.cfg.method), sp.cfg.enc_name());
    if !baseline(c, sp, b) {
        return;
    }
    let users: Vec<&StoredFile> = b.user_files().map(|x| x.1).collect();
    let f = users[sp.file];
    let other = users[0].name.clone();
    let fi = b.files.iter().position(|x| x.name == f.name);
    let Some(r) = b.region("file_data", fi) else {
        c.skip("no file_data region".to_string());
        c.nontrivial = false;
        return;
    };
    let (start, len) = r.ranges[0];
    let at = start + (len / 2 + phase) % len.max(1);
    let mut bytes = b.bytes.clone();
    bytes[at] ^= 0x01;
    let scratch = b.path.parent().unwrap().to_path_buf();
    let p2 = scratch.join(format!("c10f-conc-{}.mpq", std::process::id()));
    if std::fs::write(&p2, &bytes).is_err() {
        c.inconclusive("cannot write the altered archive".to_string());
        return;
    }
    let rounds = 400u32;
    let v = isolated(&scratch, || {
        match c_verify_archive(&p2, VERIFY_ALL_FILES) {
            None => return Verdict::Detected("open-fails".into()),
            Some(true) => return Verdict::Harmless,
            Some(false) => {}
        }
        let p = CString::new(p2.to_string_lossy().as_bytes()).unwrap();
        unsafe {
            let mut h: HANDLE = ptr::null_mut();
            if !SFileOpenArchive(p.as_ptr(), 0, 0, &mut h) {
                return Verdict::Detected("open-fails".into());
            }
            let stop = std::sync::atomic::AtomicBool::new(false);
            let ha = h as usize;
            let mut wrong = 0u32;
            let mut first_wrong = 0u32;
            let streamed = std::sync::atomic::AtomicU64::new(0);
            std::thread::scope(|sc| {
                for t in 0..3usize {
                    let (stop, streamed, other) = (&stop, &streamed, &other);
                    sc.spawn(move || {
                        let cn = CString::new(other.as_str()).unwrap();
                        let mut fh: HANDLE = ptr::null_mut();
                        if !SFileOpenFileEx(ha as HANDLE, cn.as_ptr(), 0, &mut fh) {
                            return;
                        }
                        let mut buf = [0u8; 8];
                        let mut got = 0u32;
                        while !stop.load(std::sync::atomic::Ordering::Relaxed) {
                            let ok = SFileReadFile(fh, buf.as_mut_ptr() as *mut _, 8, &mut got, ptr::null_mut());
                            streamed.fetch_add(1, std::sync::atomic::Ordering::Relaxed);
                            if !ok || got < 8 {
                                SFileSetFilePointer(fh, 0, ptr::null_mut(), 0);
                            }
                            if t == 2 {
                                let _ = SFileGetLastError();
                                SFileSetLastError(0);
                            }
                        }
                        SFileCloseFile(fh);
                    });
                }
                for round in 0..rounds {
                    if SFileVerifyArchive(ha as HANDLE, VERIFY_ALL_FILES) {
                        if wrong == 0 {
                            first_wrong = round;
                        }
                        wrong += 1;
                    }
                }
                stop.store(true, std::sync::atomic::Ordering::Relaxed);
            });
            SFileCloseArchive(h);
            let calls = streamed.load(std::sync::atomic::Ordering::Relaxed);
            if wrong > 0 {
                Verdict::Undetected(json!({"rounds": rounds, "answered_true": wrong, "first_in_round": first_wrong, "api_calls_of_other_threads": calls}))
            } else {
                Verdict::Detected(format!("all-rounds-false|{calls}"))
            }
        }
    });
    let _ = std::fs::remove_file(&p2);
    match v {
        Verdict::Detected(s) if s.starts_with("all-rounds-false") => {
            c.count("concurrent_verify_rounds", rounds as u64);
            c.count("concurrent_api_calls_of_other_threads", s.rsplit('|').next().and_then(|x| x.parse::<u64>().ok()).unwrap_or(0));
        }
        Verdict::Detected(_) => {
            c.count("concurrent_setup_open_fails", 1);
            c.nontrivial = false;
        }
        Verdict::Harmless => {
            // the altered byte is not covered by anything this archive carries for that call: nothing to demand
            c.count("concurrent_setup_not_detected_alone", 1);
            c.nontrivial = false;
        }
        Verdict::Undetected(d) => c.violate(
            format!("undetected|concurrent|SFileVerifyArchive(ALL_FILES)|other-threads-in-api|{method}|{enc}|{}", attr_name(sp.cfg.attr)),
            format!("SFileVerifyArchive(ALL_FILES) answers false for the altered archive when it runs alone and true in some rounds while other threads read through the C API ({} {:?})", f.shape, f.name),
            d,
        ),
        Verdict::Crash(s) => c.violate(format!("crash|concurrent|SFileVerifyArchive(ALL_FILES)|{s}"), format!("the process crashed: {s}"), json!({})),
    }
}

fn attr_case(c: &mut Case, sp: &FSpec, b: &Built, stride: usize, phase: usize) {
    let (method, enc) = (method_name(sp.cfg.method), sp.cfg.enc_name());
    if !baseline(c, sp, b) {
        return;
    }
    let users: Vec<&StoredFile> = b.user_files().map(|x| x.1).collect();
    let akind = format!("{}{}{}", attr_name(sp.cfg.attr), flags_sfx(sp.flags), off_sfx(&sp.cfg));
    let fl = flags_name(sp.flags);
    c.count(&format!("cases_by_verifier_flags|{fl}"), 1);
    if sp.kind == "attr-file" {
        // bytes of the (attributes) file itself: file contents cannot change; the verifier may or may not object
        let Some(r) = b.region(sp.region, None) else {
            c.skip(format!("no region {}", sp.region));
            c.nontrivial = false;
            return;
        };
        let alts = alterations(&b.bytes, &r.ranges, sp.ck, stride, phase);
        let t = sweep(c, b, r.ranges[0].0, alts, &[], true, || probe_attr(&b.path, &users, sp.flags));
        t.flush(c, &format!("attributes|{}|archive", sp.region));
        if t.probes == 0 {
            c.nontrivial = false;
        }
        if t.violated > 0 {
            c.violate(format!("undetected|attributes|{}|archive|{method}|{enc}|{akind}", sp.region), format!("{} of {} alterations ({}) of {}: SFileVerifyFile says fine and a file reads back different", t.violated, t.probes, sp.ck, sp.region), t.first_viol.clone().unwrap_or(json!({})));
        }
        return;
    }
    let f = users[sp.file];
    let fi = b.files.iter().position(|x| x.name == f.name);
    let one = [f];
    if sp.kind == "attributes" {
        let Some(r) = b.region(sp.region, fi) else {
            c.skip(format!("no region {} for {}", sp.region, f.name));
            c.nontrivial = false;
            return;
        };
        let alts = alterations(&b.bytes, &r.ranges, sp.ck, stride, phase);
        let t = sweep(c, b, r.ranges[0].0, alts, &[], true, || probe_attr(&b.path, &one, sp.flags));
        t.flush(c, &format!("attributes|{}|{}", sp.region, f.shape));
        c.count(&format!("corrupted_by_verifier_flags|{fl}"), t.probes);
        if t.probes == 0 {
            c.nontrivial = false;
        }
        if t.violated > 0 {
            c.violate(format!("undetected|attributes|{}|{}|{method}|{enc}|{akind}", sp.region, f.shape_sig()), format!("{} of {} alterations ({}) in the {} of the {} file {:?} ({method}, {enc}, {akind}): SFileVerifyFile(flags = {fl}) returned true and read_file returned Ok with different content", t.violated, t.probes, sp.ck, sp.region, f.shape, f.name), t.first_viol.clone().unwrap_or(json!({})));
        }
        return;
    }
    // ---- multi-region alterations: a data byte changes AND attribute entries are rewritten
    let data_r = b.region("file_data", fi).unwrap().clone();
    let crc_r = b.region("attr_crc32", None).map(|r| r.ranges.clone()).unwrap_or_default();
    let md5_r = b.region("attr_md5", None).map(|r| r.ranges.clone()).unwrap_or_default();
    let crc_at = find_unique(&b.bytes, &crc_r, &crc32(&f.data).to_le_bytes(), 4);
    let md5_at = find_unique(&b.bytes, &md5_r, &md5(&f.data), 16);
    c.count("attribute_entries_located", crc_at.is_some() as u64 + md5_at.is_some() as u64);
    if crc_at.is_none() || (sp.cfg.attr == 2 && md5_at.is_none()) {
        // the stored attribute is not the CRC-32 / MD5 of the content as an independent implementation computes it
        c.inconclusive(format!("cannot locate the attribute entries of {} (crc32 {:?}, md5 {:?})", f.name, crc_at, md5_at));
        return;
    }
    let unit_crc = b.region("unit_crc", fi).map(|r| r.ranges[0].0);
    let plain_raw_single = f.shape == "single" && f.flags & (FLAG_COMPRESS | FLAG_ENCRYPTED) == 0;
    let alts = alterations(&b.bytes, &data_r.ranges, sp.ck, stride, phase);
    let scratch = b.path.parent().unwrap().to_path_buf();
    let p = match Patcher::new(&b.path, &b.bytes) {
        Ok(p) => p,
        Err(e) => {
            c.inconclusive(format!("cannot patch scratch archive: {e}"));
            return;
        }
    };
    let mut t = Tally::default();
    let mut not_forgeable = 0u64;
    for mut alt in alts {
        if is_noop(&b.bytes, &alt) {
            t.noop += 1;
            continue;
        }
        if plain_raw_single {
            // stored bytes are the content: keep the unit checksum consistent so that read_file accepts the altered content
            let mut nd = f.data.clone();
            for &(o, v) in &alt {
                nd[o - f.pos] = v;
            }
            if let Some(u) = unit_crc {
                for (k, byte) in adler32(&nd).to_le_bytes().iter().enumerate() {
                    alt.push((u + k, *byte));
                }
            }
        }
        p.apply(&alt);
        // what does the reader return now? (in a child: sizes are not touched here, but keep the worker safe)
        let got: Option<Vec<u8>> = match isolated(&scratch, || match trap(|| Archive::open(&b.path).and_then(|mut a| a.read_file(&f.name))) {
            Ok(Ok(d)) => Verdict::Undetected(json!(vh_common::hex(&d))),
            _ => Verdict::Harmless,
        }) {
            Verdict::Undetected(h) => Some(vh_common::unhex(h.as_str().unwrap_or(""))),
            _ => None,
        };
        let Some(got) = got.filter(|g| *g != f.data) else {
            // the read already fails (or the content is unchanged): nothing to forge at this offset
            not_forgeable += 1;
            p.restore(&alt);
            continue;
        };
        let mut extra: Vec<(usize, u8)> = Vec::new();
        match sp.kind {
            "forged-crc32" => {
                for (k, byte) in crc32(&got).to_le_bytes().iter().enumerate() {
                    extra.push((crc_at.unwrap() + k, *byte));
                }
            }
            "forged-md5" => {
                for (k, byte) in md5(&got).iter().enumerate() {
                    extra.push((md5_at.unwrap() + k, *byte));
                }
            }
            _ => {
                for k in 0..4 {
                    extra.push((crc_at.unwrap() + k, 0));
                }
                if let Some(m) = md5_at {
                    for k in 0..16 {
                        extra.push((m + k, 0));
                    }
                }
            }
        }
        p.apply(&extra);
        let v = isolated(&scratch, || probe_attr(&b.path, &one, sp.flags));
        p.restore(&extra);
        p.restore(&alt);
        alt.extend(extra);
        t.add(v, &alt, data_r.ranges[0].0, &b.bytes);
    }
    c.count(&format!("offsets_where_read_already_fails|{}", sp.kind), not_forgeable);
    t.flush(c, &format!("attributes|{}|{}", sp.region, f.shape));
    c.count(&format!("corrupted_by_verifier_flags|{fl}"), t.probes);
    if t.probes == 0 {
        c.nontrivial = false;
        c.skip(format!("no offset of {} where read_file accepts altered content ({not_forgeable} tried)", f.name));
        return;
    }
    if t.violated > 0 {
        let what = match sp.kind {
            "forged-crc32" => "a data byte altered and the CRC32 attribute rewritten to match: the MD5 attribute must object",
            "forged-md5" => "a data byte altered and the MD5 attribute rewritten to match: the CRC32 attribute must object",
            _ => "a data byte altered and the file's CRC32/MD5 attribute entries zeroed",
        };
        c.violate(format!("undetected|attributes|{}|{}|{method}|{enc}|{akind}", sp.region, f.shape_sig()), format!("{} of {} alterations of the {} file {:?} ({what}): SFileVerifyFile(flags = {fl}) returned true and read_file returned Ok with different content", t.violated, t.probes, f.shape, f.name), t.first_viol.clone().unwrap_or(json!({})));
    }
}
