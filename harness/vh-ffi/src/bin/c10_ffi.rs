//! C10 (C-API half) — CRC32 / MD5 attributes: the verifier the statement names is `SFileVerifyFile` (flags
//! FILE_CRC | FILE_MD5) of the `#[path]`-included storm-ffi source; content is read with `Archive::read_file`.
//! Archive generator, region map, corruption enumerator and fork isolation come from the vh-mpq worker's source
//! (included as a module, the same way c05_mpq.rs shares c05_common.rs).
//!
//! Verdict per altered archive: detected (SFileOpenArchive fails | SFileVerifyFile returns false | read_file fails) |
//! harmless (verify says fine and the content is bit-identical) | undetected-and-different (verify says fine, read_file
//! returns Ok with other bytes) = violation.
//! Every probe runs in a forked child: a panic inside an `extern "C"` function aborts the process and could not be trapped.
//!
//! Verifier flags are an axis of their own: each selection a caller can make is driven individually (FILE_CRC|FILE_MD5,
//! FILE_CRC alone, FILE_MD5 alone, 0 = "everything available"), and detection is demanded exactly when the archive carries
//! the attribute the selection names (FILE_MD5 alone on a CRC32-only archive has nothing to compare and is not driven).

#[path = "../../../vh-mpq/src/bin/c10.rs"]
#[allow(dead_code, unused_imports)]
mod base;

use base::*;
use md5::{Digest, Md5};
use serde_json::json;
use std::ffi::CString;
use std::path::{Path, PathBuf};
use std::ptr;
use vh_common::{Case, Rng, Run, brief, first_diff, fnv64, gen_content, trap};
use vh_ffi::storm::*;
use wow_mpq::compression::CompressionMethod;
use wow_mpq::{AddFileOptions, Archive, MutableArchive};

const VERIFY_SECTOR_CRC: u32 = 0x01;
const VERIFY_FILE_CRC: u32 = 0x02;
const VERIFY_FILE_MD5: u32 = 0x04;
const VERIFY_SIGNATURE: u32 = 0x10;
const ATTR_FLAGS: u32 = VERIFY_FILE_CRC | VERIFY_FILE_MD5;
const VERIFY_ALL_FILES: u32 = 0x20;
/// Pseudo selection: the archive-wide verifier SFileVerifyArchive(ALL_FILES) instead of SFileVerifyFile on the name.
const ARCHIVE_WIDE: u32 = 0x1000;

/// SFileOpenArchive + SFileVerifyFile(name, flags) + SFileCloseArchive. None = the archive did not open.
fn c_verify(path: &Path, names: &[&str], flags: u32) -> Option<Vec<bool>> {
    let p = CString::new(path.to_string_lossy().as_bytes()).unwrap();
    unsafe {
        let mut h: HANDLE = ptr::null_mut();
        if !SFileOpenArchive(p.as_ptr(), 0, 0, &mut h) {
            return None;
        }
        let mut out = Vec::new();
        for n in names {
            let cn = CString::new(*n).unwrap();
            out.push(SFileVerifyFile(h, cn.as_ptr(), flags));
        }
        SFileCloseArchive(h);
        Some(out)
    }
}

fn c_verify_archive(path: &Path, flags: u32) -> Option<bool> {
    let p = CString::new(path.to_string_lossy().as_bytes()).unwrap();
    unsafe {
        let mut h: HANDLE = ptr::null_mut();
        if !SFileOpenArchive(p.as_ptr(), 0, 0, &mut h) {
            return None;
        }
        let r = SFileVerifyArchive(h, flags);
        SFileCloseArchive(h);
        Some(r)
    }
}

/// Name of a flag selection, for class strings, descriptions and signatures.
fn flags_name(flags: u32) -> &'static str {
    match flags {
        0 => "0",
        VERIFY_FILE_CRC => "FILE_CRC",
        VERIFY_FILE_MD5 => "FILE_MD5",
        ATTR_FLAGS => "FILE_CRC|FILE_MD5",
        ARCHIVE_WIDE => "SFileVerifyArchive(ALL_FILES)",
        _ => "other",
    }
}

/// Signature suffix: nothing for the selection the check always used, the selection itself otherwise.
fn flags_sfx(flags: u32) -> String {
    if flags == ATTR_FLAGS { String::new() } else { format!("|flags={}", flags_name(flags)) }
}

/// The flag selections whose attribute the archive carries (attr 1 = CRC32 only, 2 = CRC32 + MD5).
fn flag_selections(attr: u8) -> &'static [u32] {
    if attr == 2 { &[ATTR_FLAGS, VERIFY_FILE_CRC, VERIFY_FILE_MD5, ARCHIVE_WIDE, 0] } else { &[ATTR_FLAGS, VERIFY_FILE_CRC, ARCHIVE_WIDE, 0] }
}

/// The attribute verifier on one file, then the content.
fn probe_attr(path: &Path, targets: &[&StoredFile], flags: u32) -> Verdict {
    let names: Vec<&str> = targets.iter().map(|f| f.name.as_str()).collect();
    if flags == ARCHIVE_WIDE {
        match c_verify_archive(path, VERIFY_ALL_FILES) {
            None => return Verdict::Detected("SFileOpenArchive:false".into()),
            Some(false) => return Verdict::Detected("SFileVerifyArchive:false".into()),
            Some(true) => {}
        }
    }
    let Some(res) = (if flags == ARCHIVE_WIDE { Some(vec![true; names.len()]) } else { c_verify(path, &names, flags) }) else {
        return Verdict::Detected("SFileOpenArchive:false".into());
    };
    if res.iter().any(|ok| !ok) {
        return Verdict::Detected("SFileVerifyFile:false".into());
    }
    let r = trap(|| -> Verdict {
        let mut a = match Archive::open(path) {
            Ok(a) => a,
            Err(_) => return Verdict::Detected("open:error".into()),
        };
        let mut differs = None;
        for f in targets {
            match a.read_file(&f.name) {
                Err(_) => return Verdict::Detected("read:error".into()),
                Ok(d) => {
                    if d != f.data && differs.is_none() {
                        differs = Some(json!({"SFileVerifyFile": true, "file": f.name, "want": brief(&f.data), "got": brief(&d), "first_diff": first_diff(&d, &f.data)}));
                    }
                }
            }
        }
        match differs {
            None => Verdict::Harmless,
            Some(w) => Verdict::Undetected(w),
        }
    });
    match r {
        Ok(v) => v,
        Err(p) => Verdict::Crash(p.sig()),
    }
}

fn adler32(d: &[u8]) -> u32 {
    let (mut a, mut b) = (1u32, 0u32);
    for &x in d {
        a = (a + x as u32) % 65_521;
        b = (b + a) % 65_521;
    }
    (b << 16) | a
}

fn crc32(d: &[u8]) -> u32 {
    // bitwise CRC-32 (IEEE 802.3), independent of the crate the library uses
    let mut c = 0xFFFF_FFFFu32;
    for &x in d {
        c ^= x as u32;
        for _ in 0..8 {
            c = if c & 1 != 0 { (c >> 1) ^ 0xEDB8_8320 } else { c >> 1 };
        }
    }
    !c
}

fn md5(d: &[u8]) -> [u8; 16] {
    let mut h = Md5::new();
    h.update(d);
    h.finalize().into()
}

/// Where inside `ranges` does `needle` occur (exactly once)?
fn find_unique(bytes: &[u8], ranges: &[(usize, usize)], needle: &[u8], align: usize) -> Option<usize> {
    let mut found = None;
    for &(s, e) in ranges {
        let mut o = s;
        while o + needle.len() <= e {
            if &bytes[o..o + needle.len()] == needle {
                if found.is_some() {
                    return None;
                }
                found = Some(o);
            }
            o += align;
        }
    }
    found
}

#[derive(Clone, Debug)]
struct FSpec {
    /// "attributes" (one region, one corruption kind) | "attr-file" (a region of the attributes file itself) |
    /// "forged-crc32" | "forged-md5" | "zeroed-attrs"
    kind: &'static str,
    cfg: ArcCfg,
    file: usize,
    region: &'static str,
    ck: &'static str,
    /// the flags argument of SFileVerifyFile in this case
    flags: u32,
}

fn fspecs(thorough: bool) -> Vec<FSpec> {
    let cks = if thorough { CK_THOROUGH } else { CK_QUICK };
    let mut v = Vec::new();
    for cfg in crc_cfgs(thorough, &[1, 2]) {
        for file in 0..3 {
            for &region in file_regions(file) {
                for &ck in cks {
                    v.push(FSpec { kind: "attributes", cfg: cfg.clone(), file, region, ck, flags: ATTR_FLAGS });
                }
            }
            // multi-region alterations an attacker-style modification would make: data + one attribute rewritten to match
            if cfg.attr == 2 {
                v.push(FSpec { kind: "forged-crc32", cfg: cfg.clone(), file, region: "file_data+attr_crc32", ck: "x01", flags: ATTR_FLAGS });
                v.push(FSpec { kind: "forged-md5", cfg: cfg.clone(), file, region: "file_data+attr_md5", ck: "x01", flags: ATTR_FLAGS });
            }
            v.push(FSpec { kind: "zeroed-attrs", cfg: cfg.clone(), file, region: "file_data+attrs=0", ck: "x01", flags: ATTR_FLAGS });
        }
        let regs: &[&'static str] = if cfg.attr == 2 { &["attr_header", "attr_crc32", "attr_filetime", "attr_md5"] } else { &["attr_header", "attr_crc32"] };
        for &region in regs {
            for &ck in cks {
                v.push(FSpec { kind: "attr-file", cfg: cfg.clone(), file: NOFILE, region, ck, flags: ATTR_FLAGS });
            }
        }
    }
    // ---- every other flag selection, one at a time (appended after the cases above so that their indices stay put)
    for cfg in crc_cfgs(thorough, &[1, 2]) {
        for file in 0..3 {
            for &flags in &flag_selections(cfg.attr)[1..] {
                // quick: the bulk region only; thorough: every region of the file
                let regs: &[&'static str] = if thorough { file_regions(file) } else { &["file_data"] };
                for &region in regs {
                    v.push(FSpec { kind: "attributes", cfg: cfg.clone(), file, region, ck: "x01", flags });
                }
            }
            if cfg.attr == 2 {
                // the forged attribute is the one NOT asked for alone / the other one must object when asked alone or through 0
                let md5_sel: &[u32] = if thorough { &[VERIFY_FILE_MD5, 0] } else { &[VERIFY_FILE_MD5] };
                let crc_sel: &[u32] = if thorough { &[VERIFY_FILE_CRC, 0] } else { &[VERIFY_FILE_CRC] };
                for &flags in md5_sel {
                    v.push(FSpec { kind: "forged-crc32", cfg: cfg.clone(), file, region: "file_data+attr_crc32", ck: "x01", flags });
                }
                for &flags in crc_sel {
                    v.push(FSpec { kind: "forged-md5", cfg: cfg.clone(), file, region: "file_data+attr_md5", ck: "x01", flags });
                }
            }
        }
    }
    // ---- archives that do not start at file offset 0 (see K7 in the vh-mpq worker)
    for cfg in prefixed_crc_cfgs(thorough, 2) {
        for file in 0..3 {
            for &flags in flag_selections(cfg.attr) {
                if !thorough && flags == 0 {
                    continue;
                }
                v.push(FSpec { kind: "attributes", cfg: cfg.clone(), file, region: "file_data", ck: "x01", flags });
            }
        }
        for &region in &["attr_crc32", "attr_md5"] {
            v.push(FSpec { kind: "attr-file", cfg: cfg.clone(), file: NOFILE, region, ck: "x01", flags: ATTR_FLAGS });
        }
    }
    // ---- the archive-wide verifier while other threads of the process are inside the C API (appended last: indices stay put)
    for cfg in crc_cfgs(thorough, &[1, 2]) {
        for file in [1usize, 2] {
            v.push(FSpec { kind: "concurrent-verify", cfg: cfg.clone(), file, region: "file_data", ck: "x01", flags: ARCHIVE_WIDE });
        }
    }
    // ---- bzip2 / LZMA / sparse sectors and fix-key encryption under CRC32 + MD5 attributes (K9 of the vh-mpq worker)
    for cfg in codec_cfgs(thorough, 2) {
        for file in 0..3 {
            for &region in file_regions(file) {
                if !thorough && !(region == "file_data" && file != 1) {
                    continue;
                }
                for &ck in cks {
                    v.push(FSpec { kind: "attributes", cfg: cfg.clone(), file, region, ck, flags: ATTR_FLAGS });
                }
            }
            if thorough {
                v.push(FSpec { kind: "attributes", cfg: cfg.clone(), file, region: "file_data", ck: "x01", flags: ARCHIVE_WIDE });
            }
        }
    }
    // ---- archives whose integrity metadata is NOT the builder's: a file added through MutableArchive (+ flush, which
    // rewrites the attributes), or the whole content added through SFileCreateArchive2 + SFileAddFileEx + SFileFlushArchive.
    // V1 / V2 and add + flush only (V3+ modification and compaction are known findings of C06).
    // (version, shift, codec of the added file, encrypted, fix key, attributes)
    let fresh_all: &[(u8, u16, u8, bool, bool, u8)] = &[
        (1, 0, 0, false, false, 1),
        (2, 3, 0x02, true, false, 2),
        (1, 0, 0x10, true, true, 1),
        (2, 0, 0x02, false, false, 2),
        (1, 3, 0x12, false, false, 2),
        (2, 0, 0x20, true, false, 1),
        (1, 0, 0, true, true, 2),
        (2, 3, 0x10, false, false, 1),
    ];
    for (k, &(version, shift, method, enc, fixkey, attr)) in fresh_all[..if thorough { fresh_all.len() } else { 3 }].iter().enumerate() {
        let cfg = ArcCfg { version, shift, method, enc, attr, tblcomp: false, signed: 0, prefix: 0, fixkey, tblcodec: 0 };
        for kind in ["fresh-attrs-mutable", "fresh-attrs-capi"] {
            let sels: &[u32] = if thorough { flag_selections(attr) } else if k == 0 { &[ATTR_FLAGS, ARCHIVE_WIDE] } else { &[ATTR_FLAGS] };
            for &flags in sels {
                v.push(FSpec { kind, cfg: cfg.clone(), file: NOFILE, region: "added:file_data", ck: "x01", flags });
            }
        }
    }
    v
}

const ADDED_NAME: &str = "added\\fresh.dat";

fn codec_enum(m: u8) -> CompressionMethod {
    match m {
        0x02 => CompressionMethod::Zlib,
        0x10 => CompressionMethod::BZip2,
        0x12 => CompressionMethod::Lzma,
        0x20 => CompressionMethod::Sparse,
        _ => CompressionMethod::None,
    }
}

fn added_content(seed: u64, cfg: &ArcCfg, lane: u64, len: usize) -> Vec<u8> {
    let mut rng = Rng::for_case(seed, fnv64(cfg.label().as_bytes()), lane);
    let n = len + rng.usize(300);
    let mut d = gen_content(&mut rng, "text", n);
    if cfg.method == 0x20 {
        let n = d.len();
        d[n / 4..n / 2].fill(0);
    }
    d
}

/// Appending grows the V1/V2 block table in place by 16 bytes per new block while the appended data starts at the next
/// 512-byte boundary behind it: with less slack than that the first added bytes are overwritten (known finding of C06,
/// `block-table growth past the slack`). Those archives are not this check's business.
fn slack_ok(archive_len: usize, new_blocks: usize) -> bool {
    let slack = (512 - archive_len % 512) % 512;
    slack >= 16 * new_blocks
}

/// After the archive at b.path was changed by the library: the region map of what is swept (file data of `names`), taken
/// from the library's own find_file answers. Files the builder wrote must still sit where they were.
fn remap(b: &Built, added: &[(String, Vec<u8>)]) -> Result<Built, String> {
    let bytes = std::fs::read(&b.path).map_err(|e| e.to_string())?;
    let a = Archive::open(&b.path).map_err(|e| format!("open after modification failed: {e}"))?;
    let mut files: Vec<StoredFile> = Vec::new();
    let mut regions: Vec<Region> = Vec::new();
    for f in b.files.iter().filter(|f| matches!(f.shape, "single" | "3-sector" | "9-sector" | "empty")) {
        let fi = a.find_file(&f.name).map_err(|e| e.to_string())?.ok_or(format!("{} is gone after the modification", f.name))?;
        if fi.file_pos as usize != f.pos || fi.compressed_size as usize != f.csize || fi.flags != f.flags {
            return Err(format!("{} moved / changed its block although it was not touched", f.name));
        }
        let old = b.files.iter().position(|x| x.name == f.name);
        for r in b.regions.iter().filter(|r| r.file == old && old.is_some()) {
            regions.push(Region { kind: r.kind, file: Some(files.len()), ranges: r.ranges.clone() });
        }
        files.push(f.clone());
    }
    for (name, data) in added {
        let fi = a.find_file(name).map_err(|e| e.to_string())?.ok_or(format!("{name} is not in the archive after add + flush"))?;
        let (pos, csize) = (fi.file_pos as usize, fi.compressed_size as usize);
        if pos + csize > bytes.len() {
            return Err(format!("{name}: block beyond the end of the file"));
        }
        if fi.flags & FLAG_SINGLE_UNIT == 0 {
            return Err(format!("{name}: added file is not stored as a single unit (flags {:08x}); no region map for that", fi.flags));
        }
        regions.push(Region { kind: "file_data", file: Some(files.len()), ranges: vec![(pos, pos + csize)] });
        files.push(StoredFile { name: name.clone(), shape: "added", data: data.clone(), pos, csize, fsize: fi.file_size as usize, flags: fi.flags, block_index: fi.block_index, stored: csize });
    }
    Ok(Built { path: b.path.clone(), bytes, files, regions, sector: b.sector, baseline_md5: None })
}

/// Witness detail: what the (attributes) file of the archive says about each file next to what an independent CRC-32 / MD5 of
/// the content that was added gives.
fn stored_vs_actual(fb: &Built) -> serde_json::Value {
    let r = trap(|| -> Vec<serde_json::Value> {
        let Ok(mut a) = Archive::open(&fb.path) else { return vec![json!("archive does not open")] };
        let loaded = a.load_attributes().map_err(|e| e.to_string());
        fb.files
            .iter()
            .map(|f| {
                let at = a.get_file_attributes(f.block_index);
                json!({"name": f.name, "shape": f.shape, "block_index": f.block_index, "load_attributes": format!("{loaded:?}"),
                       "stored_crc32": at.as_ref().and_then(|x| x.crc32).map(|x| format!("{x:08x}")), "content_crc32": format!("{:08x}", crc32(&f.data)),
                       "stored_md5": at.as_ref().and_then(|x| x.md5).map(|x| vh_common::hex(&x)), "content_md5": vh_common::hex(&md5(&f.data))})
            })
            .collect()
    });
    json!(r.unwrap_or_default())
}

/// Everything through the C API: SFileCreateArchive2(attr flags) + SFileAddFileEx per file + SFileFlushArchive; the
/// still-open (mutable) handle is then asked to verify what it has just written; SFileCloseArchive.
/// Runs in a child (a panic inside extern "C" aborts). Answer: Detected("ok|<json>") or Detected("fail|<step>").
fn capi_create(path: &Path, cfg: &ArcCfg, files: &[(String, Vec<u8>)], scratch: &Path) -> Verdict {
    isolated(scratch, || unsafe {
        let _ = std::fs::remove_file(path);
        let mut info: SFILE_CREATE_MPQ = std::mem::zeroed();
        info.cb_size = std::mem::size_of::<SFILE_CREATE_MPQ>() as u32;
        info.mpq_version = cfg.version as u32;
        info.file_flags_1 = 1;
        info.file_flags_2 = 1;
        info.attr_flags = if cfg.attr == 2 { 0x01 | 0x02 | 0x04 } else { 0x01 };
        info.sector_size = cfg.shift as u32;
        info.max_file_count = 16;
        let p = CString::new(path.to_string_lossy().as_bytes()).unwrap();
        let mut h: HANDLE = ptr::null_mut();
        if !SFileCreateArchive2(p.as_ptr(), &info, &mut h) {
            return Verdict::Detected(format!("fail|SFileCreateArchive2 (error {})", SFileGetLastError()));
        }
        let empty_len = std::fs::metadata(path).map(|m| m.len() as usize).unwrap_or(0);
        if !slack_ok(empty_len, files.len()) {
            SFileCloseArchive(h);
            return Verdict::Detected("fail|c06-slack".into());
        }
        for (k, (name, data)) in files.iter().enumerate() {
            let src = scratch.join(format!("c10f-src-{}-{k}.bin", std::process::id()));
            if std::fs::write(&src, data).is_err() {
                return Verdict::Detected("fail|harness cannot write the source file".into());
            }
            let cs = CString::new(src.to_string_lossy().as_bytes()).unwrap();
            let cn = CString::new(name.as_str()).unwrap();
            let fl = if cfg.enc { 0x0001_0000u32 } else { 0 } | if cfg.enc && cfg.fixkey { 0x0002_0000 } else { 0 };
            let ok = SFileAddFileEx(h, cs.as_ptr(), cn.as_ptr(), fl, cfg.method as u32, 0);
            let _ = std::fs::remove_file(&src);
            if !ok {
                SFileCloseArchive(h);
                return Verdict::Detected(format!("fail|SFileAddFileEx (error {})", SFileGetLastError()));
            }
        }
        if !SFileFlushArchive(h) {
            SFileCloseArchive(h);
            return Verdict::Detected(format!("fail|SFileFlushArchive (error {})", SFileGetLastError()));
        }
        // the handle that wrote the metadata verifies it (ArchiveHandle::Mutable arm)
        let mut per_file = Vec::new();
        for (name, _) in files {
            let cn = CString::new(name.as_str()).unwrap();
            let ok = SFileVerifyFile(h, cn.as_ptr(), ATTR_FLAGS);
            per_file.push(json!({"name": name, "ok": ok, "err": if ok { 0 } else { SFileGetLastError() }}));
        }
        let all = SFileVerifyArchive(h, VERIFY_ALL_FILES);
        SFileCloseArchive(h);
        Verdict::Detected(format!("ok|{}", json!({"files": per_file, "archive": all})))
    })
}

fn main() {
    let mut run = Run::new();
    let thorough = run.args.thorough();
    let dir = PathBuf::from(&run.args.scratch);
    let all = fspecs(thorough);
    for (i, sp) in all.iter().enumerate() {
        let idx = i as u64;
        if !run.want(idx) {
            continue;
        }
        let seed = run.args.seed;
        let mut rng = run.rng(idx, 0);
        let stride = stride_for(sp.region, thorough, &sp.cfg);
        let phase = rng.usize(stride);
        let shape = if sp.file == NOFILE { "archive" } else { ["single", "3-sector", "9-sector"][sp.file] };
        let class = format!("{}|{}|{}|{}|{}{}", sp.kind, sp.cfg.label(), shape, sp.region, sp.ck, flags_sfx(sp.flags));
        let desc = json!({"kind": sp.kind, "verifier": format!("SFileVerifyFile(flags = {})", flags_name(sp.flags)), "archive": sp.cfg.to_json(), "file_shape": shape, "region": sp.region, "corruption": sp.ck, "stride": stride, "phase": phase});
        let path = dir.join(format!("c10f-{idx}.mpq"));
        run.case(idx, &class, desc, |c| {
            let b = match build(&sp.cfg, seed, &path) {
                Ok(b) => b,
                Err(e) => {
                    c.inconclusive(format!("archive generator: {e}"));
                    return;
                }
            };
            if sp.kind == "concurrent-verify" {
                concurrent_case(c, sp, &b, phase);
            } else if sp.kind.starts_with("fresh-attrs") {
                fresh_case(c, sp, &b, seed, stride, phase);
            } else {
                attr_case(c, sp, &b, stride, phase);
            }
            let _ = std::fs::remove_file(&path);
        });
    }
    run.done();
}

fn attr_name(a: u8) -> &'static str {
    if a == 2 { "attr-crc32+md5" } else { "attr-crc32" }
}

fn baseline(c: &mut Case, sp: &FSpec, b: &Built) -> bool {
    let (method, enc) = (method_name(sp.cfg.method), sp.cfg.enc_name());
    let users: Vec<&StoredFile> = b.user_files().map(|x| x.1).collect();
    // the intact archive verifies for every file it holds, the one without content included
    let verified: Vec<&StoredFile> = b.files.iter().filter(|f| matches!(f.shape, "single" | "3-sector" | "9-sector" | "empty")).collect();
    let names: Vec<&str> = verified.iter().map(|f| f.name.as_str()).collect();
    let scratch = b.path.parent().unwrap().to_path_buf();
    // in a child as well: the intact archive must not abort the caller either
    let v = isolated(&scratch, || {
        for (flags, fname) in [(ATTR_FLAGS, "FILE_CRC|FILE_MD5"), (VERIFY_SECTOR_CRC | ATTR_FLAGS, "SECTOR_CRC|FILE_CRC|FILE_MD5"), (0u32, "0 (= everything available)"), (VERIFY_FILE_CRC, "FILE_CRC"), (VERIFY_FILE_MD5, "FILE_MD5")] {
            match c_verify(&b.path, &names, flags) {
                None => return Verdict::Detected("SFileOpenArchive returned false".into()),
                Some(r) => {
                    for (k, ok) in r.iter().enumerate() {
                        if !ok {
                            return Verdict::Detected(format!("SFileVerifyFile({:?}, flags = {fname}) returned false|{}", names[k], verified[k].shape_sig()));
                        }
                    }
                }
            }
        }
        match c_verify_archive(&b.path, VERIFY_SIGNATURE) {
            Some(true) => {}
            _ => return Verdict::Detected("SFileVerifyArchive(SIGNATURE) returned false on an unsigned archive|archive".into()),
        }
        match c_verify_archive(&b.path, VERIFY_ALL_FILES) {
            Some(true) => {}
            _ => return Verdict::Detected("SFileVerifyArchive(ALL_FILES) returned false|archive".into()),
        }
        probe_attr(&b.path, &users, sp.flags)
    });
    c.count("baseline_verifications", 6 * names.len() as u64 + 1);
    match v {
        Verdict::Harmless => true,
        Verdict::Detected(why) => {
            let shape = why.rsplit('|').next().unwrap_or("archive").to_string();
            c.violate(format!("intact-fails|attributes|SFileVerifyFile|{shape}|{method}|{enc}|{}{}", attr_name(sp.cfg.attr), off_sfx(&sp.cfg)), format!("verifying the unmodified archive fails: {}", why.split('|').next().unwrap_or("")), json!({}));
            false
        }
        Verdict::Undetected(d) => {
            c.violate(format!("intact-differs|attributes|read_file|archive|{method}|{enc}{}", off_sfx(&sp.cfg)), "the unmodified archive does not read back what was added", d);
            false
        }
        Verdict::Crash(s) => {
            c.violate(format!("intact-fails|attributes|SFileVerifyFile|archive|{method}|{enc}|{s}{}", off_sfx(&sp.cfg)), format!("verifying the unmodified archive crashes: {s}"), json!({}));
            false
        }
    }
}

/// Integrity metadata written by the modification path (not by ArchiveBuilder): the intact archive verifies (every file,
/// every flag selection, the archive-wide verifier, and - C-API route - the handle that wrote it), and alterations of the
/// added file's stored bytes are detected or harmless.
fn fresh_case(c: &mut Case, sp: &FSpec, base: &Built, seed: u64, stride: usize, phase: usize) {
    let (method, enc) = (method_name(sp.cfg.method), sp.cfg.enc_name());
    let route = if sp.kind == "fresh-attrs-capi" { "SFileCreateArchive2+SFileAddFileEx" } else { "MutableArchive::add_file_data" };
    let scratch = base.path.parent().unwrap().to_path_buf();
    let akind = format!("{}{}", attr_name(sp.cfg.attr), flags_sfx(sp.flags));
    let fl = flags_name(sp.flags);
    c.count(&format!("fresh_metadata_cases|{route}"), 1);
    let fb: Built = if sp.kind == "fresh-attrs-capi" {
        let files: Vec<(String, Vec<u8>)> = vec![
            ("one.txt".to_string(), added_content(seed, &sp.cfg, 0xA1, 300)),
            (ADDED_NAME.to_string(), added_content(seed, &sp.cfg, 0xA2, 900)),
            ("(odd) name.bin".to_string(), added_content(seed, &sp.cfg, 0xA3, 2500)),
        ];
        let answer = match capi_create(&base.path, &sp.cfg, &files, &scratch) {
            Verdict::Detected(s) => s,
            Verdict::Crash(s) => {
                c.violate(format!("intact-fails|attributes|{route}|crash|{s}"), format!("creating an archive through the C API ({method}, {enc}, {}) crashed: {s}", attr_name(sp.cfg.attr)), json!({}));
                return;
            }
            _ => {
                c.inconclusive("capi_create: unexpected answer".to_string());
                return;
            }
        };
        if answer == "fail|c06-slack" {
            c.count("fresh_metadata_skipped|block-table-slack (C06 finding)", 1);
            c.skip("the new block table entries do not fit into the slack before the appended data (known finding of C06)".to_string());
            c.nontrivial = false;
            return;
        }
        let Some(js) = answer.strip_prefix("ok|") else {
            // creating / adding / flushing is C06's subject; nothing to verify here
            c.count(&format!("fresh_metadata_not_created|{}", answer.split(' ').next().unwrap_or("")), 1);
            c.inconclusive(format!("the archive could not be produced through the C API: {answer}"));
            return;
        };
        let live: serde_json::Value = serde_json::from_str(js).unwrap_or(json!({}));
        let empty = Built { path: base.path.clone(), bytes: vec![], files: vec![], regions: vec![], sector: base.sector, baseline_md5: None };
        let fb = match remap(&empty, &files) {
            Ok(b) => b,
            Err(e) => {
                c.inconclusive(format!("archive produced through the C API: {e}"));
                return;
            }
        };
        // the handle that wrote the archive
        let bad: Vec<String> = live["files"].as_array().map(|a| a.iter().filter(|x| x["ok"] != true).map(|x| format!("{} (error {})", x["name"], x["err"])).collect()).unwrap_or_default();
        c.count("baseline_verifications", files.len() as u64 + 1);
        c.count("verified_on_the_handle_that_wrote_it", files.len() as u64 + 1);
        if !bad.is_empty() || live["archive"] != true {
            let not_found = live["files"].as_array().map(|a| a.iter().any(|x| x["err"] == 2)).unwrap_or(false);
            c.violate(format!("intact-fails|attributes|SFileVerifyFile|handle-that-wrote-the-archive|{}", if not_found { "file-not-found" } else { "refused" }),
                      format!("after SFileCreateArchive2 + SFileAddFileEx + SFileFlushArchive ({method}, {enc}, {}) the same handle does not verify the unmodified archive: SFileVerifyFile false for {bad:?}, SFileVerifyArchive(ALL_FILES) = {}", attr_name(sp.cfg.attr), live["archive"]), live.clone());
        }
        fb
    } else {
        if !slack_ok(base.bytes.len(), 1) {
            c.count("fresh_metadata_skipped|block-table-slack (C06 finding)", 1);
            c.skip("the new block table entry does not fit into the slack before the appended data (known finding of C06)".to_string());
            c.nontrivial = false;
            return;
        }
        let data = added_content(seed, &sp.cfg, 0xA2, 900);
        let r = trap(|| -> Result<(), wow_mpq::Error> {
            let mut m = MutableArchive::open(&base.path)?;
            let mut o = AddFileOptions::new().compression(codec_enum(sp.cfg.method));
            if sp.cfg.enc {
                o = o.encrypt();
            }
            if sp.cfg.enc && sp.cfg.fixkey {
                o = o.fix_key();
            }
            m.add_file_data(&data, ADDED_NAME, o)?;
            m.flush()
        });
        match r {
            Ok(Ok(())) => {}
            other => {
                c.inconclusive(format!("MutableArchive add + flush did not succeed: {}", match other { Ok(Err(e)) => e.to_string(), Err(p) => p.sig(), _ => String::new() }));
                return;
            }
        }
        match remap(base, &[(ADDED_NAME.to_string(), data)]) {
            Ok(b) => b,
            Err(e) => {
                c.inconclusive(format!("archive after add + flush: {e}"));
                return;
            }
        }
    };
    // ---- the intact archive, reopened: every file, every flag selection the archive has an attribute for. Every refusal is
    // collected (not only the first): files the modification did not touch and files it added fail for different reasons.
    let all: Vec<&StoredFile> = fb.files.iter().collect();
    let names: Vec<&str> = all.iter().map(|f| f.name.as_str()).collect();
    let v = isolated(&scratch, || {
        let mut refused: Vec<serde_json::Value> = Vec::new();
        for &flags in flag_selections(sp.cfg.attr) {
            if flags == ARCHIVE_WIDE {
                match c_verify_archive(&fb.path, VERIFY_ALL_FILES) {
                    Some(true) => {}
                    _ => refused.push(json!({"k": -1, "flags": flags_name(flags)})),
                }
                continue;
            }
            match c_verify(&fb.path, &names, flags) {
                None => return Verdict::Detected("open".into()),
                Some(r) => {
                    for (k, ok) in r.iter().enumerate() {
                        if !ok {
                            refused.push(json!({"k": k, "flags": flags_name(flags)}));
                        }
                    }
                }
            }
        }
        if !refused.is_empty() {
            return Verdict::Detected(format!("refused;;{}", json!(refused)));
        }
        probe_attr(&fb.path, &all, sp.flags)
    });
    c.count("baseline_verifications", (flag_selections(sp.cfg.attr).len() * names.len()) as u64);
    c.count(&format!("fresh_metadata_intact_archives_verified|{route}"), 1);
    match v {
        Verdict::Harmless => {}
        Verdict::Detected(why) => {
            let refused: Vec<serde_json::Value> = why.strip_prefix("refused;;").and_then(|j| serde_json::from_str(j).ok()).unwrap_or_default();
            if refused.is_empty() {
                c.violate(format!("intact-fails|attributes|SFileOpenArchive|archive|after {route}"), format!("the unmodified archive after {route} + flush does not open through the C API ({why})"), json!({}));
                return;
            }
            let sva = stored_vs_actual(&fb);
            // one violation per (kind of file, what its attribute entry looks like): semantic classes, not names / codecs
            let mut classes: std::collections::BTreeMap<String, (Vec<String>, Vec<String>)> = Default::default();
            for r in &refused {
                let k = r["k"].as_i64().unwrap_or(-1);
                let flg = r["flags"].as_str().unwrap_or("").to_string();
                if k < 0 {
                    continue; // the archive-wide verifier refuses because a file does: reported through the file
                }
                let f = all[k as usize];
                let e = &sva[k as usize];
                let pred = match (e["stored_crc32"].as_str(), e["content_crc32"].as_str()) {
                    (None, _) => "no-crc32-entry",
                    (Some(s), Some(w)) if s == w => "crc32-entry-matches",
                    (Some("00000000"), _) => "stored-crc32-zeroed",
                    _ => "stored-crc32-differs",
                };
                let (which, key) = if f.shape == "added" { ("added-file", if f.flags & (FLAG_ENCRYPTED | FLAG_COMPRESS) != 0 { "stored-compressed-or-encrypted" } else { "stored-raw" }) } else { ("untouched-file", "any") };
                let ent = classes.entry(format!("intact-fails|attributes|SFileVerifyFile|{which}|after {route}|{pred}|{key}")).or_default();
                if !ent.0.contains(&f.name) {
                    ent.0.push(f.name.clone());
                }
                if !ent.1.contains(&flg) {
                    ent.1.push(flg);
                }
            }
            let archive_wide_only = classes.is_empty();
            if archive_wide_only {
                classes.insert(format!("intact-fails|attributes|SFileVerifyArchive(ALL_FILES)|archive|after {route}|every-file-verifies-alone"), (vec![], vec!["SFileVerifyArchive(ALL_FILES)".into()]));
            }
            for (sig, (fnames, flgs)) in classes {
                c.violate(sig, format!("verifying the unmodified archive after {route} + flush ({method}, {enc}, {}) fails: SFileVerifyFile returned false for {fnames:?} with flags {flgs:?}", attr_name(sp.cfg.attr)), json!({"refused": refused, "files": sva}));
            }
            // the sweep over the added file is still meaningful when the added file itself verifies on the intact archive
            // and the verifier of this case looks at that file alone
            let added_refused = refused.iter().any(|r| r["k"].as_i64().map(|k| k >= 0 && all[k as usize].name == ADDED_NAME).unwrap_or(false));
            let alone_ok = sp.flags != ARCHIVE_WIDE && !added_refused && {
                let one: Vec<&StoredFile> = all.iter().copied().filter(|f| f.name == ADDED_NAME).collect();
                matches!(isolated(&scratch, || probe_attr(&fb.path, &one, sp.flags)), Verdict::Harmless)
            };
            if !alone_ok {
                c.count("fresh_metadata_sweeps_masked_by_intact_failure", 1);
                return;
            }
            c.count("fresh_metadata_sweeps_despite_other_files_refused", 1);
        }
        Verdict::Undetected(d) => {
            c.violate(format!("intact-differs|attributes|read_file|after {route}"), format!("the unmodified archive ({method}, {enc}) does not read back what was added"), d);
            return;
        }
        Verdict::Crash(s) => {
            c.violate(format!("intact-fails|attributes|SFileVerifyFile|archive|after {route}|{s}"), format!("verifying the unmodified archive ({method}, {enc}) crashes: {s}"), json!({}));
            return;
        }
    }
    // ---- alterations of the added file's stored bytes
    let ai = fb.files.iter().position(|f| f.name == ADDED_NAME).unwrap();
    let f = &fb.files[ai];
    let r = fb.region("file_data", Some(ai)).unwrap();
    let alts = alterations(&fb.bytes, &r.ranges, sp.ck, stride, phase);
    let one = [f];
    let t = sweep(c, &fb, r.ranges[0].0, alts, &[], true, || probe_attr(&fb.path, &one, sp.flags));
    t.flush(c, &format!("attributes|file_data|added|{route}"));
    c.count(&format!("corrupted_by_verifier_flags|{fl}"), t.probes);
    if t.probes == 0 {
        c.nontrivial = false;
    }
    if t.violated > 0 {
        c.violate(format!("undetected|attributes|file_data|added-file|after {route}|{method}|{enc}|{akind}"), format!("{} of {} alterations ({}) of the stored bytes of the file added through {route} ({method}, {enc}, {akind}): the verifier (flags = {fl}) returned true and read_file returned Ok with different content", t.violated, t.probes, sp.ck), t.first_viol.clone().unwrap_or(json!({})));
    }
}

/// A corrupted archive never verifies, whatever other threads of the process do with the C API meanwhile: one data byte of
/// a file is altered (SFileVerifyArchive(ALL_FILES) answers false when it runs alone), then the same call is repeated while
/// three threads stream another file in small reads, seek, and ask for the last error.
fn concurrent_case(c: &mut Case, sp: &FSpec, b: &Built, phase: usize) {
    let (method, enc) = (method_name(sp.cfg.method), sp.cfg.enc_name());
    if !baseline(c, sp, b) {
        return;
    }
    let users: Vec<&StoredFile> = b.user_files().map(|x| x.1).collect();
    let f = users[sp.file];
    let other = users[0].name.clone();
    let fi = b.files.iter().position(|x| x.name == f.name);
    let Some(r) = b.region("file_data", fi) else {
        c.skip("no file_data region".to_string());
        c.nontrivial = false;
        return;
    };
    let (start, len) = r.ranges[0];
    let at = start + (len / 2 + phase) % len.max(1);
    let mut bytes = b.bytes.clone();
    bytes[at] ^= 0x01;
    let scratch = b.path.parent().unwrap().to_path_buf();
    let p2 = scratch.join(format!("c10f-conc-{}.mpq", std::process::id()));
    if std::fs::write(&p2, &bytes).is_err() {
        c.inconclusive("cannot write the altered archive".to_string());
        return;
    }
    let rounds = 400u32;
    let v = isolated(&scratch, || {
        match c_verify_archive(&p2, VERIFY_ALL_FILES) {
            None => return Verdict::Detected("open-fails".into()),
            Some(true) => return Verdict::Harmless,
            Some(false) => {}
        }
        let p = CString::new(p2.to_string_lossy().as_bytes()).unwrap();
        unsafe {
            let mut h: HANDLE = ptr::null_mut();
            if !SFileOpenArchive(p.as_ptr(), 0, 0, &mut h) {
                return Verdict::Detected("open-fails".into());
            }
            let stop = std::sync::atomic::AtomicBool::new(false);
            let ha = h as usize;
            let mut wrong = 0u32;
            let mut first_wrong = 0u32;
            let streamed = std::sync::atomic::AtomicU64::new(0);
            std::thread::scope(|sc| {
                for t in 0..3usize {
                    let (stop, streamed, other) = (&stop, &streamed, &other);
                    sc.spawn(move || {
                        let cn = CString::new(other.as_str()).unwrap();
                        let mut fh: HANDLE = ptr::null_mut();
                        if !SFileOpenFileEx(ha as HANDLE, cn.as_ptr(), 0, &mut fh) {
                            return;
                        }
                        let mut buf = [0u8; 8];
                        let mut got = 0u32;
                        while !stop.load(std::sync::atomic::Ordering::Relaxed) {
                            let ok = SFileReadFile(fh, buf.as_mut_ptr() as *mut _, 8, &mut got, ptr::null_mut());
                            streamed.fetch_add(1, std::sync::atomic::Ordering::Relaxed);
                            if !ok || got < 8 {
                                SFileSetFilePointer(fh, 0, ptr::null_mut(), 0);
                            }
                            if t == 2 {
                                let _ = SFileGetLastError();
                                SFileSetLastError(0);
                            }
                        }
                        SFileCloseFile(fh);
                    });
                }
                for round in 0..rounds {
                    if SFileVerifyArchive(ha as HANDLE, VERIFY_ALL_FILES) {
                        if wrong == 0 {
                            first_wrong = round;
                        }
                        wrong += 1;
                    }
                }
                stop.store(true, std::sync::atomic::Ordering::Relaxed);
            });
            SFileCloseArchive(h);
            let calls = streamed.load(std::sync::atomic::Ordering::Relaxed);
            if wrong > 0 {
                Verdict::Undetected(json!({"rounds": rounds, "answered_true": wrong, "first_in_round": first_wrong, "api_calls_of_other_threads": calls}))
            } else {
                Verdict::Detected(format!("all-rounds-false|{calls}"))
            }
        }
    });
    let _ = std::fs::remove_file(&p2);
    match v {
        Verdict::Detected(s) if s.starts_with("all-rounds-false") => {
            c.count("concurrent_verify_rounds", rounds as u64);
            c.count("concurrent_api_calls_of_other_threads", s.rsplit('|').next().and_then(|x| x.parse::<u64>().ok()).unwrap_or(0));
        }
        Verdict::Detected(_) => {
            c.count("concurrent_setup_open_fails", 1);
            c.nontrivial = false;
        }
        Verdict::Harmless => {
            // the altered byte is not covered by anything this archive carries for that call: nothing to demand
            c.count("concurrent_setup_not_detected_alone", 1);
            c.nontrivial = false;
        }
        Verdict::Undetected(d) => c.violate(
            format!("undetected|concurrent|SFileVerifyArchive(ALL_FILES)|other-threads-in-api|{method}|{enc}|{}", attr_name(sp.cfg.attr)),
            format!("SFileVerifyArchive(ALL_FILES) answers false for the altered archive when it runs alone and true in some rounds while other threads read through the C API ({} {:?})", f.shape, f.name),
            d,
        ),
        Verdict::Crash(s) => c.violate(format!("crash|concurrent|SFileVerifyArchive(ALL_FILES)|{s}"), format!("the process crashed: {s}"), json!({})),
    }
}

fn attr_case(c: &mut Case, sp: &FSpec, b: &Built, stride: usize, phase: usize) {
    let (method, enc) = (method_name(sp.cfg.method), sp.cfg.enc_name());
    if !baseline(c, sp, b) {
        return;
    }
    let users: Vec<&StoredFile> = b.user_files().map(|x| x.1).collect();
    let akind = format!("{}{}{}", attr_name(sp.cfg.attr), flags_sfx(sp.flags), off_sfx(&sp.cfg));
    let fl = flags_name(sp.flags);
    c.count(&format!("cases_by_verifier_flags|{fl}"), 1);
    if sp.kind == "attr-file" {
        // bytes of the (attributes) file itself: file contents cannot change; the verifier may or may not object
        let Some(r) = b.region(sp.region, None) else {
            c.skip(format!("no region {}", sp.region));
            c.nontrivial = false;
            return;
        };
        let alts = alterations(&b.bytes, &r.ranges, sp.ck, stride, phase);
        let t = sweep(c, b, r.ranges[0].0, alts, &[], true, || probe_attr(&b.path, &users, sp.flags));
        t.flush(c, &format!("attributes|{}|archive", sp.region));
        if t.probes == 0 {
            c.nontrivial = false;
        }
        if t.violated > 0 {
            c.violate(format!("undetected|attributes|{}|archive|{method}|{enc}|{akind}", sp.region), format!("{} of {} alterations ({}) of {}: SFileVerifyFile says fine and a file reads back different", t.violated, t.probes, sp.ck, sp.region), t.first_viol.clone().unwrap_or(json!({})));
        }
        return;
    }
    let f = users[sp.file];
    let fi = b.files.iter().position(|x| x.name == f.name);
    let one = [f];
    if sp.kind == "attributes" {
        let Some(r) = b.region(sp.region, fi) else {
            c.skip(format!("no region {} for {}", sp.region, f.name));
            c.nontrivial = false;
            return;
        };
        let alts = alterations(&b.bytes, &r.ranges, sp.ck, stride, phase);
        let t = sweep(c, b, r.ranges[0].0, alts, &[], true, || probe_attr(&b.path, &one, sp.flags));
        t.flush(c, &format!("attributes|{}|{}", sp.region, f.shape));
        c.count(&format!("corrupted_by_verifier_flags|{fl}"), t.probes);
        if t.probes == 0 {
            c.nontrivial = false;
        }
        if t.violated > 0 {
            c.violate(format!("undetected|attributes|{}|{}|{method}|{enc}|{akind}", sp.region, f.shape_sig()), format!("{} of {} alterations ({}) in the {} of the {} file {:?} ({method}, {enc}, {akind}): SFileVerifyFile(flags = {fl}) returned true and read_file returned Ok with different content", t.violated, t.probes, sp.ck, sp.region, f.shape, f.name), t.first_viol.clone().unwrap_or(json!({})));
        }
        return;
    }
    // ---- multi-region alterations: a data byte changes AND attribute entries are rewritten
    let data_r = b.region("file_data", fi).unwrap().clone();
    let crc_r = b.region("attr_crc32", None).map(|r| r.ranges.clone()).unwrap_or_default();
    let md5_r = b.region("attr_md5", None).map(|r| r.ranges.clone()).unwrap_or_default();
    let crc_at = find_unique(&b.bytes, &crc_r, &crc32(&f.data).to_le_bytes(), 4);
    let md5_at = find_unique(&b.bytes, &md5_r, &md5(&f.data), 16);
    c.count("attribute_entries_located", crc_at.is_some() as u64 + md5_at.is_some() as u64);
    if crc_at.is_none() || (sp.cfg.attr == 2 && md5_at.is_none()) {
        // the stored attribute is not the CRC-32 / MD5 of the content as an independent implementation computes it
        c.inconclusive(format!("cannot locate the attribute entries of {} (crc32 {:?}, md5 {:?})", f.name, crc_at, md5_at));
        return;
    }
    let unit_crc = b.region("unit_crc", fi).map(|r| r.ranges[0].0);
    let plain_raw_single = f.shape == "single" && f.flags & (FLAG_COMPRESS | FLAG_ENCRYPTED) == 0;
    let alts = alterations(&b.bytes, &data_r.ranges, sp.ck, stride, phase);
    let scratch = b.path.parent().unwrap().to_path_buf();
    let p = match Patcher::new(&b.path, &b.bytes) {
        Ok(p) => p,
        Err(e) => {
            c.inconclusive(format!("cannot patch scratch archive: {e}"));
            return;
        }
    };
    let mut t = Tally::default();
    let mut not_forgeable = 0u64;
    for mut alt in alts {
        if is_noop(&b.bytes, &alt) {
            t.noop += 1;
            continue;
        }
        if plain_raw_single {
            // stored bytes are the content: keep the unit checksum consistent so that read_file accepts the altered content
            let mut nd = f.data.clone();
            for &(o, v) in &alt {
                nd[o - f.pos] = v;
            }
            if let Some(u) = unit_crc {
                for (k, byte) in adler32(&nd).to_le_bytes().iter().enumerate() {
                    alt.push((u + k, *byte));
                }
            }
        }
        p.apply(&alt);
        // what does the reader return now? (in a child: sizes are not touched here, but keep the worker safe)
        let got: Option<Vec<u8>> = match isolated(&scratch, || match trap(|| Archive::open(&b.path).and_then(|mut a| a.read_file(&f.name))) {
            Ok(Ok(d)) => Verdict::Undetected(json!(vh_common::hex(&d))),
            _ => Verdict::Harmless,
        }) {
            Verdict::Undetected(h) => Some(vh_common::unhex(h.as_str().unwrap_or(""))),
            _ => None,
        };
        let Some(got) = got.filter(|g| *g != f.data) else {
            // the read already fails (or the content is unchanged): nothing to forge at this offset
            not_forgeable += 1;
            p.restore(&alt);
            continue;
        };
        let mut extra: Vec<(usize, u8)> = Vec::new();
        match sp.kind {
            "forged-crc32" => {
                for (k, byte) in crc32(&got).to_le_bytes().iter().enumerate() {
                    extra.push((crc_at.unwrap() + k, *byte));
                }
            }
            "forged-md5" => {
                for (k, byte) in md5(&got).iter().enumerate() {
                    extra.push((md5_at.unwrap() + k, *byte));
                }
            }
            _ => {
                for k in 0..4 {
                    extra.push((crc_at.unwrap() + k, 0));
                }
                if let Some(m) = md5_at {
                    for k in 0..16 {
                        extra.push((m + k, 0));
                    }
                }
            }
        }
        p.apply(&extra);
        let v = isolated(&scratch, || probe_attr(&b.path, &one, sp.flags));
        p.restore(&extra);
        p.restore(&alt);
        alt.extend(extra);
        t.add(v, &alt, data_r.ranges[0].0, &b.bytes);
    }
    c.count(&format!("offsets_where_read_already_fails|{}", sp.kind), not_forgeable);
    t.flush(c, &format!("attributes|{}|{}", sp.region, f.shape));
    c.count(&format!("corrupted_by_verifier_flags|{fl}"), t.probes);
    if t.probes == 0 {
        c.nontrivial = false;
        c.skip(format!("no offset of {} where read_file accepts altered content ({not_forgeable} tried)", f.name));
        return;
    }
    if t.violated > 0 {
        let what = match sp.kind {
            "forged-crc32" => "a data byte altered and the CRC32 attribute rewritten to match: the MD5 attribute must object",
            "forged-md5" => "a data byte altered and the MD5 attribute rewritten to match: the CRC32 attribute must object",
            _ => "a data byte altered and the file's CRC32/MD5 attribute entries zeroed",
        };
        c.violate(format!("undetected|attributes|{}|{}|{method}|{enc}|{akind}", sp.region, f.shape_sig()), format!("{} of {} alterations of the {} file {:?} ({what}): SFileVerifyFile(flags = {fl}) returned true and read_file returned Ok with different content", t.violated, t.probes, f.shape, f.name), t.first_viol.clone().unwrap_or(json!({})));
    }
}
