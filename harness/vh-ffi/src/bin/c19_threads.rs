//! C19 — N threads issue C-API calls on a mix of private and shared handles (including close-while-reading).
//! Every call is logged at the caller boundary (call event before invoking, return event after, one monotonic
//! clock). An offline checker over the log decides:
//!  (i)   every successful read/seek/position query on a shared file handle is explained by one cursor that
//!        moves through a linearisation of that handle's operations consistent with real time;
//!  (ii)  no operation on a handle succeeds when it was called after a successful close of the handle or of
//!        its archive had returned; no operation fails on a handle nobody had started closing;
//!  (iii) live handle ids are unique across the three tables.
//!  (iv)  one extra thread mutates a shared writable archive (add / replace / remove / rename / flush / compact) and drives a
//!        shadow `MutableArchive` on a byte-identical copy in lock-step; the other threads ask for existence, contents,
//!        extraction, verification and listings of that archive. Every answer must be the one the Rust API gives in one of the
//!        states between "mutations that had returned when the call was made" and "mutations that had been called when it returned".
//! A run in which no call completes for the stall period is a deadlock witness (in-flight calls are dumped).

use serde_json::{Value, json};
use std::collections::{BTreeMap, HashMap, HashSet};
use std::ffi::{CStr, CString, c_char, c_void};
use std::path::PathBuf;
use std::ptr;
use std::sync::atomic::{AtomicI64, AtomicU64, AtomicUsize, Ordering};
use wow_mpq::compression::CompressionMethod;
use wow_mpq::{AddFileOptions, MutableArchive};
use std::sync::{Arc, Barrier, Mutex};
use std::time::{Duration, Instant};
use vh_common::{Case, Rng, Run, fnv64};
use vh_ffi::storm::*;
use vh_ffi::*;
use wow_mpq::Archive;

#[derive(Clone, Debug)]
struct Ev {
    th: u32,
    func: &'static str,
    h: usize,
    a: i64,
    b: i64,
    t0: u64,
    t1: u64,
    ok: bool,
    r: i64,
    head: [u8; 8],
    name: String,
}

#[derive(Clone, Copy, PartialEq, Eq, Debug)]
enum K {
    Arch,
    File,
    Find,
}

#[derive(Clone)]
struct HInfo {
    kind: K,
    arch: usize, // owning archive handle (0 for archives)
    content: Option<Arc<Vec<u8>>>,
    shared: bool,
    expected_names: Option<Arc<Vec<String>>>,
}

struct Shared {
    base: Instant,
    progress: AtomicU64,
    inflight: Vec<AtomicU64>,       // per thread: start time (ns) of the call in flight, 0 = none
    inflight_what: Vec<Mutex<String>>,
    logs: Vec<Mutex<Vec<Ev>>>,
    handles: Mutex<HashMap<usize, HInfo>>,
    complaints: Mutex<Vec<(String, String)>>, // (signature tail, text) found inline by a thread on its private handles
    exact: bool,
    add_budget: AtomicI64,
    forged_seq: AtomicUsize,
    compared: AtomicU64,
}

thread_local! {
    static CURRENT: std::cell::Cell<&'static str> = const { std::cell::Cell::new("?") };
}

fn cs(s: &str) -> CString {
    CString::new(s).unwrap()
}
fn hh(id: usize) -> HANDLE {
    id as HANDLE
}

struct Ctx {
    sh: Arc<Shared>,
    th: u32,
}

impl Ctx {
    fn now(&self) -> u64 {
        self.sh.base.elapsed().as_nanos() as u64
    }
    /// Log the call event, invoke, log the return event.
    fn call<T>(&self, func: &'static str, h: usize, a: i64, b: i64, name: &str, f: impl FnOnce() -> T, res: impl FnOnce(&T) -> (bool, i64, [u8; 8])) -> T {
        CURRENT.with(|c| c.set(func));
        *self.sh.inflight_what[self.th as usize].lock().unwrap() = format!("{func}(h={h},a={a},b={b})");
        let t0 = self.now();
        self.sh.inflight[self.th as usize].store(t0.max(1), Ordering::SeqCst);
        let out = f();
        let t1 = self.now();
        self.sh.inflight[self.th as usize].store(0, Ordering::SeqCst);
        self.sh.progress.fetch_add(1, Ordering::SeqCst);
        let (ok, r, head) = res(&out);
        self.sh.logs[self.th as usize].lock().unwrap().push(Ev { th: self.th, func, h, a, b, t0, t1, ok, r, head, name: name.to_string() });
        out
    }
    fn complain(&self, sig: &str, text: String) {
        self.sh.complaints.lock().unwrap().push((sig.to_string(), text));
    }
    fn reg(&self, id: usize, info: HInfo) {
        self.sh.handles.lock().unwrap().insert(id, info);
    }

    fn open_archive(&self, path: &str) -> usize {
        let cp = cs(path);
        let mut out: HANDLE = ptr::null_mut();
        self.call("SFileOpenArchive", 0, 0, 0, path, || unsafe { SFileOpenArchive(cp.as_ptr(), 0, 0, &mut out) }, |ok| (*ok, 0, [0; 8]));
        // the id is only known after the call; patch it into the event just written
        let id = out as usize;
        if let Some(e) = self.sh.logs[self.th as usize].lock().unwrap().last_mut() {
            e.r = id as i64;
        }
        id
    }
    fn close_archive(&self, id: usize) -> bool {
        self.call("SFileCloseArchive", id, 0, 0, "", || SFileCloseArchive(hh(id)), |ok| (*ok, 0, [0; 8]))
    }
    fn open_file(&self, arch: usize, name: &str) -> usize {
        let cn = cs(name);
        let mut out: HANDLE = ptr::null_mut();
        self.call("SFileOpenFileEx", arch, 0, 0, name, || unsafe { SFileOpenFileEx(hh(arch), cn.as_ptr(), 0, &mut out) }, |ok| (*ok, 0, [0; 8]));
        let id = out as usize;
        if let Some(e) = self.sh.logs[self.th as usize].lock().unwrap().last_mut() {
            e.r = id as i64;
        }
        id
    }
    fn close_file(&self, id: usize) -> bool {
        self.call("SFileCloseFile", id, 0, 0, "", || SFileCloseFile(hh(id)), |ok| (*ok, 0, [0; 8]))
    }
    /// returns (ok, bytes read) and checks the canaries
    fn read(&self, id: usize, n: usize) -> (bool, Vec<u8>) {
        let b = Guarded::new(n, self.sh.exact);
        let gotc = std::cell::Cell::new(0xDEAD_BEEFu32);
        let ok = self.call(
            "SFileReadFile",
            id,
            n as i64,
            0,
            "",
            || unsafe { SFileReadFile(hh(id), b.ptr() as *mut c_void, n as u32, gotc.as_ptr(), ptr::null_mut()) },
            |ok| {
                let mut head = [0u8; 8];
                let got = gotc.get();
                let k = if *ok && got as usize <= n { (got as usize).min(8) } else { 0 };
                head[..k].copy_from_slice(&b.bytes()[..k]);
                (*ok, if *ok { got as i64 } else { -1 }, head)
            },
        );
        let got = gotc.get();
        let (f, bk) = b.damage();
        if f + bk > 0 {
            self.complain("out-of-buffer-write|SFileReadFile|threads|data", format!("thread {}: {f}+{bk} canary bytes around a {n}-byte read buffer were overwritten", self.th));
        }
        if ok && got as usize > n {
            self.complain("agreement-bytes|SFileReadFile|threads|read-count>requested", format!("read reported {got} bytes for a request of {n}"));
            return (ok, vec![]);
        }
        (ok, if ok { b.bytes()[..got as usize].to_vec() } else { vec![] })
    }
    fn seek(&self, id: usize, off: i32, method: u32) -> u32 {
        self.call("SFileSetFilePointer", id, off as i64, method as i64, "", || unsafe { SFileSetFilePointer(hh(id), off, ptr::null_mut(), method) }, |r| (*r != 0xFFFF_FFFF, *r as i64, [0; 8]))
    }
    fn size(&self, id: usize) -> u32 {
        self.call("SFileGetFileSize", id, 0, 0, "", || unsafe { SFileGetFileSize(hh(id), ptr::null_mut()) }, |r| (*r != 0xFFFF_FFFF, *r as i64, [0; 8]))
    }
    fn position(&self, id: usize) -> Option<u64> {
        let b = Guarded::new(8, self.sh.exact);
        let ok = self.call("SFileGetFileInfo", id, 10, 8, "", || unsafe { SFileGetFileInfo(hh(id), 10, b.ptr() as *mut c_void, 8, ptr::null_mut()) }, |ok| (*ok, if *ok { u64::from_le_bytes(b.bytes()[..8].try_into().unwrap()) as i64 } else { -1 }, [0; 8]));
        let (f, bk) = b.damage();
        if f + bk > 0 {
            self.complain("out-of-buffer-write|SFileGetFileInfo|threads|info", "canary around the 8-byte info buffer overwritten".into());
        }
        if ok { Some(u64::from_le_bytes(b.bytes()[..8].try_into().unwrap())) } else { None }
    }
    fn has(&self, arch: usize, name: &str) -> bool {
        let cn = cs(name);
        self.call("SFileHasFile", arch, 0, 0, name, || unsafe { SFileHasFile(hh(arch), cn.as_ptr()) }, |ok| (*ok, 0, [0; 8]))
    }
    fn find_first(&self, arch: usize) -> (usize, String) {
        let b = Guarded::new(std::mem::size_of::<SFILE_FIND_DATA>(), self.sh.exact);
        let star = cs("*");
        let r = self.call("SFileFindFirstFile", arch, 0, 0, "*", || unsafe { SFileFindFirstFile(hh(arch), star.as_ptr(), b.ptr() as *mut SFILE_FIND_DATA, ptr::null()) } as usize, |r| (*r != 0, *r as i64, [0; 8]));
        let name = if r != 0 { find_name(&b) } else { String::new() };
        if let Some(e) = self.sh.logs[self.th as usize].lock().unwrap().last_mut() {
            e.name = name.clone();
        }
        self.canary(&b, "SFileFindFirstFile");
        (r, name)
    }
    fn find_next(&self, id: usize) -> Option<String> {
        let b = Guarded::new(std::mem::size_of::<SFILE_FIND_DATA>(), self.sh.exact);
        let ok = self.call("SFileFindNextFile", id, 0, 0, "", || unsafe { SFileFindNextFile(hh(id), b.ptr() as *mut SFILE_FIND_DATA) }, |ok| (*ok, SFileGetLastError() as i64, [0; 8]));
        self.canary(&b, "SFileFindNextFile");
        if ok {
            let n = find_name(&b);
            if let Some(e) = self.sh.logs[self.th as usize].lock().unwrap().last_mut() {
                e.name = n.clone();
            }
            Some(n)
        } else {
            None
        }
    }
    fn find_close(&self, id: usize) -> bool {
        self.call("SFileFindClose", id, 0, 0, "", || unsafe { SFileFindClose(hh(id)) }, |ok| (*ok, 0, [0; 8]))
    }
    /// call / return time of the call this thread logged last
    fn last_times(&self) -> (u64, u64) {
        self.sh.logs[self.th as usize].lock().unwrap().last().map(|e| (e.t0, e.t1)).unwrap_or((0, 0))
    }
    /// a call that answers true / false; returns the answer with its call / return time
    fn callb(&self, func: &'static str, h: usize, a: i64, name: &str, f: impl FnOnce() -> bool) -> (bool, u64, u64) {
        let ok = self.call(func, h, a, 0, name, f, |ok| (*ok, 0, [0; 8]));
        let (t0, t1) = self.last_times();
        (ok, t0, t1)
    }
    fn canary(&self, b: &Guarded, func: &str) {
        let (f, bk) = b.damage();
        if f + bk > 0 {
            self.complain(&format!("out-of-buffer-write|{func}|threads|find-data"), format!("{func}: canary around the find-data buffer overwritten"));
        }
    }
}

fn find_name(b: &Guarded) -> String {
    let fd = unsafe { &*(b.ptr() as *const SFILE_FIND_DATA) };
    let raw: Vec<u8> = fd.c_file_name.iter().map(|c| *c as u8).take_while(|c| *c != 0).collect();
    String::from_utf8_lossy(&raw).into_owned()
}

struct EnumCtx {
    n: usize,
}
extern "C" fn enum_cb(_name: *const c_char, ud: *mut c_void) -> bool {
    if !ud.is_null() {
        unsafe { (*(ud as *mut EnumCtx)).n += 1 };
    }
    true
}

#[derive(Clone)]
struct Plan {
    n_threads: u32,
    ops: u32,
    close_victim_at: u32,
    close_shared_file_at: u32,
    with_mutable: bool,
    spin: bool,
}

struct World {
    dir: PathBuf,
    s_arch: usize,
    v_arch: usize,
    a_arch: usize,
    m_arch: usize,
    shared_files: Vec<usize>, // on s_arch: big, mid, small
    victim_files: Vec<usize>, // on v_arch
    shared_find: usize,
    s_names: Arc<Vec<String>>,
    a_names: Arc<Vec<String>>,
    mleg: Option<Arc<MutLeg>>,
}

// ------------------------------------------------------------------ mutation racing with reads ----

/// What the Rust API says about one name of the writable archive in one state of it.
#[derive(Clone, PartialEq)]
struct NameState {
    exists: bool,                 // MutableArchive::find_file
    inner: bool,                  // the read-only view behind it (what the verifying calls consult)
    data: Option<Arc<Vec<u8>>>,   // MutableArchive::read_file (None: it fails)
}

struct MutState {
    names: Vec<NameState>,
    listed: Vec<String>, // MutableArchive::list(), sorted
}

struct MutObs {
    th: u32,
    what: &'static str, // has | open | extract | verify | find
    name: usize,
    t0: u64,
    t1: u64,
    ok: bool,
    data: Option<Vec<u8>>,
    listed: Option<Vec<String>>,
}

struct MutLeg {
    arch: usize,
    names: Vec<String>,
    /// states[j]: the answers of the Rust API after j mutations of the run (0: after the set-up)
    states: Mutex<Vec<MutState>>,
    /// call / return time of mutation j + 1 through the C API, and what it was
    windows: Mutex<Vec<(u64, u64, String)>>,
    obs: Mutex<Vec<MutObs>>,
}

const MX_STABLE: usize = 4; // names[0..4]: never touched after the set-up
const MX_TOUCHED: usize = 3; // names[4..7]: replaced, removed, added again, renamed to names[7..9] and back
const MX_SRC: [usize; 4] = [2, 3, 1, 0]; // src<k>.dat behind the stable names

fn mx_names() -> Vec<String> {
    ["mx\\s0.dat", "mx\\s1.dat", "mx\\s2.dat", "mx\\s3.dat", "mx\\t0.dat", "mx\\t1.dat", "mx\\t2.dat", "mx\\t0.ren", "mx\\t1.ren", "mx\\n0.dat", "mx\\n1.dat", "mx\\never.dat"].iter().map(|s| s.to_string()).collect()
}

fn add_opts(flags: u32, comp: u32) -> AddFileOptions {
    let mut o = AddFileOptions::new().compression(match comp {
        0 => CompressionMethod::None,
        0x10 => CompressionMethod::BZip2,
        _ => CompressionMethod::Zlib,
    });
    if flags & 0x0001_0000 != 0 {
        o = o.encrypt();
    }
    if flags & 0x8000_0000 != 0 {
        o = o.replace_existing(true);
    }
    o
}

fn mx_snapshot(m: &mut MutableArchive, names: &[String]) -> MutState {
    let names = names
        .iter()
        .map(|n| NameState { exists: matches!(m.find_file(n), Ok(Some(_))), inner: matches!(m.archive().find_file(n), Ok(Some(_))), data: m.read_file(n).ok().map(Arc::new) })
        .collect();
    let mut listed: Vec<String> = m.list().map(|l| l.into_iter().map(|e| e.name).collect()).unwrap_or_default();
    listed.sort();
    MutState { names, listed }
}

/// One mutation through the C API and the same one through the Rust API on the shadow; returns (C answer, Rust answer).
fn mx_apply(cx: &Ctx, w: &World, leg: &MutLeg, shadow: &mut MutableArchive, func: &'static str, name: usize, name2: usize, src: usize, flags: u32, comp: u32) -> (bool, bool, u64, u64) {
    let a = leg.arch;
    let (n1, n2) = (leg.names[name].clone(), leg.names[name2].clone());
    let sp = p2s(&w.dir.join(format!("src{src}.dat")));
    let (c1, c2, cs_) = (cs(&n1), cs(&n2), cs(&sp));
    let (ok, t0, t1) = match func {
        "SFileAddFileEx" => cx.callb(func, a, src as i64, &n1, || unsafe { SFileAddFileEx(hh(a), cs_.as_ptr(), c1.as_ptr(), flags, comp, 0) }),
        "SFileAddFile" => cx.callb(func, a, src as i64, &n1, || unsafe { SFileAddFile(hh(a), cs_.as_ptr(), c1.as_ptr(), flags) }),
        "SFileRemoveFile" => cx.callb(func, a, 0, &n1, || unsafe { SFileRemoveFile(hh(a), c1.as_ptr(), 0) }),
        "SFileRenameFile" => cx.callb(func, a, 0, &n1, || unsafe { SFileRenameFile(hh(a), c1.as_ptr(), c2.as_ptr()) }),
        "SFileCompactArchive" => cx.callb(func, a, 0, "", || unsafe { SFileCompactArchive(hh(a), ptr::null(), false) }),
        _ => cx.callb("SFileFlushArchive", a, 0, "", || unsafe { SFileFlushArchive(hh(a)) }),
    };
    let rust = match func {
        "SFileAddFileEx" => shadow.add_file(&sp, &n1, add_opts(flags, comp)).is_ok(),
        "SFileAddFile" => shadow.add_file(&sp, &n1, add_opts(flags, 0x02)).is_ok(),
        "SFileRemoveFile" => shadow.remove_file(&n1).is_ok(),
        "SFileRenameFile" => shadow.rename_file(&n1, &n2).is_ok(),
        "SFileCompactArchive" => shadow.compact().is_ok(),
        _ => shadow.flush().is_ok(),
    };
    (ok, rust, t0, t1)
}

/// The mutating thread: one mutation after the other until the other threads are through (or the script is).
fn mutator_body(cx: &Ctx, w: &World, leg: &MutLeg, mut shadow: MutableArchive, mut rng: Rng, done: &AtomicUsize, n: usize, spin: bool) {
    let mut j = 0;
    while j < 60 && done.load(Ordering::SeqCst) < n {
        if spin {
            match rng.below(4) {
                0 => std::thread::yield_now(),
                1 => std::thread::sleep(Duration::from_micros(20 + rng.below(150))),
                _ => {}
            }
        }
        let k = rng.usize(MX_TOUCHED);
        let t = MX_STABLE + k;
        let r = MX_STABLE + MX_TOUCHED + k.min(1);
        let src = [1usize, 2, 3][rng.usize(3)];
        let (func, name, name2, flags, comp): (&'static str, usize, usize, u32, u32) = match rng.below(12) {
            0..=2 => ("SFileAddFileEx", t, t, if rng.chance(1, 4) { 0x8001_0000 } else { 0x8000_0000 }, [0u32, 0x02, 0x10][rng.usize(3)]),
            3 => ("SFileAddFile", if k < 2 && rng.bool() { r } else { t }, t, 0, 0),
            4 => ("SFileRemoveFile", t, t, 0, 0),
            5 => ("SFileRemoveFile", if k < 2 { r } else { t }, t, 0, 0),
            6 | 7 if k < 2 => {
                if rng.bool() { ("SFileRenameFile", t, r, 0, 0) } else { ("SFileRenameFile", r, t, 0, 0) }
            }
            8 => ("SFileFlushArchive", t, t, 0, 0),
            9 => ("SFileCompactArchive", t, t, 0, 0),
            10 => {
                let nn = MX_STABLE + MX_TOUCHED + 2 + rng.usize(2);
                if rng.bool() { ("SFileAddFileEx", nn, nn, 0, 0) } else { ("SFileRemoveFile", nn, nn, 0, 0) }
            }
            _ => ("SFileAddFileEx", t, t, 0x8000_0000, 0),
        };
        let (ok, rust, t0, t1) = mx_apply(cx, w, leg, &mut shadow, func, name, name2, src, flags, comp);
        if ok != rust {
            cx.complain(&format!("agreement-modify|{func}|threads|mutating-thread|c={ok},rust={rust}"), format!("mutation {} of the run: {func}({:?}) = {ok} through the C API, {rust} through MutableArchive on an identical copy", j + 1, leg.names[name]));
        }
        let st = mx_snapshot(&mut shadow, &leg.names);
        leg.states.lock().unwrap().push(st);
        leg.windows.lock().unwrap().push((t0, t1, format!("{func}({:?}{}, src{src}, flags={flags:#x}, comp={comp:#x})->{ok}", leg.names[name], if func == "SFileRenameFile" { format!("->{:?}", leg.names[name2]) } else { String::new() })));
        j += 1;
    }
    drop(shadow);
}

/// One question of a reading thread about the writable archive that is being mutated.
fn mx_reader_op(cx: &Ctx, w: &World, leg: &MutLeg, rng: &mut Rng, i: u32, my_closed: &mut Vec<(usize, K)>) {
    let a = leg.arch;
    let k = match rng.below(20) {
        0..=6 => rng.usize(MX_STABLE),
        7..=16 => MX_STABLE + rng.usize(MX_TOUCHED + 2),
        _ => MX_STABLE + MX_TOUCHED + 2 + rng.usize(3),
    };
    let name = leg.names[k].clone();
    let cn = cs(&name);
    let push = |what: &'static str, t0: u64, t1: u64, ok: bool, data: Option<Vec<u8>>, listed: Option<Vec<String>>| leg.obs.lock().unwrap().push(MutObs { th: cx.th, what, name: k, t0, t1, ok, data, listed });
    match rng.below(16) {
        0..=4 => {
            let ok = cx.has(a, &name);
            let (t0, t1) = cx.last_times();
            push("has", t0, t1, ok, None, None);
        }
        5..=9 => {
            let f = cx.open_file(a, &name);
            let (t0, t1) = cx.last_times();
            if f == 0 {
                push("open", t0, t1, false, None, None);
                return;
            }
            cx.reg(f, HInfo { kind: K::File, arch: a, content: None, shared: false, expected_names: None });
            let b = Guarded::new(name.len() + 1, cx.sh.exact);
            let okn = cx.call("SFileGetFileName", f, 0, 0, &name, || unsafe { SFileGetFileName(hh(f), b.ptr() as *mut c_char) }, |ok| (*ok, 0, [0; 8]));
            cx.canary(&b, "SFileGetFileName");
            if !okn || &b.bytes()[..name.len()] != name.as_bytes() || b.bytes()[name.len()] != 0 {
                cx.complain("agreement-name|SFileGetFileName|threads|private-handle|name!=opened-name", format!("thread {}: SFileGetFileName on a private handle of {name:?} = {okn}, buffer does not hold that name", cx.th));
            }
            let (okr, data) = cx.read(f, 8192);
            let s = cx.size(f);
            if okr && s as usize != data.len() {
                cx.complain("agreement-size|SFileGetFileSize|threads|private-handle-on-mutated-archive", format!("thread {}: {name:?}: size {s}, but a read of 8192 from the start returned {} bytes", cx.th, data.len()));
            }
            cx.close_file(f);
            my_closed.push((f, K::File));
            push("open", t0, t1, true, if okr { Some(data) } else { None }, None);
        }
        10..=11 => {
            let dest = p2s(&w.dir.join(format!("mxout_{}_{i}.bin", cx.th)));
            let cd = cs(&dest);
            let (ok, t0, t1) = cx.callb("SFileExtractFile", a, 0, &name, || unsafe { SFileExtractFile(hh(a), cn.as_ptr(), cd.as_ptr(), 0) });
            let data = if ok { std::fs::read(&dest).ok() } else { None };
            let _ = std::fs::remove_file(&dest);
            push("extract", t0, t1, ok, data, None);
        }
        12..=13 => {
            let flags = [0u32, 1, 4, 6][rng.usize(4)];
            let (ok, t0, t1) = cx.callb("SFileVerifyFile", a, flags as i64, &name, || unsafe { SFileVerifyFile(hh(a), cn.as_ptr(), flags) });
            push("verify", t0, t1, ok, None, None);
        }
        14 => {
            let (f, first) = cx.find_first(a);
            let (t0, t1) = cx.last_times();
            if f != 0 {
                cx.reg(f, HInfo { kind: K::Find, arch: a, content: None, shared: false, expected_names: None });
                let mut seen = vec![first];
                let mut complete = false;
                for _ in 0..64 {
                    match cx.find_next(f) {
                        Some(n) => seen.push(n),
                        None => {
                            complete = SFileGetLastError() == 18;
                            break;
                        }
                    }
                }
                cx.find_close(f);
                my_closed.push((f, K::Find));
                if complete {
                    seen.sort();
                    push("find", t0, t1, true, None, Some(seen));
                }
            }
        }
        _ => {
            let flags = [0x10u32, 0x30, 0x01][rng.usize(3)];
            cx.callb("SFileVerifyArchive", a, flags as i64, "", || unsafe { SFileVerifyArchive(hh(a), flags) });
        }
    }
}

/// Every answer about the mutated archive must be the Rust API's answer in one of the states the archive can have been in
/// while the call ran: after the mutations that had returned before it was called, up to those called before it returned.
fn mx_judge(c: &mut Case, leg: &MutLeg) {
    let states = leg.states.lock().unwrap();
    let windows = leg.windows.lock().unwrap();
    let obs = leg.obs.lock().unwrap();
    c.count("mutrace_mutations", windows.len() as u64);
    c.count("mutrace_states_of_the_rust_api", states.len() as u64);
    c.count("mutrace_mutations_that_succeeded", windows.iter().filter(|w| w.2.ends_with("->true")).count() as u64);
    c.count("mutrace_opens_that_succeeded", obs.iter().filter(|o| o.what == "open" && o.ok).count() as u64);
    c.count("mutrace_opens_of_untouched_names", obs.iter().filter(|o| o.what == "open" && o.name < MX_STABLE).count() as u64);
    c.count("mutrace_states_in_which_the_rust_api_cannot_read_an_untouched_name", states.iter().filter(|s| s.names[..MX_STABLE].iter().any(|x| !x.exists || x.data.is_none())).count() as u64);
    if states.len() != windows.len() + 1 {
        c.inconclusive("mutation leg: states and mutations out of step");
        return;
    }
    for o in obs.iter() {
        let lo = windows.iter().filter(|w| w.1 < o.t0).count();
        let hi = windows.iter().filter(|w| w.0 <= o.t1).count();
        c.count("mutrace_answers_judged", 1);
        c.count(&format!("mutrace_answers_judged|{}", o.what), 1);
        c.count(if o.name < MX_STABLE { "mutrace_answers_about_untouched_names" } else { "mutrace_answers_about_touched_names" }, 1);
        if hi > lo {
            c.count("mutrace_answers_overlapping_a_mutation", 1);
        }
        let cand: Vec<&MutState> = (lo..=hi).map(|j| &states[j]).collect();
        let st = |s: &MutState| s.names[o.name].clone();
        let (func, clause, good): (&str, &str, bool) = match o.what {
            "has" => ("SFileHasFile", "agreement-exists", cand.iter().any(|s| st(s).exists == o.ok)),
            "open" => {
                let openable = |s: &MutState| st(s).exists && st(s).data.is_some();
                if !o.ok {
                    ("SFileOpenFileEx", "agreement-exists", cand.iter().any(|s| !openable(s)))
                } else if let Some(d) = &o.data {
                    c.count("mutrace_bytes_compared", d.len() as u64);
                    if cand.iter().any(|s| openable(s)) {
                        ("SFileReadFile", "agreement-bytes", cand.iter().any(|s| openable(s) && st(s).data.as_deref() == Some(d)))
                    } else {
                        ("SFileOpenFileEx", "agreement-exists", false)
                    }
                } else {
                    ("SFileOpenFileEx", "agreement-exists", cand.iter().any(|s| openable(s)))
                }
            }
            "extract" => {
                if let (true, Some(d)) = (o.ok, &o.data) {
                    c.count("mutrace_bytes_compared", d.len() as u64);
                    ("SFileExtractFile", "agreement-bytes", cand.iter().any(|s| st(s).data.as_deref() == Some(d)))
                } else if o.ok {
                    ("SFileExtractFile", "agreement-bytes", true) // the extracted file could not be read back: nothing to compare
                } else {
                    ("SFileExtractFile", "agreement-exists", cand.iter().any(|s| st(s).data.is_none()))
                }
            }
            "verify" => ("SFileVerifyFile", "agreement-exists", !o.ok || cand.iter().any(|s| st(s).exists || st(s).inner)),
            _ => ("SFileFindFirstFile", "agreement-enum", cand.iter().any(|s| Some(&s.listed) == o.listed.as_ref())),
        };
        if !good {
            let kind = if o.name < MX_STABLE { "name-no-mutation-touches" } else { "name-under-mutation" };
            let muts: Vec<String> = windows.iter().enumerate().filter(|(j, _)| *j + 1 > lo && *j < hi).map(|(j, w)| format!("#{} {} [{}..{}]", j + 1, w.2, w.0, w.1)).collect();
            c.violate(
                format!("C19|{clause}|{func}|threads|racing-mutation|{kind}|answer-fits-no-state-the-archive-was-in-during-the-call"),
                format!("thread {}: {} of {:?} on the writable archive answered {}{} during [{}..{}]; the Rust API on an identical copy gives a different answer in each of the {} state(s) between the mutations finished before the call and those begun before its return", o.th, o.what, leg.names[o.name], o.ok, o.data.as_ref().map(|d| format!(" ({} bytes)", d.len())).unwrap_or_default(), o.t0, o.t1, hi - lo + 1),
                json!({"states_considered": [lo, hi], "mutations_in_flight": muts, "rust_answers": cand.iter().map(|s| json!({"exists": st(s).exists, "readable_bytes": st(s).data.as_ref().map(|d| d.len())})).collect::<Vec<_>>()}),
            );
        }
    }
}

fn thread_body(cx: &Ctx, w: &World, plan: &Plan, mut rng: Rng) {
    let t = cx.th;
    let my_locale = 0x1000 + t;
    SFileSetLocale(my_locale);
    let mut my_closed: Vec<(usize, K)> = vec![];
    let mut my_added: Vec<String> = vec![];
    for i in 0..plan.ops {
        if plan.spin {
            match rng.below(16) {
                0..=3 => std::thread::yield_now(),
                4 => std::thread::sleep(Duration::from_micros(30 + rng.below(100))),
                _ => {}
            }
        }
        // designated closers: close-while-reading
        if t == 0 && i == plan.close_victim_at {
            cx.close_archive(w.v_arch);
            continue;
        }
        if t == 1 % plan.n_threads && i == plan.close_shared_file_at {
            cx.close_file(w.shared_files[1]);
            continue;
        }
        if t == 2 % plan.n_threads && i == plan.close_shared_file_at + 7 {
            cx.close_file(w.shared_files[1]); // second close of the same handle
            continue;
        }
        let mut roll = rng.below(100);
        if let Some(leg) = &w.mleg {
            if matches!(roll, 30..=34 | 87..=89) {
                mx_reader_op(cx, w, leg, &mut rng, i, &mut my_closed);
                continue;
            }
        } else if matches!(roll, 87..=89) {
            roll = 84;
        }
        match roll {
            0..=34 => {
                // cursor operations on a shared file handle (shared archive or victim archive)
                let pool: Vec<usize> = w.shared_files.iter().chain(w.victim_files.iter()).copied().collect();
                let f = pool[rng.usize(pool.len())];
                match rng.below(10) {
                    0..=4 => {
                        let n = [8usize, 16, 64, 0, 1000, 8, 24, 5000][rng.usize(8)];
                        cx.read(f, n);
                    }
                    5 => {
                        let len = cx.sh.handles.lock().unwrap().get(&f).and_then(|h| h.content.as_ref().map(|c| c.len())).unwrap_or(0);
                        cx.seek(f, rng.below(len as u64 + 1) as i32, 0);
                    }
                    6 => {
                        cx.seek(f, [-64i32, -8, 8, 100, -1000, 0][rng.usize(6)], 1);
                    }
                    7 => {
                        cx.seek(f, -[0i32, 8, 50, 96][rng.usize(4)], 2);
                    }
                    8 => {
                        cx.position(f);
                    }
                    _ => {
                        cx.size(f);
                    }
                }
            }
            35..=49 => {
                // private file on a shared archive: sequential reads must reproduce the content exactly
                let arch = if rng.chance(1, 3) { w.v_arch } else { w.s_arch };
                let name = format!("p{}.dat", (t + rng.next_u32() % 2) % 4);
                let f = cx.open_file(arch, &name);
                if f != 0 {
                    let content = Arc::new(counter_content([1000usize, 1001, 1002, 1003][name.as_bytes()[1] as usize - b'0' as usize], (b's' as u32) << 8 | (3 + (name.as_bytes()[1] - b'0') as u32)));
                    cx.reg(f, HInfo { kind: K::File, arch, content: Some(content.clone()), shared: false, expected_names: None });
                    let mut pos = 0usize;
                    let mut alive = true;
                    for n in [8usize, 500, 0, 13, 2000] {
                        let (ok, data) = cx.read(f, n);
                        if !ok {
                            alive = false; // its archive may have been closed by the closer thread; the offline checker decides
                            break;
                        }
                        cx.sh.compared.fetch_add(data.len() as u64, Ordering::Relaxed);
                        let want = &content[pos..(pos + n).min(content.len())];
                        if data != want {
                            cx.complain("agreement-bytes|SFileReadFile|threads|private-handle-bytes!=content", format!("thread {t}: sequential read of {n} at {pos} on private handle of {name} returned {} bytes, expected {}", data.len(), want.len()));
                        }
                        pos += data.len();
                    }
                    if alive {
                        let s = cx.size(f);
                        if s != 0xFFFF_FFFF && s as usize != content.len() {
                            cx.complain("agreement-size|SFileGetFileSize|threads|private-handle", format!("size {s} != {}", content.len()));
                        }
                    }
                    cx.close_file(f);
                    my_closed.push((f, K::File));
                }
            }
            50..=59 => {
                // existence / enumeration answers on shared archives
                let (arch, names) = if rng.bool() { (w.s_arch, &w.s_names) } else { (w.a_arch, &w.a_names) };
                match rng.below(4) {
                    0 => {
                        let nm = &names[rng.usize(names.len())];
                        cx.has(arch, if nm.len() >= 259 { &names[0] } else { nm });
                    }
                    1 => {
                        cx.has(arch, "absent\\nothing.here");
                    }
                    2 => {
                        let mut ec = EnumCtx { n: 0 };
                        let star = cs("*");
                        cx.call("SFileEnumFiles", arch, 0, 0, "*", || unsafe { SFileEnumFiles(hh(arch), star.as_ptr(), ptr::null(), Some(enum_cb), &mut ec as *mut EnumCtx as *mut c_void) }, |ok| (*ok, 0, [0; 8]));
                        if let Some(e) = cx.sh.logs[t as usize].lock().unwrap().last_mut() {
                            e.r = ec.n as i64;
                        }
                    }
                    _ => {
                        let b = Guarded::new(300, cx.sh.exact);
                        cx.call("SFileGetArchiveName", arch, 300, 0, "", || unsafe { SFileGetArchiveName(hh(arch), b.ptr() as *mut c_char, 300) }, |ok| (*ok, 0, [0; 8]));
                        let name = unsafe { CStr::from_ptr(b.ptr() as *const c_char) }.to_string_lossy().into_owned();
                        if let Some(e) = cx.sh.logs[t as usize].lock().unwrap().last_mut() {
                            e.name = name;
                        }
                    }
                }
            }
            60..=67 => {
                // shared search handle: every thread pulls entries from the same search
                cx.find_next(w.shared_find);
            }
            68..=75 => {
                // private search on a shared archive (victim or not)
                let arch = if rng.chance(1, 3) { w.v_arch } else { w.a_arch };
                let (f, first) = cx.find_first(arch);
                if f != 0 {
                    let names = if arch == w.a_arch { w.a_names.clone() } else { w.s_names.clone() };
                    cx.reg(f, HInfo { kind: K::Find, arch, content: None, shared: false, expected_names: Some(names.clone()) });
                    let mut seen = vec![first];
                    let mut complete = false;
                    for _ in 0..64 {
                        match cx.find_next(f) {
                            Some(n) => seen.push(n),
                            None => {
                                complete = SFileGetLastError() == 18;
                                break;
                            }
                        }
                    }
                    if complete {
                        let mut a = seen.clone();
                        a.sort();
                        let mut b: Vec<String> = names.to_vec();
                        b.sort();
                        cx.sh.compared.fetch_add(a.len() as u64, Ordering::Relaxed);
                        if a != b {
                            cx.complain("agreement-enum|SFileFindNextFile|threads|private-search-set!=rust-list", format!("thread {t}: private '*' search returned {} names, Rust list has {}", a.len(), b.len()));
                        }
                    }
                    cx.find_close(f);
                    my_closed.push((f, K::Find));
                }
            }
            76..=83 => {
                // private archive handle on a file nobody else touches through this handle
                if rng.chance(1, 4) {
                    // an archive of this thread's own, made by SFileCreateArchive (the handle it returns is a read-only one)
                    let path = p2s(&w.dir.join(format!("own_{t}_{i}.mpq")));
                    let cp = cs(&path);
                    let mut out: HANDLE = ptr::null_mut();
                    let ok = cx.call("SFileCreateArchive", 0, 2, 16, &path, || unsafe { SFileCreateArchive(cp.as_ptr(), 2, 16, &mut out) }, |ok| (*ok, 0, [0; 8]));
                    let a = out as usize;
                    if let Some(e) = cx.sh.logs[t as usize].lock().unwrap().last_mut() {
                        e.r = a as i64;
                    }
                    if ok && a != 0 {
                        cx.reg(a, HInfo { kind: K::Arch, arch: 0, content: None, shared: false, expected_names: None });
                        let want = Archive::open(&path).and_then(|x| x.find_file("(listfile)")).map(|x| x.is_some());
                        let got = cx.has(a, "(listfile)");
                        cx.sh.compared.fetch_add(1, Ordering::Relaxed);
                        if let Ok(want) = want {
                            if want != got {
                                cx.complain(&format!("agreement-exists|SFileHasFile|threads|archive-made-by-SFileCreateArchive|c={got},rust={want}"), format!("thread {t}: (listfile) in a freshly created archive: C API {got}, Rust API {want}"));
                            }
                        } else {
                            cx.complain("agreement-open|SFileCreateArchive|threads|created-archive|c=success,rust=error", format!("thread {t}: SFileCreateArchive returned a handle but Archive::open fails on the result"));
                        }
                        cx.close_archive(a);
                        my_closed.push((a, K::Arch));
                    } else if ok {
                        cx.complain("id-unique|SFileCreateArchive|threads|null-handle-on-success", format!("thread {t}: SFileCreateArchive reported success with a null handle"));
                    }
                    continue;
                }
                let path = p2s(&w.dir.join(if rng.bool() { FX_B } else { FX_D }));
                let a = cx.open_archive(&path);
                if a != 0 {
                    cx.reg(a, HInfo { kind: K::Arch, arch: 0, content: None, shared: false, expected_names: None });
                    let name = if path.ends_with(FX_B) { "readme.txt" } else { "t.txt" };
                    if !cx.has(a, name) {
                        cx.complain("agreement-exists|SFileHasFile|threads|private-archive", format!("thread {t}: {name} not found through a private archive handle"));
                    }
                    let f = cx.open_file(a, name);
                    if f != 0 {
                        cx.reg(f, HInfo { kind: K::File, arch: a, content: None, shared: false, expected_names: None });
                        cx.read(f, 16);
                    }
                    cx.close_archive(a);
                    my_closed.push((a, K::Arch));
                    if f != 0 {
                        // the file handle died with its archive
                        let s = cx.size(f);
                        if s != 0xFFFF_FFFF {
                            cx.complain("invalid-handle-accepted|SFileGetFileSize|file-of-closed-archive|returned-success", format!("thread {t}: private file handle {f} still answers after its private archive {a} was closed"));
                        }
                        my_closed.push((f, K::File));
                    }
                }
            }
            84..=89 => {
                if plan.with_mutable && w.m_arch != 0 {
                    match rng.below(3) {
                        0 => {
                            if cx.sh.add_budget.fetch_sub(1, Ordering::SeqCst) > 0 {
                                let name = format!("t{t}\\a{i}.dat");
                                let (src, cn) = (cs(&p2s(&w.dir.join("src2.dat"))), cs(&name));
                                let ok = cx.call("SFileAddFileEx", w.m_arch, 0, 0, &name, || unsafe { SFileAddFileEx(hh(w.m_arch), src.as_ptr(), cn.as_ptr(), 0, 0, 0) }, |ok| (*ok, 0, [0; 8]));
                                if ok {
                                    my_added.push(name);
                                }
                            }
                        }
                        1 => {
                            if let Some(n) = my_added.last() {
                                let f = cx.open_file(w.m_arch, n);
                                if f != 0 {
                                    cx.reg(f, HInfo { kind: K::File, arch: w.m_arch, content: None, shared: false, expected_names: None });
                                    let (ok, data) = cx.read(f, 200);
                                    if ok && data != counter_content(100, 0x7702) {
                                        cx.complain("agreement-bytes|SFileReadFile|threads|added-file-bytes!=source", format!("thread {t}: {n} added from src2.dat reads back differently ({} bytes)", data.len()));
                                    }
                                    cx.close_file(f);
                                    my_closed.push((f, K::File));
                                } else {
                                    cx.complain("agreement-exists|SFileOpenFileEx|threads|own-added-file-not-openable", format!("thread {t}: {n} was added successfully by this thread but cannot be opened"));
                                }
                            }
                        }
                        _ => {
                            cx.has(w.m_arch, "t0\\a0.dat");
                        }
                    }
                } else {
                    cx.has(w.a_arch, "one.bin");
                }
            }
            90..=95 => {
                // forged and stale handles: never a live id (ids count up from 1, so 2^40+k is never issued)
                let forged = match rng.below(4) {
                    0 => 0,
                    1 => usize::MAX,
                    2 => (1usize << 40) + cx.sh.forged_seq.fetch_add(1, Ordering::Relaxed),
                    _ => my_closed.get(rng.usize(my_closed.len().max(1))).map(|x| x.0).unwrap_or(usize::MAX - 1),
                };
                let ok = match rng.below(6) {
                    0 => cx.read(forged, 8).0,
                    1 => cx.size(forged) != 0xFFFF_FFFF,
                    2 => cx.has(forged, "one.bin"),
                    3 => cx.find_next(forged).is_some(),
                    4 => cx.close_file(forged),
                    _ => cx.seek(forged, 0, 0) != 0xFFFF_FFFF,
                };
                if ok {
                    cx.complain("invalid-handle-accepted|any|forged-or-own-closed|returned-success", format!("thread {t}: a call on handle value {forged:#x} (null / max / never issued / closed by this thread) succeeded"));
                }
            }
            _ => {
                // per-thread status
                let l = SFileGetLocale();
                if l != my_locale {
                    cx.complain("thread-local-status|SFileGetLocale|threads|other-threads-locale-visible", format!("thread {t}: locale {l:#x}, this thread set {my_locale:#x}"));
                }
                SFileSetLastError(7000 + t);
                let e = SFileGetLastError();
                if e != 7000 + t {
                    cx.complain("thread-local-status|SFileGetLastError|threads|other-threads-error-visible", format!("thread {t}: last error {e}, this thread set {}", 7000 + t));
                }
                cx.sh.progress.fetch_add(1, Ordering::SeqCst);
            }
        }
    }
}

// ------------------------------------------------------------------ offline checker ----

struct CursorOp {
    t0: u64,
    t1: u64,
    kind: u8, // 0 read, 1 seek-begin, 2 seek-current, 3 seek-end, 4 position query
    a: i64,   // requested count / offset
    r: i64,   // returned count / position
    start: Option<usize>, // for reads: where the returned bytes sit in the content (None: no information)
    desc: String,
}

/// Is there an order of `ops`, consistent with real time, in which one cursor explains every result?
/// Returns Some(true/false) or None when the search budget ran out.
fn linearisable(ops: &[CursorOp], len: usize, budget: &mut u64) -> Option<bool> {
    let n = ops.len();
    let words = n.div_ceil(64).max(1);
    let mut seen: HashSet<(Vec<u64>, usize)> = HashSet::new();
    // iterative DFS: stack of (done bitset, cursor, count done)
    let mut stack: Vec<(Vec<u64>, usize, usize)> = vec![(vec![0u64; words], 0usize, 0usize)];
    while let Some((done, cur, k)) = stack.pop() {
        if k == n {
            return Some(true);
        }
        if *budget == 0 {
            return None;
        }
        *budget -= 1;
        if !seen.insert((done.clone(), cur)) {
            continue;
        }
        // an op may come next only if no other pending op had returned before it was called
        let min_ret = (0..n).filter(|i| done[i / 64] >> (i % 64) & 1 == 0).map(|i| ops[i].t1).min().unwrap();
        for i in 0..n {
            if done[i / 64] >> (i % 64) & 1 == 1 || ops[i].t0 > min_ret {
                continue;
            }
            let o = &ops[i];
            let next: Option<usize> = match o.kind {
                0 => {
                    let want = (o.a as usize).min(len - cur);
                    if o.r as usize != want {
                        None
                    } else if want == 0 || o.start.is_none() || o.start == Some(cur) {
                        Some(cur + want)
                    } else {
                        None
                    }
                }
                1 | 2 | 3 => {
                    let base = [0i64, cur as i64, len as i64][(o.kind - 1) as usize];
                    let t = base + o.a;
                    if t >= 0 && t <= len as i64 {
                        if o.r == t { Some(t as usize) } else { None }
                    } else if o.r >= 0 && o.r <= len as i64 {
                        Some(o.r as usize) // beyond either end: not compared, any in-range landing spot is accepted
                    } else {
                        None
                    }
                }
                _ => {
                    if o.r == cur as i64 { Some(cur) } else { None }
                }
            };
            if let Some(c2) = next {
                let mut d2 = done.clone();
                d2[i / 64] |= 1 << (i % 64);
                stack.push((d2, c2, k + 1));
            }
        }
    }
    Some(false)
}

fn window_index(content: &[u8]) -> HashMap<[u8; 8], Option<usize>> {
    let mut m: HashMap<[u8; 8], Option<usize>> = HashMap::new();
    if content.len() >= 8 {
        for p in 0..=content.len() - 8 {
            let k: [u8; 8] = content[p..p + 8].try_into().unwrap();
            m.entry(k).and_modify(|v| *v = None).or_insert(Some(p));
        }
    }
    m
}

fn label_after(kind: K, by_archive: bool) -> &'static str {
    match (kind, by_archive) {
        (K::File, true) => "file-of-closed-archive",
        (K::Find, true) => "find-of-closed-archive",
        (K::File, false) => "closed-file",
        (K::Find, false) => "closed-find",
        (K::Arch, _) => "closed-archive",
    }
}

fn must_succeed_when_live(e: &Ev) -> bool {
    match e.func {
        "SFileReadFile" | "SFileGetFileSize" | "SFileGetFileInfo" | "SFileCloseFile" | "SFileFindClose" | "SFileCloseArchive" | "SFileEnumFiles" | "SFileGetArchiveName" | "SFileFindFirstFile" => true,
        "SFileSetFilePointer" => true,
        "SFileHasFile" | "SFileOpenFileEx" => !e.name.starts_with("absent") && !e.name.contains("\\a") && !e.name.starts_with("mx\\"),
        "SFileFindNextFile" => e.r != 18, // running out of entries is not a handle failure
        _ => false,
    }
}

fn check_log(c: &mut Case, evs: &[Ev], handles: &HashMap<usize, HInfo>, extra_hashes: &mut Vec<String>) {
    let viol = |c: &mut Case, sig: String, what: String, witness: Vec<&Ev>| {
        let w: Vec<Value> = witness.iter().map(|e| json!({"thread": e.th, "call": format!("{}(h={},a={},b={},{:?})", e.func, e.h, e.a, e.b, e.name), "t_call": e.t0, "t_return": e.t1, "ok": e.ok, "result": e.r})).collect();
        c.violate(format!("C19|{sig}"), what, json!({"events": w}));
    };
    // ---- (iii) unique ids
    let mut opens: BTreeMap<usize, Vec<&Ev>> = BTreeMap::new();
    for e in evs.iter().filter(|e| e.ok && matches!(e.func, "SFileOpenArchive" | "SFileOpenFileEx" | "SFileFindFirstFile" | "SFileCreateArchive2" | "SFileCreateArchive")) {
        opens.entry(e.r as usize).or_default().push(e);
    }
    c.count("ids_issued_checked_unique", opens.len() as u64);
    // per handle: successful closes (own, or of the archive) and first close attempt
    let closes_of = |id: usize| -> Vec<&Ev> {
        let info = handles.get(&id);
        evs.iter()
            .filter(|e| {
                (e.h == id && matches!(e.func, "SFileCloseFile" | "SFileFindClose" | "SFileCloseArchive")) || (info.map(|i| i.arch != 0 && e.h == i.arch).unwrap_or(false) && e.func == "SFileCloseArchive")
            })
            .collect()
    };
    for (id, os) in &opens {
        if os.len() > 1 {
            // two issues of one id may not overlap: the earlier one must have been closed before the later was returned
            let mut os2 = os.clone();
            os2.sort_by_key(|e| e.t1);
            for w in os2.windows(2) {
                let closed_between = evs.iter().any(|e| e.ok && e.h == *id && matches!(e.func, "SFileCloseFile" | "SFileFindClose" | "SFileCloseArchive") && e.t1 < w[1].t1 && e.t0 > w[0].t0);
                if !closed_between {
                    viol(c, "id-unique|threads|same-id-issued-to-two-live-handles".into(), format!("handle id {id} was returned by two successful opens with no close in between"), vec![w[0], w[1]]);
                }
            }
        }
    }
    // ---- (ii) no success after close; no failure before anybody started closing
    let mut ids: Vec<usize> = handles.keys().copied().collect();
    ids.sort();
    for id in ids {
        let info = &handles[&id];
        let cl = closes_of(id);
        let ok_closes: Vec<&&Ev> = cl.iter().filter(|e| e.ok).collect();
        let closed_at = ok_closes.iter().map(|e| e.t1).min();
        let first_attempt = cl.iter().map(|e| e.t0).min();
        for e in evs.iter().filter(|e| e.h == id && !matches!(e.func, "SFileOpenArchive")) {
            // calls that take the id as their handle argument (opens on an archive id count as uses of the archive)
            c.count("ops_checked_against_close_times", 1);
            if let Some(tc) = closed_at {
                if e.ok && e.t0 > tc {
                    let closer = ok_closes.iter().min_by_key(|x| x.t1).unwrap();
                    let by_archive = closer.h != id;
                    let opened = evs.iter().find(|o| o.ok && o.r as usize == id && matches!(o.func, "SFileOpenFileEx" | "SFileFindFirstFile"));
                    // a file handle whose open was still running when the close of its archive was called is a different
                    // situation (a race between the two calls) from a handle that was open long before the close
                    let racing = by_archive && info.kind != K::Arch && opened.map(|o| o.t1 > closer.t0).unwrap_or(false);
                    let mut wit = vec![**closer, e];
                    if let Some(o) = opened {
                        wit.insert(0, o);
                    }
                    if racing {
                        let what = if info.kind == K::File { "file" } else { "search" };
                        viol(c, format!("close-invalidates|SFileCloseArchive|{what}-opened-while-archive-was-closing|handle-survives-the-close"), format!("{what} handle {id} was being opened on archive {} while SFileCloseArchive of that archive was running; after the close returned, {} on it still succeeds", closer.h, e.func), wit);
                    } else {
                        viol(c, format!("invalid-handle-accepted|{}|{}|returned-success", e.func, label_after(info.kind, by_archive)), format!("{} on handle {id} succeeded although it was called after a successful close had returned", e.func), wit);
                    }
                }
            }
            if !e.ok && must_succeed_when_live(e) && first_attempt.map(|t| e.t1 < t).unwrap_or(true) {
                viol(c, format!("live-handle-rejected|{}|threads|failed-before-any-close-was-called", e.func), format!("{} failed on handle {id} although no close of it or of its archive had been called yet", e.func), vec![e]);
            }
        }
    }
    // ---- (i) per shared file handle: one cursor explains all results
    for (id, info) in handles.iter().filter(|(_, i)| i.shared && i.kind == K::File) {
        let Some(content) = &info.content else { continue };
        let idx = window_index(content);
        let mut ops: Vec<CursorOp> = vec![];
        let mut bad = false;
        for e in evs.iter().filter(|e| e.h == *id && e.ok) {
            let desc = format!("th{} {}(a={},b={})->{} [{}..{}]", e.th, e.func, e.a, e.b, e.r, e.t0, e.t1);
            match e.func {
                "SFileReadFile" => {
                    let n = e.r as usize;
                    let start = if n >= 8 {
                        match idx.get(&e.head) {
                            Some(Some(p)) => Some(*p),
                            Some(None) => None,
                            None => {
                                viol(c, "agreement-bytes|SFileReadFile|threads|shared-handle-bytes-not-in-content".into(), format!("a read on shared handle {id} returned bytes that occur nowhere in the file"), vec![e]);
                                bad = true;
                                None
                            }
                        }
                    } else if n > 0 {
                        // short read: must be the tail of the file
                        if content[content.len() - n..] != e.head[..n] {
                            viol(c, "agreement-bytes|SFileReadFile|threads|shared-handle-short-read-not-the-tail".into(), format!("a short read ({n} bytes) on shared handle {id} is not the end of the file"), vec![e]);
                            bad = true;
                        }
                        Some(content.len() - n)
                    } else {
                        None
                    };
                    ops.push(CursorOp { t0: e.t0, t1: e.t1, kind: 0, a: e.a, r: e.r, start, desc });
                }
                "SFileSetFilePointer" => ops.push(CursorOp { t0: e.t0, t1: e.t1, kind: 1 + e.b as u8, a: e.a, r: e.r, start: None, desc }),
                "SFileGetFileInfo" => ops.push(CursorOp { t0: e.t0, t1: e.t1, kind: 4, a: 0, r: e.r, start: None, desc }),
                "SFileGetFileSize" => {
                    c.count("sizes_compared", 1);
                    if e.r as usize != content.len() {
                        viol(c, "agreement-size|SFileGetFileSize|threads|shared-handle".into(), format!("size {} != content length {}", e.r, content.len()), vec![e]);
                    }
                }
                _ => {}
            }
        }
        c.count("shared_handle_cursor_ops", ops.len() as u64);
        // interleaving proxy: the order in which threads got their calls in on this handle
        let mut order: Vec<(u64, u32)> = evs.iter().filter(|e| e.h == *id).map(|e| (e.t0, e.th)).collect();
        order.sort();
        let sig: Vec<u8> = order.iter().map(|x| x.1 as u8).collect();
        extra_hashes.push(format!("{:016x}", fnv64(&sig)));
        let overlaps = ops.iter().enumerate().filter(|(i, a)| ops.iter().enumerate().any(|(j, b)| *i != j && a.t0 < b.t1 && b.t0 < a.t1)).count();
        c.count("shared_handle_ops_overlapping_in_time", overlaps as u64);
        if bad || ops.is_empty() {
            continue;
        }
        ops.sort_by_key(|o| o.t0);
        let mut budget = 3_000_000u64;
        match linearisable(&ops, content.len(), &mut budget) {
            Some(true) => c.count("shared_handles_linearised", 1),
            Some(false) => {
                let tail: Vec<String> = ops.iter().map(|o| o.desc.clone()).collect();
                c.violate("C19|agreement-cursor|shared-file-handle|threads|no-linearisation-explains-the-results".to_string(), format!("the {} successful cursor operations on shared file handle {id} cannot be ordered (consistently with their call/return times) so that one cursor explains every returned position and byte range", ops.len()), json!({"ops": tail}));
            }
            None => c.inconclusive("linearisation search budget exhausted"),
        }
    }
    // ---- shared search handle: entries handed out at most once, all from the list
    for (id, info) in handles.iter().filter(|(_, i)| i.shared && i.kind == K::Find) {
        let names: Vec<&Ev> = evs.iter().filter(|e| e.h == *id && e.ok && e.func == "SFileFindNextFile").collect();
        let expected = info.expected_names.clone().unwrap_or_default();
        let mut seen: HashSet<&str> = HashSet::new();
        c.count("shared_search_entries_checked", names.len() as u64);
        for e in names {
            if !expected.iter().any(|n| n == &e.name) {
                viol(c, "agreement-enum|SFileFindNextFile|threads|shared-search-name-not-in-rust-list".into(), format!("shared search returned {:?}", e.name), vec![e]);
            }
            if !seen.insert(e.name.as_str()) {
                viol(c, "agreement-enum|SFileFindNextFile|threads|shared-search-entry-handed-out-twice".into(), format!("{:?} was returned to two callers of one search", e.name), vec![e]);
            }
        }
    }
    // ---- existence / enumeration answers on shared archives while they were certainly live
    for e in evs.iter().filter(|e| matches!(e.func, "SFileHasFile" | "SFileEnumFiles" | "SFileGetArchiveName")) {
        let Some(info) = handles.get(&e.h) else { continue };
        if !info.shared || info.kind != K::Arch {
            continue;
        }
        let cl = closes_of(e.h);
        let live_for_sure = cl.iter().map(|x| x.t0).min().map(|t| e.t1 < t).unwrap_or(true);
        if !live_for_sure {
            continue;
        }
        let Some(names) = &info.expected_names else { continue };
        c.count("existence_answers_compared", 1);
        match e.func {
            "SFileHasFile" => {
                if e.name.contains("\\a") && e.name.starts_with('t') {
                    continue; // mutable archive, concurrent adds: no fixed answer
                }
                let want = names.iter().any(|n| n.eq_ignore_ascii_case(&e.name));
                if e.ok != want {
                    viol(c, format!("agreement-exists|SFileHasFile|threads|c={},rust={}", e.ok, want), format!("SFileHasFile({:?}) = {} on a live shared archive", e.name, e.ok), vec![e]);
                }
            }
            "SFileEnumFiles" => {
                if e.ok && e.r as usize != names.len() {
                    viol(c, "agreement-enum|SFileEnumFiles|threads|count!=rust-list".into(), format!("'*' enumeration called back {} times, Rust list has {}", e.r, names.len()), vec![e]);
                }
            }
            _ => {}
        }
    }
}

// ------------------------------------------------------------------ one run ----

/// Names as the Rust API lists them; SFILE_FIND_DATA holds at most 259 name bytes, longer names are compared by that prefix.
fn rust_names(path: &str) -> Vec<String> {
    Archive::open(path)
        .and_then(|mut a| a.list())
        .map(|l| l.into_iter().map(|e| if e.name.len() > 259 { String::from_utf8_lossy(&e.name.as_bytes()[..259]).into_owned() } else { e.name }).collect())
        .unwrap_or_default()
}

fn one_run(c: &mut Case, idx: u64, plan: &Plan, rng: &mut Rng, exact: bool, stall_secs: u64, fixtures: &std::path::Path, scratch: &str, hashes: &mut Vec<String>) -> bool {
    let dir = PathBuf::from(scratch).join(format!("trun{idx}"));
    let _ = std::fs::remove_dir_all(&dir);
    if let Err(e) = copy_dir(fixtures, &dir) {
        c.inconclusive(format!("fixture copy failed: {e}"));
        return false;
    }
    let n = plan.n_threads as usize;
    let sh = Arc::new(Shared {
        base: Instant::now(),
        progress: AtomicU64::new(0),
        inflight: (0..=n + 1).map(|_| AtomicU64::new(0)).collect(),
        inflight_what: (0..=n + 1).map(|_| Mutex::new(String::new())).collect(),
        logs: (0..=n + 1).map(|_| Mutex::new(Vec::new())).collect(),
        handles: Mutex::new(HashMap::new()),
        complaints: Mutex::new(vec![]),
        exact,
        add_budget: AtomicI64::new(9),
        forged_seq: AtomicUsize::new(0),
        compared: AtomicU64::new(0),
    });
    // ---- set-up by the main thread (logged as thread n)
    let main = Ctx { sh: sh.clone(), th: n as u32 };
    let s_path = p2s(&dir.join(FX_S));
    let a_path = p2s(&dir.join(FX_A));
    let s_names = Arc::new(rust_names(&s_path));
    let a_names = Arc::new(rust_names(&a_path));
    let mut rust_s = match Archive::open(&s_path) {
        Ok(a) => a,
        Err(e) => {
            c.inconclusive(format!("Rust API cannot open the shared fixture: {e}"));
            return false;
        }
    };
    let s_arch = main.open_archive(&s_path);
    let v_arch = main.open_archive(&s_path);
    let a_arch = main.open_archive(&a_path);
    if s_arch == 0 || v_arch == 0 || a_arch == 0 {
        c.violate("C19|live-handle-rejected|SFileOpenArchive|threads|setup", "could not open the fixture archives through the C API", json!({}));
        return false;
    }
    for (id, names) in [(s_arch, &s_names), (v_arch, &s_names), (a_arch, &a_names)] {
        main.reg(id, HInfo { kind: K::Arch, arch: 0, content: None, shared: true, expected_names: Some(names.clone()) });
    }
    let mut m_arch = 0usize;
    if plan.with_mutable {
        let info = SFILE_CREATE_MPQ { cb_size: std::mem::size_of::<SFILE_CREATE_MPQ>() as u32, mpq_version: 1, user_data: ptr::null_mut(), cb_user_data: 0, stream_flags: 0, file_flags_1: 1, file_flags_2: 0, file_flags_3: 0, attr_flags: 0, sector_size: 3, raw_chunk_size: 0, max_file_count: 0 };
        let cp = cs(&p2s(&dir.join("threads_mut.mpq")));
        let mut out: HANDLE = ptr::null_mut();
        main.call("SFileCreateArchive2", 0, 0, 0, "threads_mut.mpq", || unsafe { SFileCreateArchive2(cp.as_ptr(), &info, &mut out) }, |ok| (*ok, 0, [0; 8]));
        m_arch = out as usize;
        if let Some(e) = sh.logs[n].lock().unwrap().last_mut() {
            e.r = m_arch as i64;
        }
        if m_arch != 0 {
            main.reg(m_arch, HInfo { kind: K::Arch, arch: 0, content: None, shared: true, expected_names: None });
        }
    }
    let mut shared_files = vec![];
    let mut victim_files = vec![];
    for (k, name) in ["shared\\big.dat", "shared\\mid.dat", "shared\\small.dat"].iter().enumerate() {
        let content = Arc::new(rust_s.read_file(name).unwrap_or_default());
        let f = main.open_file(s_arch, name);
        if f == 0 || content.is_empty() {
            c.inconclusive("set-up: shared file could not be opened");
            return false;
        }
        main.reg(f, HInfo { kind: K::File, arch: s_arch, content: Some(content.clone()), shared: true, expected_names: None });
        shared_files.push(f);
        if k < 2 {
            let f2 = main.open_file(v_arch, name);
            main.reg(f2, HInfo { kind: K::File, arch: v_arch, content: Some(content), shared: true, expected_names: None });
            victim_files.push(f2);
        }
    }
    let (shared_find, first) = main.find_first(a_arch);
    let mut fn_names: Vec<String> = a_names.to_vec();
    if let Some(p) = fn_names.iter().position(|x| *x == first) {
        fn_names.remove(p);
    }
    main.reg(shared_find, HInfo { kind: K::Find, arch: a_arch, content: None, shared: true, expected_names: Some(Arc::new(fn_names)) });
    // ---- the writable archive of the mutation leg (V1 / V2 by turns) with its shadow on a byte-identical copy
    let mut mleg: Option<Arc<MutLeg>> = None;
    let mut mshadow: Option<MutableArchive> = None;
    if plan.with_mutable {
        let version = 1 + (idx / 3 % 2) as u32;
        let info = SFILE_CREATE_MPQ { cb_size: std::mem::size_of::<SFILE_CREATE_MPQ>() as u32, mpq_version: version, user_data: ptr::null_mut(), cb_user_data: 0, stream_flags: 0, file_flags_1: 1, file_flags_2: 0, file_flags_3: 0, attr_flags: 0, sector_size: 3, raw_chunk_size: 0, max_file_count: 0 };
        let xpath = p2s(&dir.join("threads_mx.mpq"));
        let cp = cs(&xpath);
        let mut out: HANDLE = ptr::null_mut();
        main.call("SFileCreateArchive2", 0, version as i64, 0, "threads_mx.mpq", || unsafe { SFileCreateArchive2(cp.as_ptr(), &info, &mut out) }, |ok| (*ok, 0, [0; 8]));
        let x_arch = out as usize;
        if let Some(e) = sh.logs[n].lock().unwrap().last_mut() {
            e.r = x_arch as i64;
        }
        let spath = format!("{xpath}.shadow");
        let shadow = if x_arch != 0 { std::fs::copy(&xpath, &spath).ok().and_then(|_| MutableArchive::open(&spath).ok()) } else { None };
        match shadow {
            Some(mut shadow) => {
                main.reg(x_arch, HInfo { kind: K::Arch, arch: 0, content: None, shared: true, expected_names: None });
                let leg = MutLeg { arch: x_arch, names: mx_names(), states: Mutex::new(vec![]), windows: Mutex::new(vec![]), obs: Mutex::new(vec![]) };
                let tmp = World { dir: dir.clone(), s_arch, v_arch, a_arch, m_arch, shared_files: vec![], victim_files: vec![], shared_find: 0, s_names: s_names.clone(), a_names: a_names.clone(), mleg: None };
                let mut good = true;
                for k in 0..MX_STABLE + MX_TOUCHED {
                    let src = if k < MX_STABLE { MX_SRC[k] } else { 2 };
                    let (ok, rust, _, _) = mx_apply(&main, &tmp, &leg, &mut shadow, "SFileAddFileEx", k, k, src, 0, if k % 2 == 0 { 0 } else { 0x02 });
                    good &= ok && rust;
                }
                let (ok, rust, _, _) = mx_apply(&main, &tmp, &leg, &mut shadow, "SFileFlushArchive", 0, 0, 0, 0, 0);
                good &= ok && rust;
                if good {
                    leg.states.lock().unwrap().push(mx_snapshot(&mut shadow, &leg.names));
                    if std::env::var_os("C19_TRACE").is_some() {
                        let st = leg.states.lock().unwrap();
                        for (k, x) in st[0].names.iter().enumerate() {
                            eprintln!("C19-TRACE set-up state: {:?} exists={} inner={} readable={:?}", leg.names[k], x.exists, x.inner, x.data.as_ref().map(|d| d.len()));
                        }
                        eprintln!("C19-TRACE set-up list: {:?}", st[0].listed);
                    }
                    mleg = Some(Arc::new(leg));
                    mshadow = Some(shadow);
                } else {
                    c.count("mutrace_setup_refused", 1);
                    main.close_archive(x_arch);
                }
            }
            None => {
                c.count("mutrace_setup_refused", 1);
                if x_arch != 0 {
                    main.reg(x_arch, HInfo { kind: K::Arch, arch: 0, content: None, shared: true, expected_names: None });
                    main.close_archive(x_arch);
                }
            }
        }
    }
    let world = Arc::new(World { dir: dir.clone(), s_arch, v_arch, a_arch, m_arch, shared_files, victim_files, shared_find, s_names, a_names, mleg: mleg.clone() });

    // ---- run
    let n_all = n + mleg.is_some() as usize;
    let barrier = Arc::new(Barrier::new(n_all));
    let done = Arc::new(AtomicUsize::new(0));
    let finished = Arc::new(AtomicUsize::new(0));
    let mut joins = vec![];
    if let (Some(leg), Some(shadow)) = (mleg.clone(), mshadow.take()) {
        let (sh2, w2, b2, d2, f2, spin) = (sh.clone(), world.clone(), barrier.clone(), done.clone(), finished.clone(), plan.spin);
        let mrng = Rng::for_case(rng.next_u64(), idx, 0x4D58);
        joins.push(std::thread::spawn(move || {
            let cx = Ctx { sh: sh2, th: n as u32 + 1 };
            b2.wait();
            mutator_body(&cx, &w2, &leg, shadow, mrng, &d2, n, spin);
            f2.fetch_add(1, Ordering::SeqCst);
        }));
    }
    for t in 0..n {
        let (sh2, w2, p2, b2, d2, f2) = (sh.clone(), world.clone(), plan.clone(), barrier.clone(), done.clone(), finished.clone());
        let trng = Rng::for_case(rng.next_u64(), idx, t as u64 + 1);
        joins.push(std::thread::spawn(move || {
            let cx = Ctx { sh: sh2, th: t as u32 };
            b2.wait();
            thread_body(&cx, &w2, &p2, trng);
            d2.fetch_add(1, Ordering::SeqCst);
            f2.fetch_add(1, Ordering::SeqCst);
        }));
    }
    let mut last = (sh.progress.load(Ordering::SeqCst), Instant::now());
    let mut stalled = false;
    while finished.load(Ordering::SeqCst) < n_all {
        std::thread::sleep(Duration::from_millis(20));
        let p = sh.progress.load(Ordering::SeqCst);
        if p != last.0 {
            last = (p, Instant::now());
        } else if last.1.elapsed() > Duration::from_secs(stall_secs) {
            stalled = true;
            break;
        }
    }
    c.count("threaded_runs", 1);
    c.count(&format!("threaded_runs_n{}", n), 1);
    if stalled {
        let now = sh.base.elapsed().as_nanos() as u64;
        let mut stuck = vec![];
        for t in (0..n).chain(n + 1..n + 2) {
            let since = sh.inflight[t].load(Ordering::SeqCst);
            if since != 0 {
                stuck.push(json!({"thread": t, "in": sh.inflight_what[t].lock().map(|s| s.clone()).unwrap_or_default(), "for_ms": (now - since) / 1_000_000}));
            }
        }
        let mut funcs: Vec<String> = stuck.iter().map(|s| s["in"].as_str().unwrap_or("").split('(').next().unwrap_or("").to_string()).collect();
        funcs.sort();
        funcs.dedup();
        c.violate("C19|no-deadlock|threads|stall|no-call-returned-within-the-stall-period", format!("{} threads: no call returned for {stall_secs} s; calls in flight: {}", n, funcs.join(", ")), json!({"in_flight": stuck, "threads": n}));
        return true; // poisoned: stuck threads own table locks
    }
    for j in joins {
        let _ = j.join();
    }
    // ---- tear-down by the main thread, logged as well
    for f in world.shared_files.iter().chain(world.victim_files.iter()) {
        main.size(*f);
    }
    main.find_next(shared_find);
    main.close_archive(s_arch);
    main.close_archive(a_arch);
    if m_arch != 0 {
        main.close_archive(m_arch);
    }
    if let Some(leg) = &mleg {
        // a last look at every name once all mutations are through, then the archive goes
        for k in 0..leg.names.len() {
            let ok = main.has(leg.arch, &leg.names[k]);
            let (t0, t1) = main.last_times();
            leg.obs.lock().unwrap().push(MutObs { th: n as u32, what: "has", name: k, t0, t1, ok, data: None, listed: None });
        }
        main.close_archive(leg.arch);
    }
    main.close_archive(v_arch);
    for f in world.shared_files.iter().chain(world.victim_files.iter()) {
        main.size(*f);
        main.read(*f, 8);
    }
    main.find_next(shared_find);
    main.find_close(shared_find);

    // ---- offline check
    let mut evs: Vec<Ev> = vec![];
    for l in sh.logs.iter() {
        evs.extend(l.lock().unwrap().iter().cloned());
    }
    evs.sort_by_key(|e| e.t0);
    c.count("calls", evs.len() as u64);
    let mut by_func: BTreeMap<&str, u64> = BTreeMap::new();
    for e in &evs {
        *by_func.entry(e.func).or_default() += 1;
        if e.t1 < e.t0 {
            c.inconclusive("clock went backwards");
        }
    }
    for (f, k) in by_func {
        c.count(&format!("call|{f}"), k);
    }
    c.count("read_bytes_compared", sh.compared.load(Ordering::Relaxed));
    let handles = sh.handles.lock().unwrap().clone();
    c.count("handles_tracked", handles.len() as u64);
    check_log(c, &evs, &handles, hashes);
    if let Some(leg) = &mleg {
        mx_judge(c, leg);
    }
    for (sig, text) in sh.complaints.lock().unwrap().iter() {
        c.violate(format!("C19|{sig}"), text.clone(), json!({"threads": n}));
    }
    let _ = std::fs::remove_dir_all(&dir);
    false
}

fn main() {
    let mut run = Run::new();
    // breadcrumbs for the supervisor: a panic inside an extern "C" function aborts the whole process
    let prev = std::panic::take_hook();
    std::panic::set_hook(Box::new(move |info| {
        let msg = info.payload().downcast_ref::<&str>().map(|s| s.to_string()).or_else(|| info.payload().downcast_ref::<String>().cloned()).unwrap_or_default();
        if !msg.starts_with("panic in a function that cannot unwind") {
            let loc = info.location().map(|l| l.file().to_string()).unwrap_or_default();
            let rel = match loc.find("/registry/src/") {
                Some(p) => loc[p + 14..].split_once('/').map(|x| x.1.to_string()).unwrap_or_default(),
                None => loc.rsplit("/file-formats/").next().unwrap_or(&loc).rsplit("/ffi/").next().unwrap_or(&loc).to_string(),
            };
            let mut norm = String::new();
            for c in msg.chars().take(100) {
                if c.is_ascii_digit() {
                    if !norm.ends_with('N') {
                        norm.push('N');
                    }
                } else {
                    norm.push(c);
                }
            }
            let f = CURRENT.with(|c| c.get());
            eprintln!("C19-CALL threads {f} threads");
            eprintln!("C19-PANIC fn={f} handle=threads at={rel} msg={norm}");
        }
        prev(info)
    }));
    let thorough = run.args.thorough();
    let exact = run.args.get("exact") == Some("1");
    let stall_secs: u64 = run.args.get("stall").and_then(|s| s.parse().ok()).unwrap_or(10);
    let scratch = run.args.scratch.clone();
    let fixtures = PathBuf::from(&scratch).join(format!("fixtures-{}", std::process::id()));
    if let Err(e) = build_fixtures(&fixtures) {
        eprintln!("cannot build fixtures: {e}");
        std::process::exit(2);
    }
    let total: u64 = run.args.get("count").and_then(|s| s.parse().ok()).unwrap_or(if thorough { 300 } else { 24 });
    let mut hashes: Vec<String> = vec![];
    let mut poisoned_any = false;
    for idx in 0..total {
        if !run.want(idx) {
            continue;
        }
        let mut rng = run.rng(idx, 7);
        let n_threads = [2u32, 4, 8, 16][(idx % 4) as usize];
        let ops = if thorough { 300 } else { 160 };
        let plan = Plan { n_threads, ops, close_victim_at: ops / 4 + rng.next_u32() % (ops / 2), close_shared_file_at: ops / 5 + rng.next_u32() % (ops / 2), with_mutable: idx % 3 != 2, spin: idx % 5 != 4 };
        let class = format!("threads{}|mutable{}|spin{}|closeA{}|closeF{}", n_threads, plan.with_mutable as u8, plan.spin as u8, plan.close_victim_at * 8 / ops, plan.close_shared_file_at * 8 / ops);
        let desc = json!({"mode": "threads", "threads": n_threads, "ops_per_thread": ops, "close_victim_archive_at_op": plan.close_victim_at, "close_shared_file_at_op": plan.close_shared_file_at, "mutable_archive": plan.with_mutable, "yield_between_calls": plan.spin});
        let mut poisoned = false;
        run.case(idx, &class, desc, |c| {
            poisoned = one_run(c, idx, &plan, &mut rng, exact, stall_secs, &fixtures, &scratch, &mut hashes);
        });
        if poisoned {
            poisoned_any = true;
            run.extra("interleaving_hashes", json!(hashes));
            if run.args.only.is_none() {
                restart_from(idx + 1);
            }
            break;
        }
    }
    run.extra("interleaving_hashes", json!(hashes));
    run.done();
    let _ = std::fs::remove_dir_all(&fixtures);
    if poisoned_any {
        std::process::exit(0);
    }
}
