//! C12 (C-API half) — creating an archive through `SFileCreateArchive` is all-or-nothing at the destination path.
//! Same command protocol as vh-mpq/src/bin/c12.rs (the supervisor lib/props/c12.py drives both):
//!   c12_ffi --scenario <name> --dest <path>            run the operation between the two marker syscalls
//!   c12_ffi --make-old --scenario <name> --dest <path> write the pre-existing destination (an older valid archive with three files)
//!   c12_ffi --verify <archive> --scenario <name>       exit 0 iff the archive is the complete new (empty) archive: opens, lists, holds no user file
//!   c12_ffi --describe --scenario <name>
//! scenario := ffi-create-<always|truncate|new>   (creation disposition CREATE_ALWAYS / TRUNCATE_EXISTING / CREATE_NEW)
//!           | ffi-create2-v<1..4>[-attrs|-nolist]  (SFileCreateArchive2 over an existing destination: format version, (attributes) flags, listfile flags)

use serde_json::json;
use std::collections::BTreeMap;
use std::ffi::CString;
use std::path::{Path, PathBuf};
use std::ptr;
use vh_common::trap;
use vh_ffi::storm::*;
use wow_mpq::{Archive, ArchiveBuilder, FormatVersion, ListfileOption};

const EXIT_OK: i32 = 0;
const EXIT_OP_ERR: i32 = 1;
const EXIT_USAGE: i32 = 2;
const EXIT_VERIFY_BAD: i32 = 3;
const EXIT_SETUP_BAD: i32 = 4;
const EXIT_OP_PANIC: i32 = 5;

fn marker(which: &str) {
    let p = CString::new(format!("/verif-marker-{which}")).unwrap();
    unsafe {
        libc::syscall(libc::SYS_access, p.as_ptr(), 0 as libc::c_int);
    }
}

fn one_line(s: &str) -> String {
    s.replace(['\n', '\r'], " ").chars().take(300).collect()
}

/// ffi-create2-v<n>[-attrs|-nolist] -> (format version, attr_flags, file_flags_1)
fn create2(name: &str) -> Option<(u32, u32, u32)> {
    let p: Vec<&str> = name.strip_prefix("ffi-create2-")?.split('-').collect();
    let v = p.first()?.strip_prefix('v')?.parse::<u32>().ok().filter(|v| (1..=4).contains(v))?;
    match &p[1..] {
        [] => Some((v, 0, 0xFFFF_FFFF)),
        ["attrs"] => Some((v, 0x5, 0xFFFF_FFFF)), // CRC32 | MD5
        ["nolist"] => Some((v, 0, 0)),
        _ => None,
    }
}

fn disposition(name: &str) -> Option<(u32, bool)> {
    // (creation disposition, scenario has a previous destination)
    if create2(name).is_some() {
        return Some((0, true));
    }
    match name {
        "ffi-create-always" => Some((2, true)),
        "ffi-create-truncate" => Some((5, true)),
        "ffi-create-new" => Some((1, false)),
        _ => None,
    }
}

const OLD_FILES: [(&str, &[u8]); 3] = [("old\\readme.txt", b"the previous archive, file one\r\n"), ("old\\data.bin", &[7u8; 900]), ("old.cfg", b"k=v")];

fn is_special(n: &str) -> bool {
    matches!(n, "(listfile)" | "(attributes)" | "(signature)" | "(user data)")
}

fn main() {
    let argv: Vec<String> = std::env::args().skip(1).collect();
    let mut opt: BTreeMap<String, String> = BTreeMap::new();
    let mut i = 0;
    while i < argv.len() {
        let k = argv[i].trim_start_matches("--").to_string();
        match k.as_str() {
            "make-old" | "describe" => {
                opt.insert(k, "1".into());
                i += 1;
            }
            _ => {
                opt.insert(k, argv.get(i + 1).cloned().unwrap_or_default());
                i += 2;
            }
        }
    }
    vh_common::install_panic_trap();
    let name = opt.get("scenario").cloned().unwrap_or_default();
    let Some((disp, present)) = disposition(&name) else {
        eprintln!("usage: c12_ffi --scenario <ffi-create-always|ffi-create-truncate|ffi-create-new|ffi-create2-v<1..4>[-attrs|-nolist]> (--dest <path> [--make-old] | --verify <archive> | --describe)");
        std::process::exit(EXIT_USAGE);
    };
    if opt.contains_key("describe") {
        println!("{}", json!({"scenario": name, "op": if create2(&name).is_some() { "SFileCreateArchive2 + SFileCloseArchive" } else { "SFileCreateArchive + SFileCloseArchive" }, "create2_version_attrflags_listflags": format!("{:?}", create2(&name)), "creation_disposition": disp, "dest_present": present,
                               "expect": "an archive that opens and lists and holds no user file", "old_files": OLD_FILES.iter().map(|f| f.0).collect::<Vec<_>>()}));
        std::process::exit(EXIT_OK);
    }
    if let Some(a) = opt.get("verify") {
        let r = trap(|| -> Result<(), String> {
            let mut ar = Archive::open(Path::new(a)).map_err(|e| format!("does not open: {e}"))?;
            let l = ar.list().map_err(|e| format!("does not list: {e}"))?;
            if let Some(e) = l.iter().find(|e| !is_special(&e.name)) {
                return Err(format!("holds the user file {:?}: not the freshly created archive", e.name));
            }
            for e in &l {
                ar.read_file(&e.name).map_err(|er| format!("{} does not read: {er}", e.name))?;
            }
            Ok(())
        });
        match r {
            Ok(Ok(())) => {
                println!("VERIFY-OK files=0");
                std::process::exit(EXIT_OK);
            }
            Ok(Err(e)) => println!("VERIFY-BAD {}", one_line(&e)),
            Err(p) => println!("VERIFY-BAD panic {}", one_line(&p.msg)),
        }
        std::process::exit(EXIT_VERIFY_BAD);
    }
    let Some(dest) = opt.get("dest").map(PathBuf::from) else {
        eprintln!("--dest required");
        std::process::exit(EXIT_USAGE);
    };
    if opt.contains_key("make-old") {
        let mut b = ArchiveBuilder::new().version(FormatVersion::V1).listfile_option(ListfileOption::Generate);
        for (n, d) in OLD_FILES {
            b = b.add_file_data(d.to_vec(), n);
        }
        match b.build(&dest) {
            Ok(()) => {
                println!("SETUP-OK variant=full");
                std::process::exit(EXIT_OK);
            }
            Err(e) => {
                println!("SETUP-BAD {}", one_line(&e.to_string()));
                std::process::exit(EXIT_SETUP_BAD);
            }
        }
    }
    // ---- the operation under test
    let p = CString::new(dest.to_string_lossy().as_bytes()).unwrap();
    let c2 = create2(&name);
    marker("begin");
    let r = trap(|| unsafe {
        let mut h: HANDLE = ptr::null_mut();
        let ok = match c2 {
            Some((v, attr_flags, list_flags)) => {
                let mut info: SFILE_CREATE_MPQ = std::mem::zeroed();
                info.cb_size = std::mem::size_of::<SFILE_CREATE_MPQ>() as u32;
                info.mpq_version = v;
                info.file_flags_1 = list_flags;
                info.attr_flags = attr_flags;
                info.sector_size = 3;
                info.max_file_count = 16;
                SFileCreateArchive2(p.as_ptr(), &info, &mut h)
            }
            None => SFileCreateArchive(p.as_ptr(), disp, 16, &mut h),
        };
        let err = SFileGetLastError();
        if ok {
            SFileCloseArchive(h);
        }
        (ok, err)
    });
    marker("end");
    let code = match r {
        Ok((true, _)) => {
            println!("BUILD-OK");
            EXIT_OK
        }
        Ok((false, err)) => {
            println!("BUILD-ERR SFileCreateArchive returned false, last error {err}");
            EXIT_OP_ERR
        }
        Err(p) => {
            println!("BUILD-PANIC {}", one_line(&format!("{} @ {}", p.msg, p.func)));
            EXIT_OP_PANIC
        }
    };
    std::process::exit(code);
}
