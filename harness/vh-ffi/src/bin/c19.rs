//! C19 — single-threaded call histories over the StormLib-style C API against a model of the three handle tables
//! (DESIGN.md §6 C19). The oracle for every archive is the Rust API on the same archive file (read-only handles)
//! or a shadow `MutableArchive` driven in lock-step on a byte-identical copy (mutable handles).
//! Caller buffers carry canaries (native) or are exact-size allocations (sanitizer / Miri runs).

use serde_json::json;
use std::cell::Cell;
use std::collections::{BTreeSet, HashMap};
use std::ffi::{CStr, CString, c_char, c_void};
use std::path::PathBuf;
use std::ptr;
use std::time::Duration;
use vh_common::{Case, Rng, Run, fnv64, trap};
use vh_ffi::storm::*;
use vh_ffi::*;
use wow_mpq::compression::CompressionMethod;
use wow_mpq::{AddFileOptions, Archive, MutableArchive};

const ERR_NO_MORE_FILES: u32 = 18;

thread_local! {
    static IN_FFI: Cell<Option<(&'static str, &'static str)>> = const { Cell::new(None) };
}

// ------------------------------------------------------------------ plan ----

#[derive(Clone, Copy, Debug, PartialEq, Eq)]
enum F {
    OpenArchive,
    CreateArchive,
    CreateArchive2,
    CloseArchive,
    OpenFileEx,
    CloseFile,
    ReadFile,
    GetFileSize,
    SetFilePointer,
    HasFile,
    GetFileInfo,
    GetArchiveName,
    EnumFiles,
    SetLocale,
    GetLocale,
    GetLastError,
    SetLastError,
    GetFileName,
    ExtractFile,
    VerifyFile,
    VerifyArchive,
    AddFileEx,
    AddFile,
    RemoveFile,
    RenameFile,
    FlushArchive,
    CompactArchive,
    FindFirstFile,
    FindNextFile,
    FindClose,
    EnumAll, // composite: FindFirst("*") + FindNext until exhausted + FindClose
}

const WEIGHTS: &[(F, u32)] = &[
    (F::OpenArchive, 8),
    (F::CreateArchive, 2),
    (F::CreateArchive2, 4),
    (F::CloseArchive, 4),
    (F::OpenFileEx, 11),
    (F::CloseFile, 3),
    (F::ReadFile, 12),
    (F::GetFileSize, 3),
    (F::SetFilePointer, 7),
    (F::HasFile, 5),
    (F::GetFileInfo, 5),
    (F::GetArchiveName, 2),
    (F::EnumFiles, 2),
    (F::SetLocale, 1),
    (F::GetLocale, 1),
    (F::GetLastError, 1),
    (F::SetLastError, 1),
    (F::GetFileName, 2),
    (F::ExtractFile, 2),
    (F::VerifyFile, 2),
    (F::VerifyArchive, 2),
    (F::AddFileEx, 4),
    (F::AddFile, 2),
    (F::RemoveFile, 2),
    (F::RenameFile, 2),
    (F::FlushArchive, 1),
    (F::CompactArchive, 1),
    (F::FindFirstFile, 3),
    (F::FindNextFile, 5),
    (F::FindClose, 2),
    (F::EnumAll, 2),
];

#[derive(Clone, Copy, Debug, PartialEq, Eq)]
enum HSel {
    Live(u32),
    Closed(u32),
    Orphan(u32),
    Other(u32),
    Null,
    One,
    Max,
    Plus1(u32),
    Minus1(u32),
    Future,
}

impl HSel {
    fn tag(&self) -> &'static str {
        match self {
            HSel::Live(_) => "live",
            HSel::Closed(_) => "closed",
            HSel::Orphan(_) => "orphan",
            HSel::Other(_) => "other-kind",
            HSel::Null => "null",
            HSel::One => "one",
            HSel::Max => "max",
            HSel::Plus1(_) => "live+1",
            HSel::Minus1(_) => "live-1",
            HSel::Future => "future",
        }
    }
}

#[derive(Clone, Copy, Debug)]
struct PlanOp {
    f: F,
    h: HSel,
    x: [u32; 4],
}

fn op(f: F, h: HSel, x: [u32; 4]) -> PlanOp {
    PlanOp { f, h, x }
}

fn gen_hsel(rng: &mut Rng, live_pct: u64) -> HSel {
    let k = rng.next_u32() % 64;
    if rng.below(100) < live_pct {
        return HSel::Live(k);
    }
    match rng.below(17) {
        0..=3 => HSel::Closed(k),
        4..=6 => HSel::Orphan(k),
        7..=8 => HSel::Other(k),
        9..=10 => HSel::Null,
        11 => HSel::One,
        12 => HSel::Max,
        13 => HSel::Plus1(k),
        14 => HSel::Minus1(k),
        _ => HSel::Future,
    }
}

const PROFILES: &[&str] = &["mixed", "ro-heavy", "mutable-heavy", "lifetime-heavy", "forge-heavy"];

fn gen_plan(rng: &mut Rng, profile: &str, len: usize, miri: bool) -> Vec<PlanOp> {
    let live_pct = if profile == "forge-heavy" { 40 } else { 72 };
    let mut w: Vec<(F, u32)> = WEIGHTS.to_vec();
    for e in w.iter_mut() {
        let heavy = match profile {
            "ro-heavy" => matches!(e.0, F::ReadFile | F::SetFilePointer | F::OpenFileEx | F::HasFile | F::FindNextFile | F::GetFileInfo),
            "mutable-heavy" => matches!(e.0, F::CreateArchive2 | F::AddFileEx | F::AddFile | F::RemoveFile | F::RenameFile | F::FlushArchive | F::HasFile | F::CompactArchive),
            "lifetime-heavy" => matches!(e.0, F::OpenArchive | F::CloseArchive | F::CloseFile | F::FindClose | F::FindFirstFile | F::OpenFileEx),
            _ => false,
        };
        if heavy {
            e.1 *= 3;
        }
        if miri && matches!(e.0, F::CreateArchive | F::CompactArchive | F::VerifyFile | F::VerifyArchive | F::ExtractFile | F::EnumAll) {
            e.1 = 0; // keep interpreter time for the unsafe paths
        }
        if miri && matches!(e.0, F::CreateArchive2 | F::AddFileEx | F::AddFile) {
            e.1 = 1;
        }
    }
    let total: u32 = w.iter().map(|e| e.1).sum();
    let mut plan = Vec::with_capacity(len + 4);
    // warm start so that histories have live handles to work with
    plan.push(op(F::OpenArchive, HSel::Null, [rng.next_u32() % NFIX, 1, 0, 0]));
    if profile == "mutable-heavy" {
        plan.push(op(F::CreateArchive2, HSel::Null, [0, rng.next_u32() % 2, 1, rng.next_u32()]));
    } else {
        plan.push(op(F::OpenArchive, HSel::Null, [rng.next_u32() % NFIX, 1, 0, 0]));
    }
    plan.push(op(F::OpenFileEx, HSel::Live(rng.next_u32() % 4), [rng.next_u32() % 8, 1, 0, 0]));
    while plan.len() < len + 3 {
        let mut r = rng.next_u32() % total;
        let mut f = F::ReadFile;
        for e in &w {
            if r < e.1 {
                f = e.0;
                break;
            }
            r -= e.1;
        }
        plan.push(op(f, gen_hsel(rng, live_pct), [rng.next_u32(), rng.next_u32(), rng.next_u32(), rng.next_u32()]));
    }
    plan
}

fn plan_text(plan: &[PlanOp]) -> Vec<String> {
    plan.iter()
        .map(|p| {
            let h = match p.h {
                HSel::Live(k) | HSel::Closed(k) | HSel::Orphan(k) | HSel::Other(k) | HSel::Plus1(k) | HSel::Minus1(k) => format!("{}#{}", p.h.tag(), k),
                _ => p.h.tag().to_string(),
            };
            format!("{:?}({h};{:x},{:x},{:x},{:x})", p.f, p.x[0], p.x[1], p.x[2], p.x[3])
        })
        .collect()
}

// ------------------------------------------------------------------ model ----

#[derive(Clone, Copy, Debug, PartialEq, Eq)]
enum Kind {
    Arch,
    File,
    Find,
}

#[derive(Clone, Copy, Debug, PartialEq, Eq)]
enum Want {
    Arch,
    File,
    Find,
    FileOrArch,
}

#[derive(Clone, Copy, Debug, PartialEq, Eq)]
enum Gone {
    No,
    Own,     // closed through its own close function
    Archive, // its archive was closed
}

enum Shadow {
    Ro(Archive),
    Mut(MutableArchive),
    Gone,
}

struct MArch {
    id: usize,
    path: String,
    gone: Gone,
    shadow: Shadow,
    mutable: bool,
    slots_used: u32,
    slots_cap: u32,
    names: Vec<String>,
    ghosts: Vec<String>, // names removed or renamed away through this handle
}

struct MFile {
    id: usize,
    arch: usize,
    name: String,
    content: Vec<u8>,
    rust_size: u64,
    pos: usize,
    gone: Gone,
    fuzzy: bool,
}

struct MFind {
    id: usize,
    arch: usize,
    gone: Gone,
    mask_all: bool,
    /// the mask as passed, when the search is judged against the glob model (None: '*'-class masks and unjudged ones)
    judged_mask: Option<String>,
    expected: Vec<(String, u64)>,
    returned: Vec<String>,
    exhausted: bool,
}

struct St<'a> {
    c: &'a mut Case,
    idx: u64,
    exact: bool,
    miri: bool,
    dir: PathBuf,
    archs: Vec<MArch>,
    files: Vec<MFile>,
    finds: Vec<MFind>,
    issued: HashMap<usize, (Kind, usize)>,
    max_id: usize,
    locale: u32,
    trace: Vec<String>,
    fresh: u32,
    live_ok: u64,
    invalid_calls: u64,
    poisoned: bool,
    path_names: HashMap<String, Vec<String>>,
    /// SFileCloseArchive is called while every write to a regular file fails (soft RLIMIT_FSIZE of one byte)
    fault_close: bool,
}

/// Run `f` while every write that would make a regular file longer than `limit` bytes fails with EFBIG (soft RLIMIT_FSIZE,
/// SIGXFSZ ignored); the previous limit is restored afterwards. Nothing but the call under test may run inside.
fn with_fsize_limit<T>(limit: u64, f: impl FnOnce() -> T) -> T {
    unsafe {
        libc::signal(libc::SIGXFSZ, libc::SIG_IGN);
        let mut old = libc::rlimit { rlim_cur: 0, rlim_max: 0 };
        libc::getrlimit(libc::RLIMIT_FSIZE, &mut old);
        let new = libc::rlimit { rlim_cur: limit, rlim_max: old.rlim_max };
        libc::setrlimit(libc::RLIMIT_FSIZE, &new);
        let r = f();
        libc::setrlimit(libc::RLIMIT_FSIZE, &old);
        r
    }
}

fn cs(s: &str) -> CString {
    CString::new(s.replace('\0', "")).unwrap()
}

fn h(id: usize) -> HANDLE {
    id as HANDLE
}

fn special(name: &str) -> bool {
    name.starts_with('(') && name.ends_with(')')
}

struct EnumCtx {
    names: Vec<String>,
    stop_after: usize,
}

extern "C" fn enum_cb(name: *const c_char, ud: *mut c_void) -> bool {
    if ud.is_null() || name.is_null() {
        return false;
    }
    let ctx = unsafe { &mut *(ud as *mut EnumCtx) };
    let s = unsafe { CStr::from_ptr(name) }.to_string_lossy().into_owned();
    ctx.names.push(s);
    ctx.names.len() < ctx.stop_after
}

/// Run `f` on a helper thread; None if it did not return within `secs`.
fn timed<T: Send + 'static>(secs: u64, f: impl FnOnce() -> T + Send + 'static) -> Option<T> {
    let (tx, rx) = std::sync::mpsc::channel();
    let inflight = IN_FFI.with(|x| x.get());
    std::thread::spawn(move || {
        IN_FFI.with(|x| x.set(inflight)); // breadcrumbs follow the call onto the helper thread
        let r = f();
        let _ = tx.send(r);
    });
    rx.recv_timeout(Duration::from_secs(secs)).ok()
}

fn add_opts(flags: u32, comp: u32) -> AddFileOptions {
    let mut o = AddFileOptions::new();
    let m = match comp {
        0 => CompressionMethod::None,
        0x02 => CompressionMethod::Zlib,
        0x08 => CompressionMethod::PKWare,
        0x10 => CompressionMethod::BZip2,
        0x20 => CompressionMethod::Sparse,
        0x40 => CompressionMethod::AdpcmMono,
        0x80 => CompressionMethod::AdpcmStereo,
        0x12 => CompressionMethod::Lzma,
        _ => CompressionMethod::Zlib,
    };
    o = o.compression(m);
    if flags & 0x0001_0000 != 0 {
        o = o.encrypt();
    }
    if flags & 0x0002_0000 != 0 {
        o = o.fix_key();
    }
    if flags & 0x8000_0000 != 0 {
        o = o.replace_existing(true);
    }
    o
}

impl<'a> St<'a> {
    fn new(c: &'a mut Case, idx: u64, exact: bool, miri: bool, dir: PathBuf) -> St<'a> {
        let mut path_names = HashMap::new();
        for fx in fixture_table() {
            path_names.insert(p2s(&dir.join(fx.file)), fx.names.clone());
        }
        St {
            c,
            idx,
            exact,
            miri,
            dir,
            archs: vec![],
            files: vec![],
            finds: vec![],
            issued: HashMap::new(),
            max_id: 0,
            locale: SFileGetLocale(),
            trace: vec![],
            fresh: 0,
            live_ok: 0,
            invalid_calls: 0,
            poisoned: false,
            path_names,
            fault_close: false,
        }
    }

    fn buf(&self, n: usize) -> Guarded {
        Guarded::new(n, self.exact)
    }

    fn viol(&mut self, clause: &str, func: &str, label: &str, extra: &str, what: String) {
        let tail: Vec<String> = self.trace.iter().rev().take(14).rev().cloned().collect();
        self.c.violate(format!("C19|{clause}|{func}|{label}|{extra}"), what, json!({"last_calls": tail}));
    }

    fn begin(&mut self, func: &'static str, label: &'static str) {
        eprintln!("C19-CALL {} {} {}", self.idx, func, label);
        IN_FFI.with(|x| x.set(Some((func, label))));
        self.c.count(&format!("call|{func}"), 1);
    }

    fn end(&mut self, func: &str, label: &str, text: String, ok: bool) {
        IN_FFI.with(|x| x.set(None));
        self.c.count(&format!("hk|{label}|{}", if ok { "success" } else { "failure" }), 1);
        if self.trace.len() < 4000 {
            self.trace.push(format!("{func}{text}"));
        }
    }

    fn check_canary(&mut self, func: &str, label: &str, what: &str, g: &Guarded) {
        let (f, b) = g.damage();
        self.c.count("buffers_canary_checked", 1);
        if f + b > 0 {
            self.viol("out-of-buffer-write", func, label, what, format!("{func}: {f} canary bytes before and {b} after the caller's {}-byte {what} buffer were overwritten", g.len));
        }
    }

    /// Is `id` a live handle of the wanted kind in the model? Returns (valid, label, table index).
    fn classify(&self, id: usize, want: Want) -> (bool, &'static str, Option<(Kind, usize)>) {
        if id == 0 {
            return (false, "null", None);
        }
        match self.issued.get(&id) {
            None => (false, "forged", None),
            Some(&(k, i)) => {
                let gone = match k {
                    Kind::Arch => self.archs[i].gone,
                    Kind::File => self.files[i].gone,
                    Kind::Find => self.finds[i].gone,
                };
                let right = matches!((want, k), (Want::Arch, Kind::Arch) | (Want::File, Kind::File) | (Want::Find, Kind::Find) | (Want::FileOrArch, Kind::File) | (Want::FileOrArch, Kind::Arch));
                match (gone, right, k) {
                    (Gone::No, true, Kind::Arch) => (true, if self.archs[i].mutable { "live-mutable-archive" } else { "live-readonly-archive" }, Some((k, i))),
                    (Gone::No, true, Kind::File) => (true, "live-file", Some((k, i))),
                    (Gone::No, true, Kind::Find) => (true, "live-find", Some((k, i))),
                    (Gone::No, false, _) => (false, "other-kind", Some((k, i))),
                    (Gone::Own, _, Kind::Arch) => (false, "closed-archive", Some((k, i))),
                    (Gone::Own, _, Kind::File) => (false, "closed-file", Some((k, i))),
                    (Gone::Own, _, Kind::Find) => (false, "closed-find", Some((k, i))),
                    (Gone::Archive, _, Kind::File) => (false, "file-of-closed-archive", Some((k, i))),
                    (Gone::Archive, _, Kind::Find) => (false, "find-of-closed-archive", Some((k, i))),
                    (Gone::Archive, _, Kind::Arch) => (false, "closed-archive", Some((k, i))),
                }
            }
        }
    }

    fn ids_where(&self, want: Want, pred: impl Fn(Gone) -> bool) -> Vec<usize> {
        let mut v = vec![];
        if matches!(want, Want::Arch | Want::FileOrArch) {
            v.extend(self.archs.iter().filter(|a| pred(a.gone)).map(|a| a.id));
        }
        if matches!(want, Want::File | Want::FileOrArch) {
            v.extend(self.files.iter().filter(|a| pred(a.gone)).map(|a| a.id));
        }
        if matches!(want, Want::Find) {
            v.extend(self.finds.iter().filter(|a| pred(a.gone)).map(|a| a.id));
        }
        v
    }

    /// Turn the symbolic handle choice into a handle value.
    fn resolve(&mut self, sel: HSel, want: Want) -> usize {
        let pickk = |v: &Vec<usize>, k: u32| if v.is_empty() { None } else { Some(v[k as usize % v.len()]) };
        let future = self.max_id + 1;
        let live = self.ids_where(want, |g| g == Gone::No);
        let id = match sel {
            HSel::Live(k) => pickk(&live, k).unwrap_or(future),
            HSel::Closed(k) => pickk(&self.ids_where(want, |g| g == Gone::Own), k).or(pickk(&self.ids_where(want, |g| g == Gone::Archive), k)).unwrap_or(future),
            HSel::Orphan(k) => pickk(&self.ids_where(want, |g| g == Gone::Archive), k).or(pickk(&self.ids_where(want, |g| g == Gone::Own), k)).unwrap_or(future),
            HSel::Other(k) => {
                let mut o = vec![];
                for w in [Want::Arch, Want::File, Want::Find] {
                    let same = w == want || (want == Want::FileOrArch && w != Want::Find);
                    if !same {
                        o.extend(self.ids_where(w, |g| g == Gone::No));
                    }
                }
                pickk(&o, k).unwrap_or(1)
            }
            HSel::Null => 0,
            HSel::One => 1,
            HSel::Max => usize::MAX,
            HSel::Plus1(k) => pickk(&live, k).map(|x| x + 1).unwrap_or(future),
            HSel::Minus1(k) => pickk(&live, k).map(|x| x - 1).unwrap_or(future),
            HSel::Future => future,
        };
        self.c.count(&format!("hsel|{}", sel.tag()), 1);
        id
    }

    /// Common verdict on handle validity: an invalid handle must be reported as an error.
    fn judge_invalid(&mut self, func: &str, label: &str, ok: bool, sets_err: bool) {
        self.invalid_calls += 1;
        if ok {
            self.viol("invalid-handle-accepted", func, label, "returned-success", format!("{func} succeeded on a handle that is not a live handle of the right kind ({label})"));
        } else if sets_err && SFileGetLastError() == 0 {
            self.viol("invalid-handle-accepted", func, label, "last-error-success", format!("{func} failed on {label} handle but SFileGetLastError() == ERROR_SUCCESS"));
        }
    }

    fn register(&mut self, func: &str, id: usize, kind: Kind, index: usize) {
        self.c.count("handles_issued", 1);
        if id == 0 {
            self.viol("id-unique", func, "new-handle", "null-handle-on-success", format!("{func} reported success with a null handle"));
            return;
        }
        if let Some(&(k, i)) = self.issued.get(&id) {
            let live = match k {
                Kind::Arch => self.archs[i].gone == Gone::No,
                Kind::File => self.files[i].gone == Gone::No,
                Kind::Find => self.finds[i].gone == Gone::No,
            };
            if live {
                self.viol("id-unique", func, "new-handle", "id-of-live-handle-reissued", format!("{func} returned handle {id}, which is still live as {k:?}"));
            } else {
                // the caller may still hold the old handle of this value: from here on a call with that stale handle reaches the
                // new object instead of being reported as an error (after C19-r8m3)
                self.viol("invalid-handle-accepted", func, "new-handle", "value-of-closed-handle-reissued", format!("{func} returned handle {id}, the value of a {k:?} handle that was closed earlier in this history: the stale handle now denotes the new object"));
            }
        }
        self.issued.insert(id, (kind, index));
        if id > self.max_id && id < usize::MAX / 2 {
            self.max_id = id;
        }
    }

    fn fresh_path(&mut self, stem: &str) -> String {
        self.fresh += 1;
        p2s(&self.dir.join(format!("{stem}{}.mpq", self.fresh)))
    }

    /// Name pool for calls on archive `ai` (present names in several spellings, absent ones, hostile strings).
    fn name_for(&self, ai: Option<usize>, k: u32) -> String {
        let present: Vec<String> = ai.map(|i| self.archs[i].names.clone()).unwrap_or_default();
        let n = present.len() as u32;
        let r = k % 16;
        if n > 0 && r < 9 {
            return present[(k / 16 % n) as usize].clone();
        }
        if n > 0 && r == 9 {
            return present[(k / 16 % n) as usize].to_ascii_uppercase();
        }
        if n > 0 && r == 10 {
            return present[(k / 16 % n) as usize].replace('\\', "/");
        }
        let ghosts: Vec<String> = ai.map(|i| self.archs[i].ghosts.clone()).unwrap_or_default();
        if !ghosts.is_empty() && (r == 11 || r == 15) {
            return ghosts[(k / 16) as usize % ghosts.len()].clone();
        }
        match r {
            11 => "no\\such\\file.txt".to_string(),
            12 => String::new(),
            13 => long_name(),
            14 => "(listfile)".to_string(),
            _ => {
                let mut s = String::from("absent\\");
                while s.len() < 300 {
                    s.push('q');
                }
                s
            }
        }
    }
}

// ------------------------------------------------------------------ Rust-API side ----

impl<'a> St<'a> {
    fn rust_exists(&mut self, ai: usize, name: &str) -> Option<bool> {
        self.c.count("rust_api_calls", 1);
        let r = match &mut self.archs[ai].shadow {
            Shadow::Ro(a) => trap(|| a.find_file(name)),
            Shadow::Mut(m) => trap(|| m.find_file(name)),
            Shadow::Gone => return None,
        };
        match r {
            Ok(Ok(x)) => Some(x.is_some()),
            Ok(Err(_)) => Some(false),
            Err(_) => None,
        }
    }
    fn rust_size(&mut self, ai: usize, name: &str) -> Option<u64> {
        let r = match &mut self.archs[ai].shadow {
            Shadow::Ro(a) => trap(|| a.find_file(name)),
            Shadow::Mut(m) => trap(|| m.find_file(name)),
            Shadow::Gone => return None,
        };
        match r {
            Ok(Ok(Some(i))) => Some(i.file_size),
            _ => None,
        }
    }
    fn rust_read(&mut self, ai: usize, name: &str) -> Option<Result<Vec<u8>, String>> {
        self.c.count("rust_api_calls", 1);
        let r = match &mut self.archs[ai].shadow {
            Shadow::Ro(a) => trap(|| a.read_file(name)),
            Shadow::Mut(m) => trap(|| m.read_file(name)),
            Shadow::Gone => return None,
        };
        match r {
            Ok(Ok(d)) => Some(Ok(d)),
            Ok(Err(e)) => Some(Err(e.to_string())),
            Err(_) => None,
        }
    }
    /// list(); with `fallback_all` the read-only list_all() fallback that SFileFindFirstFile documents.
    fn rust_list(&mut self, ai: usize, fallback_all: bool) -> Option<Result<Vec<(String, u64)>, String>> {
        self.c.count("rust_api_calls", 1);
        let r = match &mut self.archs[ai].shadow {
            Shadow::Ro(a) => trap(|| match a.list() {
                Ok(l) => Ok(l),
                Err(e) => {
                    if fallback_all {
                        a.list_all()
                    } else {
                        Err(e)
                    }
                }
            }),
            Shadow::Mut(m) => trap(|| m.list()),
            Shadow::Gone => return None,
        };
        match r {
            Ok(Ok(l)) => Some(Ok(l.into_iter().map(|e| (e.name, e.size)).collect())),
            Ok(Err(e)) => Some(Err(e.to_string())),
            Err(_) => None,
        }
    }
    /// Existence in the read-only view (for a mutable handle: the view the library itself calls archive()).
    fn rust_exists_inner(&mut self, ai: usize, name: &str) -> Option<bool> {
        let r = match &mut self.archs[ai].shadow {
            Shadow::Ro(a) => trap(|| a.find_file(name)),
            Shadow::Mut(m) => trap(|| m.archive().find_file(name)),
            Shadow::Gone => return None,
        };
        match r {
            Ok(Ok(x)) => Some(x.is_some()),
            Ok(Err(_)) => Some(false),
            Err(_) => None,
        }
    }
    fn mutable_path_live(&self, path: &str) -> bool {
        self.archs.iter().any(|a| a.gone == Gone::No && a.mutable && a.path == path)
    }
}

// ------------------------------------------------------------------ archive-level calls ----

impl<'a> St<'a> {
    fn open_path_pool(&self, k: u32, prefer_fixture: bool) -> String {
        let fx: Vec<&str> = if self.miri { vec![FX_D, FX_E] } else { vec![FX_A, FX_B, FX_C, FX_D, FX_E, FX_F, FX_S, FX_U, FX_X, FX_W, FX_V] };
        if prefer_fixture {
            return p2s(&self.dir.join(fx[k as usize % fx.len()]));
        }
        let r = k % 20;
        match r {
            0..=9 => p2s(&self.dir.join(fx[(k / 20) as usize % fx.len()])),
            10..=12 => {
                let own: Vec<&MArch> = self.archs.iter().collect();
                if own.is_empty() { p2s(&self.dir.join(fx[0])) } else { own[(k / 20) as usize % own.len()].path.clone() }
            }
            13..=15 => p2s(&self.dir.join(NON_ARCHIVES[(k / 20) as usize % NON_ARCHIVES.len()])),
            16 => p2s(&self.dir.join("does_not_exist.mpq")),
            17 => String::new(),
            18 => p2s(&self.dir.join("missing_dir").join("x.mpq")),
            _ => {
                let mut s = p2s(&self.dir.join("nope_"));
                while s.len() < 300 {
                    s.push('x');
                }
                s
            }
        }
    }

    fn do_open_archive(&mut self, p: PlanOp) {
        let path = self.open_path_pool(p.x[0], p.x[1] == 1);
        let null_name = p.x[1] != 1 && p.x[2] % 23 == 0;
        let null_out = p.x[1] != 1 && p.x[2] % 29 == 1;
        let cp = cs(&path);
        let out = self.buf(8);
        unsafe { *(out.ptr() as *mut usize) = 0 };
        self.begin("SFileOpenArchive", "path");
        let ok = unsafe { SFileOpenArchive(if null_name { ptr::null() } else { cp.as_ptr() }, p.x[3], 0, if null_out { ptr::null_mut() } else { out.ptr() as *mut HANDLE }) };
        let id = unsafe { *(out.ptr() as *const usize) };
        self.end("SFileOpenArchive", "path", format!("({path:?}{}{})->{ok},h={id}", if null_name { ",NULLNAME" } else { "" }, if null_out { ",NULLOUT" } else { "" }), ok);
        self.check_canary("SFileOpenArchive", "path", "out-handle", &out);
        if null_name || null_out {
            if ok {
                self.viol("invalid-parameter-accepted", "SFileOpenArchive", "null-pointer", "returned-success", "SFileOpenArchive succeeded with a null pointer argument".into());
            }
            return;
        }
        let rust = trap(|| Archive::open(&path));
        self.c.count("rust_api_calls", 1);
        match rust {
            Err(_) => self.c.count("rust_open_panicked", 1),
            Ok(r) => {
                if ok != r.is_ok() {
                    self.viol("agreement-open", "SFileOpenArchive", if r.is_ok() { "openable-archive" } else { "unopenable-path" }, if ok { "c=success,rust=error" } else { "c=failure,rust=ok" }, format!("SFileOpenArchive({path:?}) = {ok} but Archive::open is_ok = {}", r.is_ok()));
                }
                if ok {
                    if let Ok(a) = r {
                        self.live_ok += 1;
                        let names = self.path_names.get(&path).cloned().unwrap_or_default();
                        let cap = a.header().hash_table_size;
                        self.archs.push(MArch { id, path, gone: Gone::No, shadow: Shadow::Ro(a), mutable: false, slots_used: 0, slots_cap: cap, names, ghosts: vec![] });
                        let i = self.archs.len() - 1;
                        self.register("SFileOpenArchive", id, Kind::Arch, i);
                    }
                }
            }
        }
    }

    fn create_target(&mut self, k: u32) -> String {
        // mostly fresh paths; sometimes an existing archive path that no live mutable handle owns
        if k % 10 < 7 || self.miri {
            return self.fresh_path("new");
        }
        let mut cands: Vec<String> = self.archs.iter().map(|a| a.path.clone()).collect();
        cands.push(p2s(&self.dir.join(FX_E)));
        cands.push(p2s(&self.dir.join(NON_ARCHIVES[0])));
        let c = cands[(k / 10) as usize % cands.len()].clone();
        if self.mutable_path_live(&c) { self.fresh_path("new") } else { c }
    }

    fn do_create_archive(&mut self, p: PlanOp) {
        let path = self.create_target(p.x[0]);
        let disp = p.x[1] % 7;
        let hts = [16u32, 4, 1024, 0, 3, 15, 0x8000_0000, u32::MAX][(p.x[2] % 8) as usize];
        let null_name = p.x[3] % 23 == 0;
        let null_out = p.x[3] % 29 == 1;
        let cp = cs(&path);
        let out = self.buf(8);
        unsafe { *(out.ptr() as *mut usize) = 0 };
        self.begin("SFileCreateArchive", "path");
        let ok = unsafe { SFileCreateArchive(if null_name { ptr::null() } else { cp.as_ptr() }, disp, hts, if null_out { ptr::null_mut() } else { out.ptr() as *mut HANDLE }) };
        let id = unsafe { *(out.ptr() as *const usize) };
        self.end("SFileCreateArchive", "path", format!("({path:?},disp={disp},hash={hts}{}{})->{ok},h={id}", if null_name { ",NULLNAME" } else { "" }, if null_out { ",NULLOUT" } else { "" }), ok);
        self.check_canary("SFileCreateArchive", "path", "out-handle", &out);
        if null_name || null_out {
            self.c.count("null_pointer_arguments|SFileCreateArchive", 1);
            if ok {
                self.viol("invalid-parameter-accepted", "SFileCreateArchive", "null-pointer", "returned-success", "SFileCreateArchive succeeded with a null pointer argument".into());
            }
            return;
        }
        if !ok {
            return;
        }
        if !(hts.is_power_of_two() && hts >= 4) {
            self.viol("invalid-parameter-accepted", "SFileCreateArchive", "hash-table-size", "returned-success", format!("SFileCreateArchive accepted hash table size {hts}"));
        }
        if disp != 4 {
            self.path_names.insert(path.clone(), vec![]);
        }
        match trap(|| Archive::open(&path)) {
            Ok(Ok(a)) => {
                self.live_ok += 1;
                let names = self.path_names.get(&path).cloned().unwrap_or_default();
                let cap = a.header().hash_table_size;
                self.archs.push(MArch { id, path, gone: Gone::No, shadow: Shadow::Ro(a), mutable: false, slots_used: 0, slots_cap: cap, names, ghosts: vec![] });
                let i = self.archs.len() - 1;
                self.register("SFileCreateArchive", id, Kind::Arch, i);
            }
            _ => self.viol("agreement-open", "SFileCreateArchive", "created-archive", "c=success,rust=error", format!("SFileCreateArchive({path:?}) returned a handle but Archive::open fails on the result")),
        }
    }

    fn do_create_archive2(&mut self, p: PlanOp) {
        let path = if p.x[0] == 0 { self.fresh_path("mut") } else { self.create_target(p.x[0]) };
        let scripted = p.x[2] == 1;
        let version = if scripted { 1 + p.x[1] % 2 } else { [1u32, 2, 1, 2, 3, 4, 0, 5][(p.x[1] % 8) as usize] };
        let cb = std::mem::size_of::<SFILE_CREATE_MPQ>() as u32;
        let cb_size = if !scripted && p.x[3] % 13 == 0 { [0u32, cb - 1, cb + 4][(p.x[3] / 13 % 3) as usize] } else { cb };
        let null_info = !scripted && p.x[3] % 31 == 1;
        let null_name = !scripted && p.x[3] % 37 == 2;
        let null_out = !scripted && p.x[3] % 41 == 3;
        let info = SFILE_CREATE_MPQ {
            cb_size,
            mpq_version: version,
            user_data: ptr::null_mut(),
            cb_user_data: 0,
            stream_flags: 0,
            file_flags_1: if scripted { 1 } else { (p.x[3] >> 8) % 4 / 3 ^ 1 }, // listfile mostly on
            file_flags_2: 0,
            file_flags_3: 0,
            attr_flags: if scripted { 0 } else { [0u32, 0, 1, 4, 5][((p.x[3] >> 12) % 5) as usize] },
            sector_size: if scripted { 3 } else { [0u32, 3, 4, 24][((p.x[3] >> 16) % 4) as usize] },
            raw_chunk_size: 0,
            max_file_count: if scripted { 0 } else { [0u32, 4, 1000][((p.x[3] >> 20) % 3) as usize] },
        };
        let cp = cs(&path);
        let out = self.buf(8);
        unsafe { *(out.ptr() as *mut usize) = 0 };
        self.begin("SFileCreateArchive2", "path");
        let ok = unsafe { SFileCreateArchive2(if null_name { ptr::null() } else { cp.as_ptr() }, if null_info { ptr::null() } else { &info }, if null_out { ptr::null_mut() } else { out.ptr() as *mut HANDLE }) };
        let id = unsafe { *(out.ptr() as *const usize) };
        self.end("SFileCreateArchive2", "path", format!("({path:?},v={version},cb={cb_size},list={},attr={},sect={}{}{}{})->{ok},h={id}", info.file_flags_1, info.attr_flags, info.sector_size, if null_info { ",NULLINFO" } else { "" }, if null_name { ",NULLNAME" } else { "" }, if null_out { ",NULLOUT" } else { "" }), ok);
        self.check_canary("SFileCreateArchive2", "path", "out-handle", &out);
        if null_name || null_out {
            self.c.count("null_pointer_arguments|SFileCreateArchive2", 1);
            if ok {
                self.viol("invalid-parameter-accepted", "SFileCreateArchive2", "null-pointer", "returned-success", "SFileCreateArchive2 succeeded with a null file name / null out-handle pointer".into());
            }
            return;
        }
        if !ok {
            return;
        }
        if null_info || cb_size != cb || !(1..=4).contains(&version) {
            self.viol("invalid-parameter-accepted", "SFileCreateArchive2", "create-info", "returned-success", format!("SFileCreateArchive2 accepted cb_size={cb_size} version={version} null_info={null_info}"));
            return;
        }
        self.path_names.insert(path.clone(), vec![]);
        // shadow: a mutable archive on a byte-identical copy, driven in lock-step through the Rust API
        let spath = format!("{path}.shadow");
        let copied = std::fs::read(&path).and_then(|d| std::fs::write(&spath, d));
        let (shadow, mutable) = match copied.ok().and_then(|_| trap(|| MutableArchive::open(&spath)).ok()) {
            Some(Ok(m)) => (Shadow::Mut(m), true),
            _ => match trap(|| Archive::open(&path)) {
                Ok(Ok(a)) => (Shadow::Ro(a), false),
                _ => {
                    self.viol("agreement-open", "SFileCreateArchive2", "created-archive", "c=success,rust=error", format!("SFileCreateArchive2({path:?}) returned a handle but the Rust API cannot open the result"));
                    return;
                }
            },
        };
        self.live_ok += 1;
        let cap = match &shadow {
            Shadow::Mut(m) => m.archive().header().hash_table_size,
            Shadow::Ro(a) => a.header().hash_table_size,
            Shadow::Gone => 0,
        };
        self.c.count(if mutable { "mutable_archives_created" } else { "create2_readonly_fallback" }, 1);
        self.archs.push(MArch { id, path, gone: Gone::No, shadow, mutable, slots_used: 2, slots_cap: cap, names: vec![], ghosts: vec![] });
        let i = self.archs.len() - 1;
        self.register("SFileCreateArchive2", id, Kind::Arch, i);
    }

    fn do_close_archive(&mut self, p: PlanOp) {
        let id = self.resolve(p.h, Want::Arch);
        let (valid, label, at) = self.classify(id, Want::Arch);
        self.begin("SFileCloseArchive", label);
        let ok = if self.fault_close { with_fsize_limit(1, || SFileCloseArchive(h(id))) } else { SFileCloseArchive(h(id)) };
        self.end("SFileCloseArchive", label, format!("(h={id}[{label}]{})->{ok}", if self.fault_close { ",WRITES FAIL" } else { "" }), ok);
        if !valid {
            self.judge_invalid("SFileCloseArchive", label, ok, true);
            return;
        }
        let ai = at.unwrap().1;
        if !ok && self.fault_close {
            // a close that could not write may report failure - and then either keeps the archive open as a whole (its handle
            // and all handles below it stay valid) or has closed it (from here on the model treats it as closed: its file and
            // search handles must be gone with it)
            let cn = cs("(listfile)");
            let has = unsafe { SFileHasFile(h(id), cn.as_ptr()) };
            if has || SFileGetLastError() != 6 {
                self.c.count("faulty_close_refused_archive_kept_open", 1);
                return;
            }
            self.c.count("faulty_close_reported_failure_and_closed_the_archive", 1);
        } else if !ok {
            self.viol("live-handle-rejected", "SFileCloseArchive", label, "returned-failure", format!("SFileCloseArchive failed on live archive handle {id}"));
            return;
        } else if self.fault_close {
            self.c.count("faulty_close_reported_success", 1);
        }
        self.live_ok += 1;
        self.archs[ai].gone = Gone::Own;
        self.archs[ai].shadow = Shadow::Gone; // a mutable shadow flushes on drop, like the C side
        let names = self.archs[ai].names.clone();
        if self.archs[ai].mutable {
            self.path_names.insert(self.archs[ai].path.clone(), names);
        }
        for f in self.files.iter_mut().filter(|f| f.arch == ai && f.gone == Gone::No) {
            f.gone = Gone::Archive;
        }
        for f in self.finds.iter_mut().filter(|f| f.arch == ai && f.gone == Gone::No) {
            f.gone = Gone::Archive;
        }
        // closing an archive invalidates exactly its own handles: probe a few on either side right away
        let own: Vec<usize> = self.files.iter().filter(|f| f.arch == ai && f.gone == Gone::Archive).map(|f| f.id).rev().take(3).collect();
        for fid in own {
            self.probe_size(fid);
        }
        let others: Vec<usize> = self.files.iter().filter(|f| f.arch != ai && f.gone == Gone::No).map(|f| f.id).rev().take(3).collect();
        for fid in others {
            self.probe_size(fid);
        }
        let own_finds: Vec<usize> = self.finds.iter().filter(|f| f.arch == ai && f.gone == Gone::Archive).map(|f| f.id).rev().take(2).collect();
        for fid in own_finds {
            self.do_find_next(op(F::FindNextFile, HSel::Null, [0; 4]), Some(fid));
        }
        let other_finds: Vec<usize> = self.finds.iter().filter(|f| f.arch != ai && f.gone == Gone::No && !f.exhausted).map(|f| f.id).rev().take(2).collect();
        for fid in other_finds {
            self.do_find_next(op(F::FindNextFile, HSel::Null, [0; 4]), Some(fid));
        }
    }
}

// ------------------------------------------------------------------ file-level calls ----

impl<'a> St<'a> {
    /// SFileGetFileSize on an explicit id with the full verdict (used by plan ops and by the post-close probes).
    fn probe_size(&mut self, id: usize) {
        let (valid, label, at) = self.classify(id, Want::File);
        let with_high = id % 2 == 0;
        let hi = self.buf(4);
        self.begin("SFileGetFileSize", label);
        let r = unsafe { SFileGetFileSize(h(id), if with_high { hi.ptr() as *mut u32 } else { ptr::null_mut() }) };
        let ok = r != 0xFFFF_FFFF;
        self.end("SFileGetFileSize", label, format!("(h={id}[{label}])->{r:#x}"), ok);
        self.check_canary("SFileGetFileSize", label, "high", &hi);
        if !valid {
            self.judge_invalid("SFileGetFileSize", label, ok, true);
            return;
        }
        let fi = at.unwrap().1;
        if !ok {
            self.viol("live-handle-rejected", "SFileGetFileSize", label, "returned-failure", format!("SFileGetFileSize failed on live file handle {id} ({:?})", self.files[fi].name));
            return;
        }
        self.live_ok += 1;
        self.c.count("sizes_compared", 1);
        let len = self.files[fi].content.len() as u64;
        if r as u64 != len & 0xFFFF_FFFF || (with_high && unsafe { *(hi.ptr() as *const u32) } != (len >> 32) as u32) {
            let rs = self.files[fi].rust_size;
            self.viol("agreement-size", "SFileGetFileSize", label, if rs == len { "c-size!=rust-content-length" } else { "rust-file_size!=rust-content-length" }, format!("SFileGetFileSize = {r} but the Rust API read {len} bytes (find_file().file_size = {rs}) for {:?}", self.files[fi].name));
        }
    }

    fn do_open_file(&mut self, p: PlanOp) {
        let id = self.resolve(p.h, Want::Arch);
        let (valid, label, at) = self.classify(id, Want::Arch);
        let ai = at.filter(|_| valid).map(|x| x.1);
        let scripted = p.x[1] == 1;
        let name = if scripted {
            let n = ai.map(|i| self.archs[i].names.clone()).unwrap_or_default();
            if n.is_empty() { "(listfile)".to_string() } else { n[p.x[0] as usize % n.len()].clone() }
        } else {
            self.name_for(ai, p.x[0])
        };
        let null_name = !scripted && p.x[2] % 41 == 0;
        let null_out = !scripted && p.x[2] % 43 == 1;
        let cn = cs(&name);
        let out = self.buf(8);
        unsafe { *(out.ptr() as *mut usize) = 0 };
        self.begin("SFileOpenFileEx", label);
        let ok = unsafe { SFileOpenFileEx(h(id), if null_name { ptr::null() } else { cn.as_ptr() }, p.x[3] % 3, if null_out { ptr::null_mut() } else { out.ptr() as *mut HANDLE }) };
        let fid = unsafe { *(out.ptr() as *const usize) };
        self.end("SFileOpenFileEx", label, format!("(h={id}[{label}],{:?}{})->{ok},f={fid}", short(&name), if null_name || null_out { ",NULLPTR" } else { "" }), ok);
        self.check_canary("SFileOpenFileEx", label, "out-handle", &out);
        if !valid {
            self.judge_invalid("SFileOpenFileEx", label, ok, true);
            return;
        }
        if null_name || null_out {
            if ok {
                self.viol("invalid-parameter-accepted", "SFileOpenFileEx", "null-pointer", "returned-success", "SFileOpenFileEx succeeded with a null pointer argument".into());
            }
            return;
        }
        let ai = ai.unwrap();
        let exists = self.rust_exists(ai, &name);
        let size = self.rust_size(ai, &name);
        let data = self.rust_read(ai, &name);
        let (Some(exists), Some(data)) = (exists, data) else {
            self.c.count("rust_side_panicked", 1);
            return;
        };
        let expect = exists && data.is_ok();
        self.c.count("existence_answers_compared", 1);
        if ok != expect {
            self.viol("agreement-exists", "SFileOpenFileEx", label, if ok { "c=opened,rust=absent-or-unreadable" } else { "c=failed,rust=present-and-readable" }, format!("SFileOpenFileEx({name:?}) = {ok}; Rust find_file present = {exists}, read_file ok = {}", data.is_ok()));
        }
        if ok {
            self.live_ok += 1;
            let fuzzy = self.archs[ai].mutable && name.eq_ignore_ascii_case("(attributes)");
            self.files.push(MFile { id: fid, arch: ai, name, content: data.unwrap_or_default(), rust_size: size.unwrap_or(0), pos: 0, gone: Gone::No, fuzzy: fuzzy || !expect });
            let i = self.files.len() - 1;
            self.register("SFileOpenFileEx", fid, Kind::File, i);
        }
    }

    fn do_close_file(&mut self, p: PlanOp) {
        let id = self.resolve(p.h, Want::File);
        let (valid, label, at) = self.classify(id, Want::File);
        self.begin("SFileCloseFile", label);
        let ok = SFileCloseFile(h(id));
        self.end("SFileCloseFile", label, format!("(f={id}[{label}])->{ok}"), ok);
        if !valid {
            self.judge_invalid("SFileCloseFile", label, ok, true);
            return;
        }
        if !ok {
            self.viol("live-handle-rejected", "SFileCloseFile", label, "returned-failure", format!("SFileCloseFile failed on live file handle {id}"));
            return;
        }
        self.live_ok += 1;
        self.files[at.unwrap().1].gone = Gone::Own;
    }

    fn do_read(&mut self, p: PlanOp) {
        let id = self.resolve(p.h, Want::File);
        let (valid, label, at) = self.classify(id, Want::File);
        let (len, pos) = at.filter(|_| valid).map(|x| (self.files[x.1].content.len(), self.files[x.1].pos)).unwrap_or((100, 0));
        let rem = len - pos.min(len);
        let big = if self.miri { 512 } else { 1 << 20 };
        let n = [0usize, 1, 7, 8, rem.saturating_sub(1), rem, rem + 1, 4096, 65536.min(big), big, rem / 2, 3, rem + 64, 16][(p.x[0] % 14) as usize];
        let null_buf = p.x[1] % 37 == 0;
        let with_read = p.x[1] % 5 != 1;
        let b = self.buf(n);
        let rd = self.buf(4);
        unsafe { *(rd.ptr() as *mut u32) = 0xDEAD_BEEF };
        self.begin("SFileReadFile", label);
        let ok = unsafe { SFileReadFile(h(id), if null_buf { ptr::null_mut() } else { b.ptr() as *mut c_void }, n as u32, if with_read { rd.ptr() as *mut u32 } else { ptr::null_mut() }, ptr::null_mut()) };
        let got = unsafe { *(rd.ptr() as *const u32) };
        self.end("SFileReadFile", label, format!("(f={id}[{label}],n={n}{}{})->{ok},read={got:#x}", if null_buf { ",NULLBUF" } else { "" }, if with_read { "" } else { ",NOREADPTR" }), ok);
        self.check_canary("SFileReadFile", label, "data", &b);
        self.check_canary("SFileReadFile", label, "read-count", &rd);
        if !valid {
            self.judge_invalid("SFileReadFile", label, ok, true);
            return;
        }
        if null_buf {
            if ok {
                self.viol("invalid-parameter-accepted", "SFileReadFile", "null-pointer", "returned-success", "SFileReadFile succeeded with a null buffer".into());
            }
            return;
        }
        let fi = at.unwrap().1;
        if !ok {
            self.viol("live-handle-rejected", "SFileReadFile", label, "returned-failure", format!("SFileReadFile failed on live file handle {id}"));
            return;
        }
        self.live_ok += 1;
        let want = n.min(rem);
        self.c.count("reads_compared", 1);
        self.c.count("read_bytes_compared", want as u64);
        self.c.count(if n > rem { "reads_oversize" } else if n == 0 { "reads_zero_length" } else { "reads_within" }, 1);
        if with_read && got as usize != want {
            self.viol("agreement-bytes", "SFileReadFile", label, "read-count!=min(requested,remaining)", format!("SFileReadFile(n={n}) at position {pos} of {len} reported {got} bytes, expected {want}"));
        }
        if !self.files[fi].fuzzy {
            let exp = &self.files[fi].content[pos.min(len)..pos.min(len) + want];
            if &b.bytes()[..want] != exp {
                let d = vh_common::first_diff(&b.bytes()[..want], exp);
                self.viol("agreement-bytes", "SFileReadFile", label, "bytes!=rust-content-at-cursor", format!("SFileReadFile(n={n}) at position {pos} of {len}: bytes differ from the Rust API content at offset {d} of the read"));
            }
            if b.bytes()[want..].iter().any(|x| *x != FILL_BYTE) {
                self.c.count("reads_touching_beyond_count", 1);
            }
        }
        self.files[fi].pos = pos.min(len) + want;
    }

    fn do_seek(&mut self, p: PlanOp) {
        let id = self.resolve(p.h, Want::File);
        let (valid, label, at) = self.classify(id, Want::File);
        let (len, pos) = at.filter(|_| valid).map(|x| (self.files[x.1].content.len() as i64, self.files[x.1].pos as i64)).unwrap_or((100, 0));
        let lo = [0i64, 1, -1, len, len + 1, -len, -len - 1, i32::MAX as i64, i32::MIN as i64, len / 2, -(pos / 2), 3, len - pos, -pos, 8, -8][(p.x[0] % 16) as usize] as i32;
        let hi: Option<i32> = [None, None, None, Some(0), Some(-1), Some(1), Some(i32::MAX), Some(i32::MIN)][(p.x[1] % 8) as usize];
        let method = [0u32, 1, 2, 0, 1, 2, 3, 0xFFFF_FFFF][(p.x[2] % 8) as usize];
        let hb = self.buf(4);
        if let Some(v) = hi {
            unsafe { *(hb.ptr() as *mut i32) = v };
        }
        self.begin("SFileSetFilePointer", label);
        let r = unsafe { SFileSetFilePointer(h(id), lo, if hi.is_some() { hb.ptr() as *mut i32 } else { ptr::null_mut() }, method) };
        let ok = r != 0xFFFF_FFFF;
        self.end("SFileSetFilePointer", label, format!("(f={id}[{label}],lo={lo},hi={hi:?},method={method})->{r:#x}"), ok);
        self.check_canary("SFileSetFilePointer", label, "high", &hb);
        if !valid {
            self.judge_invalid("SFileSetFilePointer", label, ok, true);
            return;
        }
        let fi = at.unwrap().1;
        if method > 2 {
            self.c.count("seeks_bad_method", 1);
            return; // parameter error, not a handle question; the next read re-checks the cursor
        }
        if !ok {
            self.viol("live-handle-rejected", "SFileSetFilePointer", label, "returned-failure", format!("SFileSetFilePointer failed on live file handle {id}"));
            return;
        }
        self.live_ok += 1;
        if r as i64 > len {
            self.viol("position-range", "SFileSetFilePointer", label, "position>length", format!("SFileSetFilePointer returned {r} for a file of {len} bytes"));
            return;
        }
        let off: i128 = match hi {
            None => lo as i128,
            Some(hv) => (((hv as i64) << 32) | (lo as u32 as i64)) as i128,
        };
        let base: i128 = [0, pos as i128, len as i128][method as usize];
        let t = base + off;
        if t >= 0 && t <= len as i128 {
            self.c.count("seeks_in_range_compared", 1);
            if r as i128 != t {
                self.viol("agreement-cursor", "SFileSetFilePointer", label, "in-range-seek-lands-elsewhere", format!("seek method {method} offset {off} from position {pos} (length {len}) returned {r}, expected {t}"));
            }
            if hi.is_some() && unsafe { *(hb.ptr() as *const i32) } != 0 {
                self.viol("agreement-cursor", "SFileSetFilePointer", label, "high-part-nonzero", "in-range seek left a non-zero high part".into());
            }
        } else {
            self.c.count("seeks_beyond_end_not_compared", 1);
        }
        self.files[fi].pos = r as usize;
    }

    fn do_has_file(&mut self, p: PlanOp) {
        let id = self.resolve(p.h, Want::Arch);
        let (valid, label, at) = self.classify(id, Want::Arch);
        let ai = at.filter(|_| valid).map(|x| x.1);
        let name = self.name_for(ai, p.x[0]);
        let null_name = p.x[1] % 41 == 0;
        let cn = cs(&name);
        self.begin("SFileHasFile", label);
        let ok = unsafe { SFileHasFile(h(id), if null_name { ptr::null() } else { cn.as_ptr() }) };
        self.end("SFileHasFile", label, format!("(h={id}[{label}],{:?}{})->{ok}", short(&name), if null_name { ",NULLNAME" } else { "" }), ok);
        if !valid {
            self.judge_invalid("SFileHasFile", label, ok, false);
            return;
        }
        if null_name {
            if ok {
                self.viol("invalid-parameter-accepted", "SFileHasFile", "null-pointer", "returned-success", "SFileHasFile(NULL) = true".into());
            }
            return;
        }
        let ai = ai.unwrap();
        let Some(exists) = self.rust_exists(ai, &name) else { return };
        self.live_ok += 1;
        self.c.count("existence_answers_compared", 1);
        if ok != exists {
            let inner = self.rust_exists_inner(ai, &name);
            let why = if self.archs[ai].mutable && inner == Some(ok) { "answers-from-stale-readonly-view" } else { "differs" };
            self.viol("agreement-exists", "SFileHasFile", label, &format!("c={ok},rust={exists},{why}"), format!("SFileHasFile({name:?}) = {ok} but the Rust API find_file on the same archive says present = {exists} (read-only inner view: {inner:?})"));
        }
    }

    fn do_get_info(&mut self, p: PlanOp) {
        let id = self.resolve(p.h, Want::FileOrArch);
        let (valid, label, at) = self.classify(id, Want::FileOrArch);
        let class = [7u32, 10, 1, 2, 3, 4, 5, 99][(p.x[0] % 8) as usize];
        let size = [8usize, 16, 4, 0, 3, 7, 5, 9][(p.x[1] % 8) as usize];
        let with_needed = p.x[2] % 4 != 0;
        let null_buf = size == 0 && p.x[2] % 3 == 0;
        let b = self.buf(size);
        let nd = self.buf(4);
        unsafe { *(nd.ptr() as *mut u32) = 0 };
        self.begin("SFileGetFileInfo", label);
        let ok = unsafe { SFileGetFileInfo(h(id), class, if null_buf { ptr::null_mut() } else { b.ptr() as *mut c_void }, size as u32, if with_needed { nd.ptr() as *mut u32 } else { ptr::null_mut() }) };
        let needed = unsafe { *(nd.ptr() as *const u32) };
        self.end("SFileGetFileInfo", label, format!("(h={id}[{label}],class={class},size={size})->{ok},needed={needed}"), ok);
        self.check_canary("SFileGetFileInfo", label, "info", &b);
        self.check_canary("SFileGetFileInfo", label, "size-needed", &nd);
        if !valid {
            self.judge_invalid("SFileGetFileInfo", label, ok, true);
            return;
        }
        let (k, i) = at.unwrap();
        let expect: Option<(usize, u64)> = match (k, class) {
            (Kind::File, 7) => Some((8, self.files[i].rust_size)),
            (Kind::File, 10) => Some((8, self.files[i].pos as u64)),
            (Kind::Arch, 1..=4) => {
                let hd = match &self.archs[i].shadow {
                    Shadow::Ro(a) => Some(a.header().clone()),
                    Shadow::Mut(m) => Some(m.archive().header().clone()),
                    Shadow::Gone => None,
                };
                hd.map(|hd| match class {
                    1 => (8usize, hd.get_archive_size()),
                    2 => (4, hd.hash_table_size as u64),
                    3 => (4, hd.block_table_size as u64),
                    _ => (4, hd.sector_size() as u64),
                })
            }
            _ => None,
        };
        let Some((need, val)) = expect else {
            self.c.count("info_unsupported_class", 1);
            return;
        };
        if size < need {
            if ok {
                self.viol("agreement-info", "SFileGetFileInfo", label, "success-with-short-buffer", format!("class {class} needs {need} bytes, buffer has {size}, call reported success"));
            }
            return;
        }
        if !ok {
            self.viol("live-handle-rejected", "SFileGetFileInfo", label, "returned-failure", format!("SFileGetFileInfo(class {class}, {size} bytes) failed on a live handle"));
            return;
        }
        self.live_ok += 1;
        self.c.count("info_values_compared", 1);
        let got = if need == 8 { u64::from_le_bytes(b.bytes()[..8].try_into().unwrap()) } else { u32::from_le_bytes(b.bytes()[..4].try_into().unwrap()) as u64 };
        let fuzzy = k == Kind::File && self.files[i].fuzzy;
        if got != val && !fuzzy {
            self.viol("agreement-info", "SFileGetFileInfo", label, &format!("class-{class}-value-differs"), format!("SFileGetFileInfo class {class} = {got}, Rust API / model says {val}"));
        }
        if with_needed && needed as usize != need {
            self.viol("agreement-info", "SFileGetFileInfo", label, "size-needed-wrong", format!("size_needed = {needed}, expected {need}"));
        }
    }

    fn do_archive_name(&mut self, p: PlanOp) {
        let id = self.resolve(p.h, Want::Arch);
        let (valid, label, at) = self.classify(id, Want::Arch);
        let plen = at.filter(|_| valid).map(|x| self.archs[x.1].path.len()).unwrap_or(20);
        let size = [plen + 1, 1024, plen, 0, 1, plen + 2, 300, plen.saturating_sub(1)][(p.x[0] % 8) as usize];
        let null_buf = p.x[1] % 13 == 5;
        let b = self.buf(size);
        self.begin("SFileGetArchiveName", label);
        let ok = unsafe { SFileGetArchiveName(h(id), if null_buf { ptr::null_mut() } else { b.ptr() as *mut c_char }, size as u32) };
        self.end("SFileGetArchiveName", label, format!("(h={id}[{label}],size={size},need={}{})->{ok}", plen + 1, if null_buf { ",NULLBUF" } else { "" }), ok);
        self.check_canary("SFileGetArchiveName", label, "name", &b);
        if !valid {
            self.judge_invalid("SFileGetArchiveName", label, ok, true);
            return;
        }
        if null_buf {
            self.c.count("null_pointer_arguments|SFileGetArchiveName", 1);
            if ok {
                self.viol("invalid-parameter-accepted", "SFileGetArchiveName", "null-pointer", "returned-success", format!("SFileGetArchiveName(NULL buffer, size {size}) succeeded"));
            }
            return;
        }
        let path = self.archs[at.unwrap().1].path.clone();
        self.c.count("names_compared", 1);
        if size >= plen + 1 {
            if !ok {
                self.viol("live-handle-rejected", "SFileGetArchiveName", label, if size == plen + 1 { "exact-fit-buffer-refused" } else { "sufficient-buffer-refused" }, format!("buffer of {size} bytes refused for a {plen}-byte path + NUL"));
                return;
            }
            self.live_ok += 1;
            if &b.bytes()[..plen] != path.as_bytes() || b.bytes()[plen] != 0 {
                self.viol("agreement-name", "SFileGetArchiveName", label, "name!=rust-path", format!("archive name differs from the path the archive was opened with ({path:?})"));
            }
        } else if ok {
            self.viol("agreement-name", "SFileGetArchiveName", label, "success-with-short-buffer", format!("buffer of {size} bytes cannot hold the {plen}-byte path + NUL, call reported success"));
        }
    }

    fn do_file_name(&mut self, p: PlanOp) {
        let id = self.resolve(p.h, Want::File);
        let (valid, label, at) = self.classify(id, Want::File);
        let name = at.filter(|_| valid).map(|x| self.files[x.1].name.clone()).unwrap_or_else(|| "0123456789abcde".into());
        let null_buf = p.x[0] % 17 == 0;
        let b = self.buf(name.len() + 1);
        self.begin("SFileGetFileName", label);
        let ok = unsafe { SFileGetFileName(h(id), if null_buf { ptr::null_mut() } else { b.ptr() as *mut c_char }) };
        self.end("SFileGetFileName", label, format!("(f={id}[{label}],buf={}{})->{ok}", name.len() + 1, if null_buf { ",NULLBUF" } else { "" }), ok);
        self.check_canary("SFileGetFileName", label, "name", &b);
        if !valid {
            self.judge_invalid("SFileGetFileName", label, ok, true);
            return;
        }
        if null_buf {
            if ok {
                self.viol("invalid-parameter-accepted", "SFileGetFileName", "null-pointer", "returned-success", "SFileGetFileName(NULL buffer) succeeded".into());
            }
            return;
        }
        if !ok {
            self.viol("live-handle-rejected", "SFileGetFileName", label, "returned-failure", format!("SFileGetFileName failed on live file handle {id}"));
            return;
        }
        self.live_ok += 1;
        self.c.count("names_compared", 1);
        if &b.bytes()[..name.len()] != name.as_bytes() || b.bytes()[name.len()] != 0 {
            self.viol("agreement-name", "SFileGetFileName", label, "name!=opened-name", format!("file name differs from the name the file was opened with ({:?})", short(&name)));
        }
    }
}

/// Panic message with every run of digits collapsed to one 'N' (sizes and indices must not split signatures).
fn norm_msg(msg: &str) -> String {
    let mut out = String::new();
    for c in msg.chars().take(100) {
        if c.is_ascii_digit() {
            if !out.ends_with('N') {
                out.push('N');
            }
        } else {
            out.push(c);
        }
    }
    out
}

fn short(s: &str) -> String {
    if s.len() > 48 { format!("{}…[{}]", &s[..40], s.len()) } else { s.to_string() }
}

// ------------------------------------------------------------------ enumeration ----

const MASKS: &[Option<&str>] = &[None, Some("*"), Some("*.*"), Some("*"), Some("*.dat"), Some("dir\\*"), Some("?"), Some("one.bin"), Some(""), Some("*.TXT")];

fn is_all(mask: &Option<String>) -> bool {
    matches!(mask.as_deref(), None | Some("*") | Some("*.*"))
}

/// A masked search (SFileFindFirstFile / SFileFindNextFile) is judged against the glob model when the mask is ASCII and
/// neither of the '*' class (judged as "everything", above) nor empty (what an empty mask selects is not compared).
fn judged_mask(mask: &Option<String>) -> Option<String> {
    match mask.as_deref() {
        Some(m) if !is_all(mask) && !m.is_empty() && m.is_ascii() => Some(m.to_string()),
        _ => None,
    }
}

/// The listed names the model says the mask selects (non-ASCII names are outside the model and left out on both sides).
fn model_selection<'x>(mask: &str, names: impl Iterator<Item = &'x String>) -> BTreeSet<String> {
    names.filter(|n| n.is_ascii() && glob_match(mask.as_bytes(), n.as_bytes())).cloned().collect()
}

impl<'a> St<'a> {
    fn mask_for(&self, k: u32) -> Option<String> {
        if k % 23 == 22 {
            let mut s = String::from("*");
            while s.len() < 300 {
                s.push('m');
            }
            return Some(s);
        }
        MASKS[(k % MASKS.len() as u32) as usize].map(|s| s.to_string())
    }

    /// A mask derived from one of the names the Rust API lists for archive `ai` (see `mask_from_name`); None when the
    /// archive lists no ASCII name.
    fn derived_mask(&mut self, ai: usize, name_sel: u32, shape_sel: u32) -> Option<String> {
        let list = self.rust_list(ai, true)?.ok()?;
        let names: Vec<&String> = list.iter().map(|e| &e.0).filter(|n| n.is_ascii() && !n.is_empty()).collect();
        if names.is_empty() {
            return None;
        }
        let (mask, shape) = mask_from_name(names[name_sel as usize % names.len()], shape_sel);
        self.c.count(&format!("mask_shape|{shape}"), 1);
        Some(mask)
    }

    fn do_enum_files(&mut self, p: PlanOp) {
        let id = self.resolve(p.h, Want::Arch);
        let (valid, label, at) = self.classify(id, Want::Arch);
        let mask = match self.mask_for(p.x[0]) {
            Some(m) if m == "*.*" => Some("*".to_string()), // SFileEnumFiles documents plain '*' only
            m => m,
        };
        let mode = p.x[1] % 6; // 0: null callback, 1: stop after first, else collect all
        let mut ctx = EnumCtx { names: vec![], stop_after: if mode == 1 { 1 } else { usize::MAX } };
        let cm = mask.as_ref().map(|m| cs(m));
        self.begin("SFileEnumFiles", label);
        let ok = unsafe { SFileEnumFiles(h(id), cm.as_ref().map(|c| c.as_ptr()).unwrap_or(ptr::null()), ptr::null(), if mode == 0 { None } else { Some(enum_cb) }, &mut ctx as *mut EnumCtx as *mut c_void) };
        self.end("SFileEnumFiles", label, format!("(h={id}[{label}],mask={:?},mode={mode})->{ok},callbacks={}", mask.as_deref().map(short), ctx.names.len()), ok);
        if !valid {
            self.judge_invalid("SFileEnumFiles", label, ok, true);
            if !ctx.names.is_empty() {
                self.viol("invalid-handle-accepted", "SFileEnumFiles", label, "callback-invoked", "callback invoked for an invalid archive handle".into());
            }
            return;
        }
        if mode == 0 {
            if ok {
                self.viol("invalid-parameter-accepted", "SFileEnumFiles", "null-pointer", "returned-success", "SFileEnumFiles succeeded with a null callback".into());
            }
            return;
        }
        let ai = at.unwrap().1;
        if !ok {
            self.viol("live-handle-rejected", "SFileEnumFiles", label, "returned-failure", format!("SFileEnumFiles failed on live archive handle {id}"));
            return;
        }
        self.live_ok += 1;
        let Some(list) = self.rust_list(ai, false) else { return };
        let want: BTreeSet<String> = list.map(|l| l.into_iter().map(|e| e.0).collect()).unwrap_or_default();
        let got: BTreeSet<String> = ctx.names.iter().cloned().collect();
        self.c.count("enumerations_compared", 1);
        self.c.count("enumerated_names_compared", got.len() as u64);
        if !got.is_subset(&want) {
            self.viol("agreement-enum", "SFileEnumFiles", label, "name-not-in-rust-list", format!("enumeration produced names the Rust list() does not contain: {:?}", got.difference(&want).take(3).collect::<Vec<_>>()));
        } else if mode == 1 {
            if ctx.names.len() > 1 || (is_all(&mask) && ctx.names.len() != want.len().min(1)) {
                self.viol("agreement-enum", "SFileEnumFiles", label, "callback-false-does-not-stop", format!("callback returned false after the first name but was called {} times", ctx.names.len()));
            }
        } else if is_all(&mask) && (got != want || ctx.names.len() != want.len()) {
            self.viol("agreement-enum", "SFileEnumFiles", label, "set!=rust-list", format!("'*' enumeration gave {} names ({} distinct), Rust list() has {}", ctx.names.len(), got.len(), want.len()));
        }
    }

    fn check_find_data(&mut self, func: &str, label: &str, b: &Guarded, expected: &[(String, u64)], returned: &[String]) -> Option<String> {
        // SFILE_FIND_DATA: c_file_name[260], (pad), sz_plain_name, hash_index, block_index, file_size, ...
        let fd = unsafe { &*(b.ptr() as *const SFILE_FIND_DATA) };
        let raw: Vec<u8> = fd.c_file_name.iter().map(|c| *c as u8).collect();
        let nul = raw.iter().position(|c| *c == 0);
        let Some(nul) = nul else {
            self.viol("agreement-name", func, label, "find-name-not-terminated", "c_file_name has no NUL terminator".into());
            return None;
        };
        let name = String::from_utf8_lossy(&raw[..nul]).into_owned();
        self.c.count("find_records_compared", 1);
        let hit = expected.iter().find(|e| if e.0.len() <= 259 { e.0 == name } else { e.0.as_bytes()[..259] == raw[..nul] && !returned.contains(&e.0) });
        match hit {
            None => {
                self.viol("agreement-enum", func, label, "name-not-in-rust-list", format!("find returned {:?}, which the Rust list does not contain", short(&name)));
                None
            }
            Some(e) => {
                if fd.file_size != e.1 as u32 {
                    self.viol("agreement-size", func, label, "find-size!=rust-list-size", format!("find data size {} for {:?}, Rust list entry says {}", fd.file_size, short(&name), e.1));
                }
                if e.0.len() <= 259 {
                    let off = (fd.sz_plain_name as usize).wrapping_sub(fd.c_file_name.as_ptr() as usize);
                    let want_off = e.0.rfind('\\').map(|x| x + 1).unwrap_or(0);
                    if off != want_off {
                        self.viol("agreement-name", func, label, "plain-name-pointer", format!("sz_plain_name points {off} bytes into c_file_name, expected {want_off}"));
                    }
                }
                Some(e.0.clone())
            }
        }
    }

    /// A name produced by a judged masked search must be one the mask selects.
    fn judge_masked_record(&mut self, func: &str, label: &str, mask: &str, name: &str) {
        if !name.is_ascii() {
            return;
        }
        self.c.count("masked_records_compared", 1);
        if !glob_match(mask.as_bytes(), name.as_bytes()) {
            self.viol("agreement-enum", func, label, &format!("masked-search-returns-a-name-the-mask-does-not-select|{}", mask_features(mask)),
                      format!("search with mask {:?} produced {:?}, which the mask does not match", short(mask), short(name)));
        }
    }

    fn do_find_first(&mut self, p: PlanOp, force_all: bool) -> Option<usize> {
        let id = self.resolve(p.h, Want::Arch);
        let (valid, label, at) = self.classify(id, Want::Arch);
        // an odd x[2] asks for a mask derived from the archive's own names (x[2] >> 1 picks the name, x[3] the shape)
        let derived = if valid && p.x[2] & 1 == 1 { self.derived_mask(at.unwrap().1, p.x[2] >> 1, p.x[3]) } else { None };
        let mask = match derived {
            Some(m) => Some(m),
            None if force_all => Some("*".to_string()),
            None => self.mask_for(p.x[0]),
        };
        let null_data = !force_all && p.x[1] % 19 == 0;
        let cm = mask.as_ref().map(|m| cs(m));
        let b = self.buf(std::mem::size_of::<SFILE_FIND_DATA>());
        self.begin("SFileFindFirstFile", label);
        let r = unsafe { SFileFindFirstFile(h(id), cm.as_ref().map(|c| c.as_ptr()).unwrap_or(ptr::null()), if null_data { ptr::null_mut() } else { b.ptr() as *mut SFILE_FIND_DATA }, ptr::null()) } as usize;
        let ok = r != 0;
        self.end("SFileFindFirstFile", label, format!("(h={id}[{label}],mask={:?}{})->find={r}", mask.as_deref().map(short), if null_data { ",NULLDATA" } else { "" }), ok);
        self.check_canary("SFileFindFirstFile", label, "find-data", &b);
        if !valid {
            self.judge_invalid("SFileFindFirstFile", label, ok, true);
            return None;
        }
        if null_data {
            if ok {
                self.viol("invalid-parameter-accepted", "SFileFindFirstFile", "null-pointer", "returned-success", "SFileFindFirstFile succeeded with null find data".into());
            }
            return None;
        }
        let ai = at.unwrap().1;
        let Some(list) = self.rust_list(ai, true) else { return None };
        let expected = list.unwrap_or_default();
        let all = is_all(&mask);
        let judged = judged_mask(&mask);
        if !ok {
            if all && !expected.is_empty() {
                self.viol("agreement-enum", "SFileFindFirstFile", label, "nothing-found-but-rust-list-nonempty", format!("'*' search found nothing, Rust list has {} entries", expected.len()));
            }
            if let Some(m) = &judged {
                self.c.count("masked_searches_judged", 1);
                let want = model_selection(m, expected.iter().map(|e| &e.0));
                if !want.is_empty() {
                    self.viol("agreement-enum", "SFileFindFirstFile", label, &format!("masked-search-finds-nothing|listed-names-match-the-mask|{}", mask_features(m)),
                              format!("search with mask {:?} found nothing, but the Rust list has {} name(s) the mask selects, e.g. {:?}", short(m), want.len(), short(want.iter().next().unwrap())));
                }
            }
            return None;
        }
        self.live_ok += 1;
        let first = self.check_find_data("SFileFindFirstFile", label, &b, &expected, &[]);
        if let (Some(m), Some(n)) = (&judged, &first) {
            self.judge_masked_record("SFileFindFirstFile", label, m, n);
        }
        self.finds.push(MFind { id: r, arch: ai, gone: Gone::No, mask_all: all, judged_mask: judged, expected, returned: first.into_iter().collect(), exhausted: false });
        let i = self.finds.len() - 1;
        self.register("SFileFindFirstFile", r, Kind::Find, i);
        Some(r)
    }

    /// Returns true while the search keeps producing entries.
    fn do_find_next(&mut self, p: PlanOp, explicit: Option<usize>) -> bool {
        let id = explicit.unwrap_or_else(|| self.resolve(p.h, Want::Find));
        let (valid, label, at) = self.classify(id, Want::Find);
        let null_data = explicit.is_none() && p.x[1] % 19 == 0;
        let b = self.buf(std::mem::size_of::<SFILE_FIND_DATA>());
        self.begin("SFileFindNextFile", label);
        let ok = unsafe { SFileFindNextFile(h(id), if null_data { ptr::null_mut() } else { b.ptr() as *mut SFILE_FIND_DATA }) };
        let err = SFileGetLastError();
        self.end("SFileFindNextFile", label, format!("(find={id}[{label}]{})->{ok},err={err}", if null_data { ",NULLDATA" } else { "" }), ok);
        self.check_canary("SFileFindNextFile", label, "find-data", &b);
        if !valid {
            self.judge_invalid("SFileFindNextFile", label, ok, true);
            return false;
        }
        if null_data {
            if ok {
                self.viol("invalid-parameter-accepted", "SFileFindNextFile", "null-pointer", "returned-success", "SFileFindNextFile succeeded with null find data".into());
            }
            return false;
        }
        let fi = at.unwrap().1;
        if ok {
            self.live_ok += 1;
            let (expected, returned) = (self.finds[fi].expected.clone(), self.finds[fi].returned.clone());
            if let Some(n) = self.check_find_data("SFileFindNextFile", label, &b, &expected, &returned) {
                if let Some(m) = self.finds[fi].judged_mask.clone() {
                    self.judge_masked_record("SFileFindNextFile", label, &m, &n);
                }
                if returned.contains(&n) && expected.iter().filter(|e| e.0 == n).count() < 2 {
                    self.viol("agreement-enum", "SFileFindNextFile", label, "name-returned-twice", format!("{:?} was returned twice by one search", short(&n)));
                }
                self.finds[fi].returned.push(n);
            }
            if self.finds[fi].exhausted {
                self.viol("agreement-enum", "SFileFindNextFile", label, "entries-after-exhaustion", "search produced an entry after reporting no more files".into());
            }
            true
        } else {
            if err != ERR_NO_MORE_FILES {
                self.viol("live-handle-rejected", "SFileFindNextFile", label, "failure-other-than-no-more-files", format!("SFileFindNextFile failed on a live find handle with error {err}"));
                return false;
            }
            self.finds[fi].exhausted = true;
            if self.finds[fi].mask_all {
                self.c.count("enumerations_compared", 1);
                let want: BTreeSet<&String> = self.finds[fi].expected.iter().map(|e| &e.0).collect();
                let got: BTreeSet<&String> = self.finds[fi].returned.iter().collect();
                if want != got || self.finds[fi].returned.len() != self.finds[fi].expected.len() {
                    let (r, e) = (self.finds[fi].returned.len(), self.finds[fi].expected.len());
                    self.viol("agreement-enum", "SFileFindNextFile", label, "set!=rust-list", format!("'*' search returned {r} names in total, Rust list has {e}"));
                }
            }
            if let Some(m) = self.finds[fi].judged_mask.clone() {
                // the search ran to its end: the names it produced must be the listed names the mask selects
                self.c.count("masked_searches_judged", 1);
                self.c.count("enumerations_compared", 1);
                let want = model_selection(&m, self.finds[fi].expected.iter().map(|e| &e.0));
                let got: BTreeSet<String> = self.finds[fi].returned.iter().filter(|n| n.is_ascii()).cloned().collect();
                self.c.count("masked_names_compared", want.len().max(got.len()) as u64);
                if let Some(miss) = want.difference(&got).next() {
                    self.viol("agreement-enum", "SFileFindNextFile", label, &format!("masked-search-omits-a-listed-name-the-mask-selects|{}", mask_features(&m)),
                              format!("search with mask {:?} ended after {} name(s) without {:?}, which is in the Rust list and matches the mask", short(&m), got.len(), short(miss)));
                }
            }
            false
        }
    }

    fn do_find_close(&mut self, p: PlanOp, explicit: Option<usize>) {
        let id = explicit.unwrap_or_else(|| self.resolve(p.h, Want::Find));
        let (valid, label, at) = self.classify(id, Want::Find);
        self.begin("SFileFindClose", label);
        let ok = unsafe { SFileFindClose(h(id)) };
        self.end("SFileFindClose", label, format!("(find={id}[{label}])->{ok}"), ok);
        if !valid {
            self.judge_invalid("SFileFindClose", label, ok, true);
            return;
        }
        if !ok {
            self.viol("live-handle-rejected", "SFileFindClose", label, "returned-failure", format!("SFileFindClose failed on live find handle {id}"));
            return;
        }
        self.live_ok += 1;
        self.finds[at.unwrap().1].gone = Gone::Own;
    }

    fn do_enum_all(&mut self, p: PlanOp) {
        if let Some(f) = self.do_find_first(p, true) {
            let mut n = 0;
            while self.do_find_next(p, Some(f)) && n < 5000 {
                n += 1;
            }
            self.do_find_close(p, Some(f));
        }
    }

    // -------------------------------------------------------------- thread-local status ----

    fn do_status(&mut self, p: PlanOp) {
        match p.f {
            F::SetLocale => {
                let v = [0u32, 0x409, 0x407, u32::MAX, p.x[0]][(p.x[1] % 5) as usize];
                self.begin("SFileSetLocale", "no-handle");
                let old = SFileSetLocale(v);
                self.end("SFileSetLocale", "no-handle", format!("({v:#x})->{old:#x}"), true);
                if old != self.locale {
                    self.viol("thread-local-status", "SFileSetLocale", "no-handle", "previous-locale-wrong", format!("SFileSetLocale returned {old:#x}, the locale set before was {:#x}", self.locale));
                }
                self.locale = v;
            }
            F::GetLocale => {
                self.begin("SFileGetLocale", "no-handle");
                let v = SFileGetLocale();
                self.end("SFileGetLocale", "no-handle", format!("()->{v:#x}"), true);
                if v != self.locale {
                    self.viol("thread-local-status", "SFileGetLocale", "no-handle", "locale-wrong", format!("SFileGetLocale = {v:#x}, expected {:#x}", self.locale));
                }
            }
            _ => {
                let v = [0u32, 6, 87, u32::MAX, p.x[0]][(p.x[1] % 5) as usize];
                self.begin("SFileSetLastError", "no-handle");
                SFileSetLastError(v);
                self.end("SFileSetLastError", "no-handle", format!("({v})"), true);
                self.begin("SFileGetLastError", "no-handle");
                let g = SFileGetLastError();
                self.end("SFileGetLastError", "no-handle", format!("()->{g}"), true);
                if g != v {
                    self.viol("thread-local-status", "SFileGetLastError", "no-handle", "not-the-value-set", format!("SFileGetLastError = {g} right after SFileSetLastError({v})"));
                }
            }
        }
        self.c.count("status_values_compared", 1);
    }
}

// ------------------------------------------------------------------ extract / verify / modification ----

impl<'a> St<'a> {
    fn do_extract(&mut self, p: PlanOp) {
        let id = self.resolve(p.h, Want::Arch);
        let (valid, label, at) = self.classify(id, Want::Arch);
        let ai = at.filter(|_| valid).map(|x| x.1);
        let name = self.name_for(ai, p.x[0]);
        self.fresh += 1;
        let dest = if p.x[1] % 4 == 0 { p2s(&self.dir.join(format!("out/d{}/x.bin", self.fresh))) } else { p2s(&self.dir.join(format!("out_e{}.bin", self.fresh))) };
        let (cn, cd) = (cs(&name), cs(&dest));
        let null = p.x[2] % 31 == 0;
        let null_name = p.x[2] % 31 == 1;
        // every third destination already holds a file (an earlier extraction to the same path): longer, shorter, empty
        if p.x[1] % 3 == 1 && p.x[1] % 4 != 0 {
            let prior = vec![0xD7u8; [0usize, 1, 700, 70_000, 400_000][(p.x[2] % 5) as usize]];
            if std::fs::write(&dest, &prior).is_ok() {
                self.c.count("extractions_over_an_existing_file", 1);
            }
        }
        self.begin("SFileExtractFile", label);
        let ok = unsafe { SFileExtractFile(h(id), if null_name { ptr::null() } else { cn.as_ptr() }, if null { ptr::null() } else { cd.as_ptr() }, 0) };
        self.end("SFileExtractFile", label, format!("(h={id}[{label}],{:?}{}{})->{ok}", short(&name), if null { ",NULLDEST" } else { "" }, if null_name { ",NULLNAME" } else { "" }), ok);
        if !valid {
            self.judge_invalid("SFileExtractFile", label, ok, true);
            return;
        }
        if null || null_name {
            if null_name {
                self.c.count("null_pointer_arguments|SFileExtractFile|name", 1);
            }
            if ok {
                self.viol("invalid-parameter-accepted", "SFileExtractFile", "null-pointer", "returned-success", "SFileExtractFile succeeded with a null name / destination".into());
            }
            return;
        }
        let ai = ai.unwrap();
        let Some(data) = self.rust_read(ai, &name) else { return };
        self.c.count("existence_answers_compared", 1);
        if ok != data.is_ok() {
            self.viol("agreement-exists", "SFileExtractFile", label, if ok { "c=extracted,rust=unreadable" } else { "c=failed,rust=readable" }, format!("SFileExtractFile({name:?}) = {ok}, Rust read_file ok = {}", data.is_ok()));
            return;
        }
        if ok {
            self.live_ok += 1;
            let fuzzy = self.archs[ai].mutable && name.eq_ignore_ascii_case("(attributes)");
            let got = std::fs::read(&dest).unwrap_or_default();
            self.c.count("read_bytes_compared", got.len() as u64);
            if !fuzzy && Ok(&got) != data.as_ref() {
                self.viol("agreement-bytes", "SFileExtractFile", label, "extracted-bytes!=rust-content", format!("extracted file has {} bytes, Rust read_file returned {}", got.len(), data.map(|d| d.len()).unwrap_or(0)));
            }
        }
    }

    fn do_verify_file(&mut self, p: PlanOp) {
        let id = self.resolve(p.h, Want::Arch);
        let (valid, label, at) = self.classify(id, Want::Arch);
        let ai = at.filter(|_| valid).map(|x| x.1);
        let name = self.name_for(ai, p.x[0]);
        let flags = [0u32, 1, 2, 4, 6, 0xFF, 0x10, 7][(p.x[1] % 8) as usize];
        let null = p.x[2] % 31 == 0;
        let cn = cs(&name);
        self.begin("SFileVerifyFile", label);
        let ok = unsafe { SFileVerifyFile(h(id), if null { ptr::null() } else { cn.as_ptr() }, flags) };
        self.end("SFileVerifyFile", label, format!("(h={id}[{label}],{:?},flags={flags:#x}{})->{ok}", short(&name), if null { ",NULLNAME" } else { "" }), ok);
        if !valid {
            self.judge_invalid("SFileVerifyFile", label, ok, true);
            return;
        }
        if null {
            if ok {
                self.viol("invalid-parameter-accepted", "SFileVerifyFile", "null-pointer", "returned-success", "SFileVerifyFile(NULL) succeeded".into());
            }
            return;
        }
        let ai = ai.unwrap();
        // keep the shadow's lazily loaded state in step with what the C side just did
        match &mut self.archs[ai].shadow {
            Shadow::Ro(a) => {
                let _ = trap(|| a.load_attributes());
            }
            Shadow::Mut(m) => {
                let _ = trap(|| m.load_attributes());
            }
            Shadow::Gone => {}
        }
        self.c.count(if ok { "verify_file_true" } else { "verify_file_false" }, 1);
        let (a, b) = (self.rust_exists(ai, &name), self.rust_exists_inner(ai, &name));
        if ok && a == Some(false) && b == Some(false) {
            self.viol("agreement-exists", "SFileVerifyFile", label, "verified-an-absent-file", format!("SFileVerifyFile({name:?}) = true but the Rust API says the file does not exist"));
        }
        if ok {
            self.live_ok += 1;
        }
    }

    fn do_verify_archive(&mut self, p: PlanOp, allow_all_files: bool) {
        let id = self.resolve(p.h, Want::Arch);
        let (valid, label, at) = self.classify(id, Want::Arch);
        let mut flags = [0u32, 0x10, 0x01, 0x06, 0x20, 0x30, 0xFF, 0x20][(p.x[0] % 8) as usize];
        if valid && flags & 0x20 != 0 && !allow_all_files {
            // trigger predicate of the known self-deadlock (ALL_FILES on an archive that lists a regular file):
            // the random partition stays on the other side of it; probe 0 sits on it.
            let ai = at.unwrap().1;
            let regular = self.rust_list(ai, false).and_then(|l| l.ok()).map(|l| l.iter().any(|e| !special(&e.0))).unwrap_or(true);
            if regular {
                flags &= !0x20;
                if flags == 0 {
                    flags = 0x10;
                }
                self.c.count("guard_verify_all_files_on_listed_archive", 1);
            }
        }
        self.begin("SFileVerifyArchive", label);
        let ok = if flags & 0x20 != 0 && valid {
            let r = timed(if self.exact { 12 } else { 6 }, move || unsafe { SFileVerifyArchive(h(id), flags) });
            match r {
                Some(v) => v,
                None => {
                    self.poisoned = true;
                    self.end("SFileVerifyArchive", label, format!("(h={id}[{label}],flags={flags:#x})->NEVER RETURNED"), false);
                    self.viol("no-deadlock", "SFileVerifyArchive", label, "flags&ALL_FILES|call-did-not-return", format!("SFileVerifyArchive(h, {flags:#x}) on an archive that lists at least one regular file did not return within the budget (it holds the ARCHIVES lock and re-enters SFileVerifyFile)"));
                    return;
                }
            }
        } else {
            unsafe { SFileVerifyArchive(h(id), flags) }
        };
        self.end("SFileVerifyArchive", label, format!("(h={id}[{label}],flags={flags:#x})->{ok}"), ok);
        if !valid {
            self.judge_invalid("SFileVerifyArchive", label, ok, true);
            return;
        }
        self.c.count(if ok { "verify_archive_true" } else { "verify_archive_false" }, 1);
        if ok {
            self.live_ok += 1;
        }
        // the verdict on the signature is an answer about the archive: it must be the one the Rust API gives for the same file
        let eff = if flags == 0 { 0x10 } else { flags };
        if eff & 0x10 != 0 {
            let ai = at.unwrap().1;
            let rust = match &mut self.archs[ai].shadow {
                Shadow::Ro(a) => trap(|| a.verify_signature()),
                Shadow::Mut(m) => trap(|| m.verify_signature()),
                Shadow::Gone => return,
            };
            self.c.count("rust_api_calls", 1);
            let Ok(rust) = rust else {
                self.c.count("rust_side_panicked", 1);
                return;
            };
            use wow_mpq::SignatureStatus as S;
            let status = match &rust {
                Ok(s) => format!("{s:?}"),
                Err(_) => "error".to_string(),
            };
            self.c.count(&format!("signature_verdicts_compared|rust={status}"), 1);
            let rejects = matches!(rust, Ok(S::WeakInvalid) | Ok(S::StrongInvalid) | Err(_));
            if rejects && ok {
                self.viol("agreement-verify", "SFileVerifyArchive", label, &format!("c=verified,rust={status}"), format!("SFileVerifyArchive(h, {flags:#x}) = true, but Archive::verify_signature on the same archive says {status}"));
            } else if !rejects && !ok && eff & 0x20 == 0 {
                self.viol("agreement-verify", "SFileVerifyArchive", label, &format!("c=refused,rust={status}"), format!("SFileVerifyArchive(h, {flags:#x}) = false although no file verification was asked for and Archive::verify_signature on the same archive says {status}"));
            }
        }
    }

    fn src_path(&self, k: u32) -> String {
        let n = if self.miri { 3 } else { SRC_LENS.len() as u32 };
        if k % 11 == 10 { p2s(&self.dir.join("no_such_source.dat")) } else { p2s(&self.dir.join(format!("src{}.dat", k % n))) }
    }

    /// Add / Remove / Rename / Flush / Compact: lock-step with the shadow MutableArchive.
    fn do_modify(&mut self, p: PlanOp, allow_full: bool) {
        let id = self.resolve(p.h, Want::Arch);
        let (valid, label, at) = self.classify(id, Want::Arch);
        let ai = at.filter(|_| valid).map(|x| x.1);
        let is_mut = ai.map(|i| self.archs[i].mutable).unwrap_or(false);
        let mut f = p.f;
        if is_mut && matches!(f, F::AddFile | F::AddFileEx) && !allow_full {
            let a = &self.archs[ai.unwrap()];
            if a.slots_used + 3 >= a.slots_cap {
                // trigger predicate of the known non-terminating probe loop (hash table full): stay on the other side
                self.c.count("guard_add_on_nearly_full_hash_table", 1);
                f = F::FlushArchive;
            }
        }
        let src = self.src_path(p.x[1]);
        let name = match p.x[0] % 8 {
            0..=4 => {
                self.fresh += 1;
                format!("add\\n{}.dat", self.fresh)
            }
            5 => self.name_for(ai, (p.x[0] / 8).wrapping_mul(16)),
            6 => long_name(),
            _ => String::new(),
        };
        let name2 = if p.x[2] % 4 == 0 { self.name_for(ai, (p.x[2] / 4).wrapping_mul(16)) } else { format!("ren\\r{}.dat", p.x[2] % 1000) };
        let existing = self.name_for(ai, (p.x[0] / 8).wrapping_mul(16).wrapping_add((p.x[0] % 11).min(8)));
        // flags: none, ENCRYPTED, ENCRYPTED|FIX_KEY, REPLACEEXISTING (+ENCRYPTED), FIX_KEY alone, REPLACEEXISTING|FIX_KEY
        let flags = [0u32, 0, 0x0001_0000, 0x0003_0000, 0x8000_0000, 0x8001_0000, 0x0002_0000, 0x8002_0000][(p.x[3] % 8) as usize];
        // compression: none, zlib, bzip2, LZMA, sparse, an undefined mask, and the two ADPCM codecs (lossy: the reference is the
        // Rust API adding the same source with the same codec, never the source bytes)
        let comp = [0u32, 0x02, 0x10, 0x12, 0x20, 0xFF, 0, 0x02, 0x40, 0x80][((p.x[3] >> 8 & 0xFF) % 10) as usize];
        let null = p.x[3] >> 16 & 63 == 0;
        // the other string of the call (source path of an add, old name of a rename) as a null pointer
        let null_first = p.x[3] >> 22 & 31 == 5;
        let (csrc, cname, cname2, cex) = (cs(&src), cs(&name), cs(&name2), cs(&existing));
        let np = |c: &CString| if null { ptr::null() } else { c.as_ptr() };
        let np1 = |c: &CString| if null_first { ptr::null() } else { c.as_ptr() };
        let (func, ok, text): (&'static str, bool, String);
        match f {
            F::AddFileEx => {
                func = "SFileAddFileEx";
                self.begin(func, label);
                ok = unsafe { SFileAddFileEx(h(id), np1(&csrc), np(&cname), flags, comp, 0) };
                text = format!("(h={id}[{label}],src={:?},{:?},flags={flags:#x},comp={comp:#x}{}{})->{ok}", src.rsplit('/').next().unwrap_or(""), short(&name), if null { ",NULLNAME" } else { "" }, if null_first { ",NULLSRC" } else { "" });
            }
            F::AddFile => {
                func = "SFileAddFile";
                self.begin(func, label);
                ok = unsafe { SFileAddFile(h(id), np1(&csrc), np(&cname), flags) };
                text = format!("(h={id}[{label}],src={:?},{:?},flags={flags:#x}{}{})->{ok}", src.rsplit('/').next().unwrap_or(""), short(&name), if null { ",NULLNAME" } else { "" }, if null_first { ",NULLSRC" } else { "" });
            }
            F::RemoveFile => {
                func = "SFileRemoveFile";
                self.begin(func, label);
                ok = unsafe { SFileRemoveFile(h(id), np(&cex), 0) };
                text = format!("(h={id}[{label}],{:?}{})->{ok}", short(&existing), if null { ",NULLNAME" } else { "" });
            }
            F::RenameFile => {
                func = "SFileRenameFile";
                self.begin(func, label);
                ok = unsafe { SFileRenameFile(h(id), np1(&cex), np(&cname2)) };
                text = format!("(h={id}[{label}],{:?}->{:?}{}{})->{ok}", short(&existing), short(&name2), if null { ",NULLNAME" } else { "" }, if null_first { ",NULLOLDNAME" } else { "" });
            }
            F::CompactArchive => {
                func = "SFileCompactArchive";
                self.begin(func, label);
                ok = unsafe { SFileCompactArchive(h(id), ptr::null(), false) };
                text = format!("(h={id}[{label}])->{ok}");
            }
            _ => {
                func = "SFileFlushArchive";
                self.begin(func, label);
                ok = unsafe { SFileFlushArchive(h(id)) };
                text = format!("(h={id}[{label}])->{ok}");
            }
        }
        self.end(func, label, text, ok);
        if !valid {
            self.judge_invalid(func, label, ok, true);
            return;
        }
        let takes_name = !matches!(f, F::CompactArchive | F::FlushArchive) && f != F::FlushArchive;
        let takes_two = matches!(f, F::AddFileEx | F::AddFile | F::RenameFile);
        if (null && takes_name) || (null_first && takes_two) {
            if null_first && takes_two {
                self.c.count(&format!("null_pointer_arguments|{func}|{}", if f == F::RenameFile { "old-name" } else { "source-path" }), 1);
            }
            if ok {
                self.viol("invalid-parameter-accepted", func, "null-pointer", "returned-success", format!("{func} succeeded with a null string argument"));
            }
            return;
        }
        let ai = ai.unwrap();
        if !is_mut {
            if ok && func != "SFileFlushArchive" {
                self.viol("agreement-modify", func, label, "c=success-on-readonly-archive", format!("{func} reported success on a read-only archive handle"));
            }
            return;
        }
        let Shadow::Mut(m) = &mut self.archs[ai].shadow else { return };
        self.c.count("rust_api_calls", 1);
        let rust = match f {
            F::AddFileEx => trap(|| m.add_file(&src, &name, add_opts(flags, comp)).map_err(|e| e.to_string())),
            F::AddFile => trap(|| m.add_file(&src, &name, add_opts(flags, 0x02)).map_err(|e| e.to_string())),
            F::RemoveFile => trap(|| m.remove_file(&existing).map_err(|e| e.to_string())),
            F::RenameFile => trap(|| m.rename_file(&existing, &name2).map_err(|e| e.to_string())),
            F::CompactArchive => trap(|| m.compact().map_err(|e| e.to_string())),
            _ => trap(|| m.flush().map_err(|e| e.to_string())),
        };
        let Ok(rust) = rust else {
            self.c.count("rust_side_panicked", 1);
            return;
        };
        self.c.count("modify_outcomes_compared", 1);
        if matches!(f, F::AddFileEx | F::AddFile) {
            if f == F::AddFileEx && (comp == 0x40 || comp == 0x80) {
                self.c.count(if ok { "adds_with_adpcm_compression_accepted" } else { "adds_with_adpcm_compression_refused" }, 1);
            }
            if flags & 0x0003_0000 == 0x0002_0000 {
                self.c.count(if ok { "adds_with_fix_key_alone_accepted" } else { "adds_with_fix_key_alone_refused" }, 1);
            }
        }
        if ok != rust.is_ok() {
            self.viol("agreement-modify", func, label, if ok { "c=success,rust=error" } else { "c=failure,rust=ok" }, format!("{func} = {ok} but the same operation through MutableArchive on an identical copy gave {rust:?}"));
            return;
        }
        if ok {
            self.live_ok += 1;
            let a = &mut self.archs[ai];
            match f {
                F::AddFile | F::AddFileEx => {
                    a.slots_used += 1;
                    if !a.names.contains(&name) {
                        a.names.push(name);
                    }
                }
                F::RemoveFile => {
                    a.names.retain(|n| !n.eq_ignore_ascii_case(&existing.replace('/', "\\")));
                    a.ghosts.push(existing.clone());
                }
                F::RenameFile => {
                    a.names.retain(|n| !n.eq_ignore_ascii_case(&existing.replace('/', "\\")));
                    a.ghosts.push(existing.clone());
                    a.names.push(name2);
                }
                F::CompactArchive => {
                    if let Shadow::Mut(m) = &a.shadow {
                        a.slots_cap = m.archive().header().hash_table_size;
                        a.slots_used = a.names.len() as u32 + 2;
                    }
                }
                _ => {}
            }
        }
    }
}

// ------------------------------------------------------------------ interpreter ----

impl<'a> St<'a> {
    fn exec(&mut self, p: PlanOp) {
        match p.f {
            F::OpenArchive => self.do_open_archive(p),
            F::CreateArchive => self.do_create_archive(p),
            F::CreateArchive2 => self.do_create_archive2(p),
            F::CloseArchive => self.do_close_archive(p),
            F::OpenFileEx => self.do_open_file(p),
            F::CloseFile => self.do_close_file(p),
            F::ReadFile => self.do_read(p),
            F::GetFileSize => {
                let id = self.resolve(p.h, Want::File);
                self.probe_size(id)
            }
            F::SetFilePointer => self.do_seek(p),
            F::HasFile => self.do_has_file(p),
            F::GetFileInfo => self.do_get_info(p),
            F::GetArchiveName => self.do_archive_name(p),
            F::EnumFiles => self.do_enum_files(p),
            F::SetLocale | F::GetLocale | F::GetLastError | F::SetLastError => self.do_status(p),
            F::GetFileName => self.do_file_name(p),
            F::ExtractFile => self.do_extract(p),
            F::VerifyFile => self.do_verify_file(p),
            F::VerifyArchive => self.do_verify_archive(p, false),
            F::AddFileEx | F::AddFile | F::RemoveFile | F::RenameFile | F::FlushArchive | F::CompactArchive => self.do_modify(p, false),
            F::FindFirstFile => {
                self.do_find_first(p, false);
            }
            F::FindNextFile => {
                self.do_find_next(p, None);
            }
            F::FindClose => self.do_find_close(p, None),
            F::EnumAll => self.do_enum_all(p),
        }
    }

    /// End of history: everything still live must still work and close; afterwards no id issued in this
    /// history may be accepted by any table.
    fn sweep(&mut self) {
        if self.poisoned {
            return;
        }
        let live_files: Vec<usize> = self.files.iter().filter(|f| f.gone == Gone::No).map(|f| f.id).collect();
        for id in live_files.iter().take(12) {
            self.probe_size(*id);
        }
        // close archives first so that their files and searches become orphans, then probe every id
        let live_archs: Vec<usize> = self.archs.iter().filter(|a| a.gone == Gone::No).map(|a| a.id).collect();
        for _ in live_archs.iter() {
            self.do_close_archive(op(F::CloseArchive, HSel::Live(0), [0; 4]));
        }
        let mut ids: Vec<(usize, Kind)> = self.issued.iter().map(|(k, v)| (*k, v.0)).collect();
        ids.sort_by_key(|x| x.0);
        for (id, k) in ids.into_iter().rev().take(40) {
            match k {
                Kind::File => {
                    self.probe_size(id);
                    if self.classify(id, Want::File).1 == "file-of-closed-archive" {
                        let b = self.buf(8);
                        self.begin("SFileReadFile", "file-of-closed-archive");
                        let ok = unsafe { SFileReadFile(h(id), b.ptr() as *mut c_void, 8, ptr::null_mut(), ptr::null_mut()) };
                        self.end("SFileReadFile", "file-of-closed-archive", format!("(f={id},n=8)->{ok}"), ok);
                        self.check_canary("SFileReadFile", "file-of-closed-archive", "data", &b);
                        self.judge_invalid("SFileReadFile", "file-of-closed-archive", ok, true);
                    }
                }
                Kind::Find => {
                    self.do_find_next(op(F::FindNextFile, HSel::Null, [0; 4]), Some(id));
                    self.do_find_close(op(F::FindClose, HSel::Null, [0; 4]), Some(id));
                }
                Kind::Arch => {
                    let (_, label, _) = self.classify(id, Want::Arch);
                    let cn = cs("(listfile)");
                    self.begin("SFileHasFile", label);
                    let ok = unsafe { SFileHasFile(h(id), cn.as_ptr()) };
                    self.end("SFileHasFile", label, format!("(h={id}[{label}],\"(listfile)\")->{ok}"), ok);
                    self.judge_invalid("SFileHasFile", label, ok, false);
                }
            }
        }
    }
}

fn run_history(c: &mut Case, idx: u64, plan: &[PlanOp], exact: bool, miri: bool, fixtures: &std::path::Path, scratch: &str) -> bool {
    let dir = PathBuf::from(scratch).join(format!("case{idx}"));
    let _ = std::fs::remove_dir_all(&dir);
    let copied = if miri {
        std::fs::create_dir_all(&dir).map_err(|e| e.to_string()).and_then(|_| {
            for f in [FX_D, FX_E, "src0.dat", "src1.dat", "src2.dat", "not_an_archive.txt", "zero_len.mpq", "noise.bin"] {
                let d = std::fs::read(fixtures.join(f)).map_err(|e| e.to_string())?;
                std::fs::write(dir.join(f), d).map_err(|e| e.to_string())?;
            }
            Ok(())
        })
    } else {
        copy_dir(fixtures, &dir)
    };
    if let Err(e) = copied {
        c.inconclusive(format!("fixture copy failed: {e}"));
        return false;
    }
    let mut st = St::new(c, idx, exact, miri, dir.clone());
    for p in plan {
        st.exec(*p);
        if st.poisoned {
            break;
        }
    }
    st.sweep();
    if std::env::var_os("C19_TRACE").is_some() {
        for t in &st.trace {
            eprintln!("C19-TRACE {t}");
        }
    }
    let (live_ok, invalid, poisoned, n) = (st.live_ok, st.invalid_calls, st.poisoned, st.trace.len());
    drop(st);
    c.count("calls", n as u64);
    c.count("histories", 1);
    c.nontrivial = live_ok >= 3 && invalid >= 1;
    if !poisoned {
        let _ = std::fs::remove_dir_all(&dir);
    }
    poisoned
}

// ------------------------------------------------------------------ scripted probes ----

const NPROBE: u64 = 21;

fn probe_plan(k: u64) -> (&'static str, Vec<PlanOp>) {
    let z = [0u32; 4];
    let open_a = op(F::OpenArchive, HSel::Null, [0, 1, 0, 0]);
    let open_b = op(F::OpenArchive, HSel::Null, [1, 1, 0, 0]);
    let mk_mut = op(F::CreateArchive2, HSel::Null, [0, 0, 1, 0]);
    match k {
        2 => ("find-after-archive-close", vec![open_a, op(F::FindFirstFile, HSel::Live(0), [1, 1, 0, 0]), op(F::CloseArchive, HSel::Live(0), z), op(F::FindNextFile, HSel::Orphan(0), [0, 1, 0, 0]), op(F::FindClose, HSel::Orphan(0), z)]),
        3 => ("hasfile-after-add-on-mutable", vec![mk_mut, op(F::AddFileEx, HSel::Live(0), [0, 2, 1, 0x0001_0604]), op(F::HasFile, HSel::Live(0), [0, 1, 0, 0]), op(F::OpenFileEx, HSel::Live(0), [0, 1, 0, 0]), op(F::ReadFile, HSel::Live(0), [7, 1, 0, 0]), op(F::GetFileSize, HSel::Live(0), z)]),
        5 => (
            "close-exactness",
            vec![
                open_a,
                open_b,
                op(F::OpenFileEx, HSel::Live(0), [2, 1, 0, 0]),
                op(F::OpenFileEx, HSel::Live(1), [0, 1, 0, 0]),
                op(F::OpenFileEx, HSel::Live(0), [6, 1, 0, 0]),
                op(F::OpenFileEx, HSel::Live(1), [1, 1, 0, 0]),
                op(F::FindFirstFile, HSel::Live(0), [1, 1, 0, 0]),
                op(F::FindFirstFile, HSel::Live(1), [1, 1, 0, 0]),
                op(F::ReadFile, HSel::Live(1), [3, 1, 0, 0]),
                op(F::CloseArchive, HSel::Live(0), z),
                op(F::ReadFile, HSel::Live(0), [5, 1, 0, 0]),
                op(F::ReadFile, HSel::Live(1), [5, 1, 0, 0]),
                op(F::ReadFile, HSel::Orphan(0), [5, 1, 0, 0]),
                op(F::SetFilePointer, HSel::Orphan(1), [0, 0, 0, 0]),
                op(F::GetFileName, HSel::Orphan(0), [1, 0, 0, 0]),
                op(F::GetFileInfo, HSel::Orphan(1), [0, 0, 1, 0]),
                op(F::CloseFile, HSel::Orphan(0), z),
                op(F::FindNextFile, HSel::Live(0), [0, 1, 0, 0]),
                op(F::EnumAll, HSel::Live(0), z),
            ],
        ),
        6 => {
            let mut v = vec![open_a, op(F::OpenFileEx, HSel::Live(0), [5, 1, 0, 0])]; // 4097 bytes
            for n in [0u32, 1, 3, 7, 9, 4, 5, 6, 12, 13] {
                v.push(op(F::ReadFile, HSel::Live(0), [n, 1, 0, 0]));
                v.push(op(F::SetFilePointer, HSel::Live(0), [n + 3, n, n, 0]));
                v.push(op(F::GetFileInfo, HSel::Live(0), [1, 0, 1, 0]));
            }
            ("read-seek-boundaries", v)
        }
        7 => {
            let mut v = vec![open_a];
            for s in 0..8 {
                v.push(op(F::GetArchiveName, HSel::Live(0), [s, 0, 0, 0]));
            }
            ("archive-name-buffer-sizes", v)
        }
        8 => {
            let mut v = vec![open_b, op(F::OpenFileEx, HSel::Live(0), [1, 1, 0, 0])];
            for class in 0..8 {
                for size in 0..8 {
                    v.push(op(F::GetFileInfo, HSel::Live(if matches!(class, 0 | 1 | 6) { 1 } else { 0 }), [class, size, size + class, 0]));
                }
            }
            ("file-info-classes-x-buffer-sizes", v)
        }
        9 => {
            let mut v = vec![open_a, op(F::OpenFileEx, HSel::Live(0), [1, 1, 0, 0]), op(F::FindFirstFile, HSel::Live(0), [1, 1, 0, 0])];
            for f in WEIGHTS.iter().map(|w| w.0) {
                if matches!(f, F::OpenArchive | F::CreateArchive | F::CreateArchive2 | F::SetLocale | F::GetLocale | F::GetLastError | F::SetLastError | F::EnumAll) {
                    continue;
                }
                for hs in [HSel::Null, HSel::One, HSel::Max, HSel::Future, HSel::Other(0), HSel::Other(1)] {
                    v.push(op(f, hs, [1, 1, 1, 1]));
                }
            }
            ("every-function-x-forged-handles", v)
        }
        10 => ("enumerate-every-fixture", (0..NFIX).flat_map(|i| vec![op(F::OpenArchive, HSel::Null, [i, 1, 0, 0]), op(F::EnumAll, HSel::Live(i), z), op(F::EnumFiles, HSel::Live(i), [1, 2, 0, 0]), op(F::EnumFiles, HSel::Live(i), [0, 1, 0, 0])]).collect()),
        11 => ("long-name-through-every-name-buffer", vec![open_a, op(F::OpenFileEx, HSel::Live(0), [8, 1, 0, 0]), op(F::GetFileName, HSel::Live(0), [1, 0, 0, 0]), op(F::ReadFile, HSel::Live(0), [6, 1, 0, 0]), op(F::HasFile, HSel::Live(0), [13, 1, 0, 0]), op(F::FindFirstFile, HSel::Live(0), [22, 1, 0, 0]), op(F::EnumAll, HSel::Live(0), z)]),
        13 => ("hasfile-after-compact-and-remove-on-mutable", vec![mk_mut, op(F::AddFileEx, HSel::Live(0), [0, 2, 1, 0x0001_0604]), op(F::CompactArchive, HSel::Live(0), z), op(F::HasFile, HSel::Live(0), [0, 1, 0, 0]), op(F::RemoveFile, HSel::Live(0), [0, 0, 1, 0x0001_0000]), op(F::HasFile, HSel::Live(0), [11, 1, 0, 0]), op(F::OpenFileEx, HSel::Live(0), [11, 2, 1, 0])]),
        14 => {
            // every fixture x every listed name x every mask shape x every position of the name (front positions 0..=24 and
            // the last six), each as FindFirst + FindNext to exhaustion + FindClose, judged against the glob model
            let mut v: Vec<PlanOp> = (0..NFIX).map(|i| op(F::OpenArchive, HSel::Null, [i, 1, 0, 0])).collect();
            for (i, fx) in fixture_table().iter().enumerate().filter(|(_, fx)| fx.names.iter().all(|n| n.is_ascii())) {
                for j in 0..fx.names.len() as u32 {
                    for kind in 0..MASK_KINDS {
                        for ps in 0..31 {
                            v.push(op(F::EnumAll, HSel::Live(i as u32), [0, 0, 1 | (j << 1), mask_sel(kind, ps, j + ps)]));
                        }
                    }
                }
            }
            ("masked-search-shapes", v)
        }
        15 | 16 => {
            // a file handle stays open while the file behind its name is replaced (15) / removed and added again under a new
            // name that is then renamed onto the old one (16); handles opened afterwards deliver what the archive holds now,
            // the older handle keeps what it was opened with (after C19-r6m1)
            let add = |namesel: u32, src: u32| op(F::AddFileEx, HSel::Live(0), [namesel, src, 1, 0x0001_0604]);
            let mut v = vec![mk_mut, add(0, 2), op(F::OpenFileEx, HSel::Live(0), [0, 1, 0, 0]), op(F::ReadFile, HSel::Live(0), [3, 1, 0, 0])];
            if k == 15 {
                v.push(add(5, 4));
            } else {
                v.push(add(1, 5));
                v.push(op(F::RemoveFile, HSel::Live(0), [0, 0, 1, 0x0001_0000]));
                v.push(op(F::RenameFile, HSel::Live(0), [0, 0, 3 + 4 * 997, 0x0001_0000]));
            }
            for _ in 0..2 {
                v.push(op(F::OpenFileEx, HSel::Live(0), [0, 1, 0, 0]));
                v.push(op(F::GetFileSize, HSel::Live(1), z));
                v.push(op(F::ReadFile, HSel::Live(1), [5, 1, 0, 0]));
                v.push(op(F::ReadFile, HSel::Live(0), [5, 1, 0, 0]));
                v.push(op(F::GetFileInfo, HSel::Live(1), [1, 0, 1, 0]));
                v.push(op(F::FlushArchive, HSel::Live(0), z));
            }
            (if k == 15 { "reopen-after-replace-with-older-handle-open" } else { "reopen-after-remove-add-rename-with-older-handle-open" }, v)
        }
        18 => (
            // handles are taken, every archive is closed, something new is opened, and only then the stale handles are used
            // (after C19-r8m3)
            "stale-handles-after-every-archive-was-closed",
            vec![
                open_a,
                op(F::OpenFileEx, HSel::Live(0), [2, 1, 0, 0]),
                op(F::FindFirstFile, HSel::Live(0), [1, 1, 0, 0]),
                op(F::CloseFile, HSel::Live(0), z),
                op(F::OpenFileEx, HSel::Live(0), [0, 1, 0, 0]),
                op(F::CloseArchive, HSel::Live(0), z),
                open_b,
                op(F::OpenFileEx, HSel::Live(0), [1, 1, 0, 0]),
                op(F::FindFirstFile, HSel::Live(0), [1, 1, 0, 0]),
                op(F::OpenFileEx, HSel::Live(0), [0, 1, 0, 0]),
                op(F::ReadFile, HSel::Orphan(0), [5, 1, 0, 0]),
                op(F::ReadFile, HSel::Closed(0), [5, 1, 0, 0]),
                op(F::GetFileSize, HSel::Orphan(0), z),
                op(F::FindNextFile, HSel::Orphan(0), [0, 1, 0, 0]),
                op(F::HasFile, HSel::Closed(0), [0, 1, 0, 0]),
                op(F::CloseFile, HSel::Orphan(0), z),
                op(F::FindClose, HSel::Orphan(0), z),
                op(F::CloseArchive, HSel::Closed(0), z),
                op(F::ReadFile, HSel::Live(0), [5, 1, 0, 0]),
                op(F::ReadFile, HSel::Live(1), [5, 1, 0, 0]),
                op(F::FindNextFile, HSel::Live(0), [0, 1, 0, 0]),
                op(F::EnumAll, HSel::Live(0), z),
            ],
        ),
        19 => {
            // members stored encrypted (plain key and adjusted key, compressed and raw) are opened, sized, read to the end, verified and
            // extracted through handles of SFileOpenArchive; a weakly signed archive and the same archive changed after signing go
            // through SFileVerifyArchive with and without the signature flag
            let mut v = vec![op(F::OpenArchive, HSel::Null, [8, 1, 0, 0]), op(F::OpenArchive, HSel::Null, [9, 1, 0, 0]), op(F::OpenArchive, HSel::Null, [10, 1, 0, 0])];
            for a in 0..3u32 {
                for fl in [1u32, 0, 6, 2, 3] {
                    v.push(op(F::VerifyArchive, HSel::Live(a), [fl, 0, 0, 0]));
                }
                v.push(op(F::EnumAll, HSel::Live(a), z));
            }
            let mut nfile = 0u32;
            for (a, n) in [(0u32, 5u32), (1, 3), (2, 3)] {
                for k in 0..n {
                    v.push(op(F::OpenFileEx, HSel::Live(a), [k, 1, 0, 0]));
                    v.push(op(F::GetFileSize, HSel::Live(nfile), z));
                    v.push(op(F::ReadFile, HSel::Live(nfile), [2, 2, 0, 0]));
                    v.push(op(F::ReadFile, HSel::Live(nfile), [9, 2, 0, 0]));
                    v.push(op(F::ReadFile, HSel::Live(nfile), [3, 2, 0, 0]));
                    v.push(op(F::GetFileInfo, HSel::Live(3 + nfile), [0, 0, 1, 0]));
                    for fl in [0u32, 1, 4, 5] {
                        v.push(op(F::VerifyFile, HSel::Live(a), [16 * k, fl, 1, 0]));
                    }
                    v.push(op(F::ExtractFile, HSel::Live(a), [16 * k, 1, 2, 0]));
                    nfile += 1;
                }
            }
            ("encrypted-members-and-signed-archives", v)
        }
        20 => (
            // each string / buffer / out-handle pointer of the modifying, extracting, naming and creating calls as NULL, on live handles
            "null-pointer-arguments-on-live-handles",
            vec![
                mk_mut,
                open_a,
                op(F::AddFileEx, HSel::Live(0), [0, 2, 1, 0x0001_0604]),
                op(F::AddFileEx, HSel::Live(0), [0, 2, 1, 0x0001_0604 | 5 << 22]),
                op(F::AddFile, HSel::Live(0), [0, 2, 1, 0x0001_0604 | 5 << 22]),
                op(F::AddFileEx, HSel::Live(0), [0, 2, 1, 0x0000_0604]),
                op(F::RenameFile, HSel::Live(0), [0, 0, 3 + 4 * 991, 0x0001_0000 | 5 << 22]),
                op(F::RenameFile, HSel::Live(0), [0, 0, 3 + 4 * 991, 0]),
                op(F::RemoveFile, HSel::Live(0), [0, 0, 1, 0]),
                op(F::ExtractFile, HSel::Live(0), [0, 1, 1, 0]),
                op(F::ExtractFile, HSel::Live(1), [0, 1, 1, 0]),
                op(F::ExtractFile, HSel::Live(1), [0, 1, 0, 0]),
                op(F::GetArchiveName, HSel::Live(0), [0, 5, 0, 0]),
                op(F::GetArchiveName, HSel::Live(1), [1, 5, 0, 0]),
                op(F::GetArchiveName, HSel::Live(1), [3, 5, 0, 0]),
                op(F::CreateArchive, HSel::Null, [0, 2, 0, 0]),
                op(F::CreateArchive, HSel::Null, [0, 2, 0, 1]),
                op(F::CreateArchive2, HSel::Null, [0, 1, 0, 76]),
                op(F::CreateArchive2, HSel::Null, [0, 1, 0, 44]),
                op(F::HasFile, HSel::Live(0), [0, 1, 0, 0]),
                op(F::OpenFileEx, HSel::Live(0), [0, 1, 0, 0]),
                op(F::ReadFile, HSel::Live(0), [9, 2, 0, 0]),
                op(F::EnumAll, HSel::Live(0), z),
            ],
        ),
        _ => ("special", vec![]),
    }
}

/// Probes that sit on the trigger predicates of calls that never return / abort (kept out of the random histories).
fn special_probe(c: &mut Case, k: u64, idx: u64, exact: bool, fixtures: &std::path::Path, scratch: &str) -> bool {
    let dir = PathBuf::from(scratch).join(format!("case{idx}"));
    let _ = std::fs::remove_dir_all(&dir);
    if let Err(e) = copy_dir(fixtures, &dir) {
        c.inconclusive(format!("fixture copy failed: {e}"));
        return false;
    }
    let mut st = St::new(c, idx, exact, false, dir.clone());
    match k {
        0 => {
            st.do_open_archive(op(F::OpenArchive, HSel::Null, [0, 1, 0, 0]));
            st.do_verify_archive(op(F::VerifyArchive, HSel::Live(0), [4, 0, 0, 0]), true);
            if !st.poisoned {
                st.do_verify_archive(op(F::VerifyArchive, HSel::Live(0), [6, 0, 0, 0]), true);
            }
        }
        1 => {
            // fill the hash table of a freshly created archive through the C API
            st.do_create_archive2(op(F::CreateArchive2, HSel::Null, [0, 0, 1, 0]));
            let Some(a) = st.archs.first() else {
                st.c.inconclusive("could not create the archive");
                return false;
            };
            let (id, cap) = (a.id, a.slots_cap);
            for n in 0..cap + 2 {
                let src = cs(&st.src_path(2));
                let name = cs(&format!("fill\\f{n}.dat"));
                st.begin("SFileAddFileEx", "live-mutable-archive");
                let r = timed(if exact { 12 } else { 6 }, move || unsafe { SFileAddFileEx(h(id), src.as_ptr(), name.as_ptr(), 0, 0, 0) });
                st.end("SFileAddFileEx", "live-mutable-archive", format!("(h={id},fill\\f{n}.dat)->{r:?} [hash table size {cap}]"), r == Some(true));
                match r {
                    None => {
                        st.poisoned = true;
                        st.viol("no-deadlock", "SFileAddFileEx", "live-mutable-archive", "hash-table-full|call-did-not-return", format!("add number {} into a {cap}-slot hash table did not return within the budget (probe loop finds no free slot)", n + 1));
                        break;
                    }
                    Some(false) => {
                        st.c.count("adds_refused_when_full", 1);
                        break;
                    }
                    Some(true) => st.c.count("adds_until_full", 1),
                }
            }
        }
        17 => {
            // a mutable archive with flushed members, open file and search handles and one unflushed addition is closed while
            // no write can succeed (after C19-r6m2): however the close answers, the archive's file and search handles
            // live exactly as long as the archive handle does
            let z = [0u32; 4];
            st.do_create_archive2(op(F::CreateArchive2, HSel::Null, [0, 0, 1, 0]));
            if st.archs.is_empty() {
                st.c.inconclusive("could not create the archive");
                return false;
            }
            st.do_modify(op(F::AddFileEx, HSel::Live(0), [0, 3, 1, 0x0001_0604]), false);
            st.do_modify(op(F::AddFileEx, HSel::Live(0), [0, 2, 1, 0x0001_0604]), false);
            st.do_modify(op(F::FlushArchive, HSel::Live(0), z), false);
            st.do_open_file(op(F::OpenFileEx, HSel::Live(0), [0, 1, 0, 0]));
            st.do_open_file(op(F::OpenFileEx, HSel::Live(0), [1, 1, 0, 0]));
            st.do_find_first(op(F::FindFirstFile, HSel::Live(0), [1, 1, 0, 0]), false);
            st.do_read(op(F::ReadFile, HSel::Live(0), [3, 1, 0, 0]));
            st.do_modify(op(F::AddFileEx, HSel::Live(0), [0, 4, 1, 0x0001_0604]), false);
            st.fault_close = true;
            st.do_close_archive(op(F::CloseArchive, HSel::Live(0), z));
            st.fault_close = false;
            st.c.count("closes_under_write_failure", 1);
        }
        3 => {
            // a directory where an archive file name is expected (Archive::open scans for a header up to the
            // "size" lseek reports for the directory, one failing read per 512 bytes)
            let path = p2s(&dir);
            let cp = cs(&path);
            st.begin("SFileOpenArchive", "path");
            let r = timed(if exact { 12 } else { 6 }, move || {
                let mut hh: HANDLE = ptr::null_mut();
                let ok = unsafe { SFileOpenArchive(cp.as_ptr(), 0, 0, &mut hh) };
                (ok, hh as usize)
            });
            st.end("SFileOpenArchive", "path", format!("(<a directory>)->{r:?}"), matches!(r, Some((true, _))));
            match r {
                None => {
                    st.poisoned = true;
                    st.viol("no-deadlock", "SFileOpenArchive", "path-is-a-directory", "call-did-not-return", "SFileOpenArchive on a directory path did not return within the budget (header scan loops over the size lseek reports for the directory)".into());
                }
                Some((true, _)) => st.viol("agreement-open", "SFileOpenArchive", "path-is-a-directory", "returned-success", "SFileOpenArchive opened a directory".into()),
                Some((false, _)) => st.c.count("open_directory_refused", 1),
            }
        }
        _ => {
            // PKWare-compressed member added through the C API, archive re-opened, member opened
            std::fs::write(dir.join("compressible.dat"), vec![b'A'; 6000]).ok();
            st.do_create_archive2(op(F::CreateArchive2, HSel::Null, [0, 0, 1, 0]));
            if let Some(a) = st.archs.first() {
                let (id, path) = (a.id, a.path.clone());
                let (src, name) = (cs(&p2s(&dir.join("compressible.dat"))), cs("pk\\ware.dat"));
                st.begin("SFileAddFileEx", "live-mutable-archive");
                let ok = unsafe { SFileAddFileEx(h(id), src.as_ptr(), name.as_ptr(), 0, 0x08, 0) };
                st.end("SFileAddFileEx", "live-mutable-archive", format!("(h={id},compressible.dat,pk\\ware.dat,comp=0x08)->{ok}"), ok);
                st.do_close_archive(op(F::CloseArchive, HSel::Live(0), [0; 4]));
                let cp = cs(&path);
                let mut h2: HANDLE = ptr::null_mut();
                st.begin("SFileOpenArchive", "path");
                let ok2 = unsafe { SFileOpenArchive(cp.as_ptr(), 0, 0, &mut h2) };
                st.end("SFileOpenArchive", "path", format!("({path:?})->{ok2}"), ok2);
                if ok && ok2 {
                    let mut fh: HANDLE = ptr::null_mut();
                    st.begin("SFileOpenFileEx", "live-readonly-archive");
                    let ok3 = unsafe { SFileOpenFileEx(h2, name.as_ptr(), 0, &mut fh) };
                    st.end("SFileOpenFileEx", "live-readonly-archive", format!("(pk\\ware.dat)->{ok3}"), ok3);
                    st.c.count(if ok3 { "pkware_member_opened" } else { "pkware_member_refused" }, 1);
                    let rust = trap(|| Archive::open(&path).and_then(|mut a| a.read_file("pk\\ware.dat")));
                    if let Ok(rust) = rust {
                        if ok3 != rust.is_ok() {
                            st.viol("agreement-exists", "SFileOpenFileEx", "live-readonly-archive", "pkware-member|c!=rust", format!("SFileOpenFileEx = {ok3}, Rust read_file ok = {}", rust.is_ok()));
                        }
                        if ok3 {
                            let b = st.buf(8192);
                            let mut got = 0u32;
                            st.begin("SFileReadFile", "live-file");
                            let okr = unsafe { SFileReadFile(fh, b.ptr() as *mut c_void, 8192, &mut got, ptr::null_mut()) };
                            st.end("SFileReadFile", "live-file", format!("(n=8192)->{okr},read={got}"), okr);
                            st.check_canary("SFileReadFile", "live-file", "data", &b);
                            if let Ok(d) = rust {
                                if !okr || got as usize != d.len() || b.bytes()[..d.len().min(8192)] != d[..] {
                                    st.viol("agreement-bytes", "SFileReadFile", "live-file", "pkware-member|bytes!=rust-content", format!("C API read {got} bytes, Rust API {}", d.len()));
                                }
                            }
                        }
                    }
                    if ok3 {
                        SFileCloseFile(fh);
                    }
                }
                if ok2 {
                    SFileCloseArchive(h2);
                }
            }
        }
    }
    st.sweep(); // (does nothing when a call never returned)
    let (poisoned, n) = (st.poisoned, st.trace.len());
    drop(st);
    c.count("calls", n as u64);
    c.count("probes", 1);
    poisoned
}

// ------------------------------------------------------------------ main ----

fn main() {
    let mut run = Run::new();
    // breadcrumbs for the supervisor: which call was in flight when the process died
    let prev = std::panic::take_hook();
    std::panic::set_hook(Box::new(move |info| {
        if let Some((f, l)) = IN_FFI.with(|x| x.get()) {
            let loc = info.location().map(|l| l.file().to_string()).unwrap_or_default();
            let rel = match loc.find("/registry/src/") {
                Some(p) => loc[p + 14..].split_once('/').map(|x| x.1.to_string()).unwrap_or_default(),
                None => loc.rsplit("/file-formats/").next().unwrap_or(&loc).rsplit("/ffi/").next().unwrap_or(&loc).to_string(),
            };
            let msg = info.payload().downcast_ref::<&str>().map(|s| s.to_string()).or_else(|| info.payload().downcast_ref::<String>().cloned()).unwrap_or_default();
            if msg.starts_with("panic in a function that cannot unwind") {
                return prev(info);
            }
            let norm = norm_msg(&msg);
            eprintln!("C19-PANIC fn={f} handle={l} at={rel} msg={norm}");
        }
        prev(info)
    }));
    if let Err(e) = glob_selftest() {
        eprintln!("c19: {e}");
        std::process::exit(2);
    }
    let thorough = run.args.thorough();
    let exact = run.args.get("exact") == Some("1");
    let miri = run.args.get("miri") == Some("1");
    let scratch = run.args.scratch.clone();
    let fixtures = match run.args.get("fixtures") {
        Some(d) => PathBuf::from(d),
        None => PathBuf::from(&scratch).join(format!("fixtures-{}", std::process::id())),
    };
    if run.args.get("mkfix") == Some("1") || run.args.get("fixtures").is_none() {
        if let Err(e) = build_fixtures(&fixtures) {
            eprintln!("cannot build fixtures: {e}");
            std::process::exit(2);
        }
        if run.args.get("mkfix") == Some("1") {
            return;
        }
    }
    let n_random: u64 = run.args.get("count").and_then(|s| s.parse().ok()).unwrap_or(if thorough { 5000 } else { 300 });
    let total = NPROBE + n_random;
    let mut poisoned_any = false;
    for idx in 0..total {
        if !run.want(idx) {
            continue;
        }
        let mut poisoned = false;
        if idx < NPROBE {
            let (name, plan) = probe_plan(idx);
            if plan.is_empty() {
                let pname = match idx {
                    0 => "verify-all-files-on-listed-archive",
                    1 => "fill-hash-table-through-adds",
                    4 => "pkware-member-added-reopened-opened",
                    12 => "open-archive-on-a-directory",
                    17 => "close-mutable-archive-while-writes-fail",
                    _ => "",
                };
                if pname.is_empty() || miri {
                    continue;
                }
                let k = match idx { 4 => 2, 12 => 3, k => k };
                run.case(idx, &format!("probe|{pname}"), json!({"mode": "probe", "probe": pname}), |c| {
                    poisoned = special_probe(c, k, idx, exact, &fixtures, &scratch);
                });
            } else {
                if miri {
                    continue;
                }
                let mut text = plan_text(&plan);
                if text.len() > 400 {
                    // a systematic sweep: the description keeps its head, the rule is in the probe's name and source
                    let n = text.len();
                    text.truncate(40);
                    text.push(format!("... {} more ops of the same sweep", n - 40));
                }
                run.case(idx, &format!("probe|{name}"), json!({"mode": "probe", "probe": name, "plan": text}), |c| {
                    poisoned = run_history(c, idx, &plan, exact, false, &fixtures, &scratch);
                });
            }
        } else {
            let mut rng = run.rng(idx, 0);
            let profile = PROFILES[(idx % PROFILES.len() as u64) as usize];
            let len = if miri { 10 } else if thorough && idx % 4 == 0 { 120 } else { 40 };
            let plan = gen_plan(&mut rng, profile, len, miri);
            let text = plan_text(&plan);
            let class = format!("{profile}|{len}|{:016x}", fnv64(text.join(";").as_bytes()));
            run.case(idx, &class, json!({"mode": "history", "profile": profile, "calls": plan.len(), "plan": text}), |c| {
                poisoned = run_history(c, idx, &plan, exact, miri, &fixtures, &scratch);
            });
        }
        if poisoned {
            // a call never returned: its thread still holds a table lock. Continue in a fresh process.
            poisoned_any = true;
            if run.args.only.is_none() {
                restart_from(idx + 1);
            }
        }
    }
    run.done();
    if run.args.get("fixtures").is_none() {
        let _ = std::fs::remove_dir_all(&fixtures);
    }
    if poisoned_any {
        std::process::exit(0);
    }
}

